------------------------------ MODULE TraceWire ------------------------------
(* Conformance for C02 (verdict style): one line = one Go value of a synthesised type, marshalled and
   unmarshalled by a binary compiled with the union wrappers gomacro generated:
     tree      the value (by reflection)        doc     the bytes json.Marshal produced (tagged)
     roundtrip the unmarshalled value equals the original (nil and empty slices / maps counting as equal)
     err       marshal / unmarshal error or panic                                              *)
EXTENDS WireJSON, Json, IOUtils

Trace == ndJsonDeserialize(IOEnv.VERIF_TRACE)
VARIABLE l

Why(rec) ==
    IF rec.err # "" THEN "marshalling or unmarshalling failed: " \o rec.err
    ELSE IF ~DocEq(rec.doc, Enc(rec.tree)) THEN "wire document is not the Kind/Data + encoding/json format"
    ELSE IF ~rec.roundtrip THEN "value does not survive the JSON round trip"
    ELSE ""

TraceInit == l = 1 /\ TLCSet(1, <<>>)
Consume == /\ l <= Len(Trace)
           /\ LET w == Why(Trace[l]) IN
                IF w = "" THEN TRUE ELSE TLCSet(1, Append(TLCGet(1), [case |-> Trace[l].case, why |-> w]))
           /\ l' = l + 1
TraceSpec == TraceInit /\ [][Consume]_l
Post == /\ TLCGet("stats").diameter - 1 = Len(Trace)
        /\ ndJsonSerialize(IOEnv.VERIF_OUT, <<[consumed |-> Len(Trace)]>> \o TLCGet(1))
=============================================================================
