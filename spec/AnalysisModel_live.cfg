SPECIFICATION MSpec
CONSTANTS
  MaxFields = 1
INVARIANTS NoReenter
PROPERTY Terminates
