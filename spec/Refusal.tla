------------------------------ MODULE Refusal ------------------------------
(* C18 — "unsupported input is refused with a diagnostic, never a crash".

   One behaviour = one run of the pipeline on one input: Analyse, then Generate(t) for each target.
   Every phase ends in exactly one of  ok | refuse  (refuse = an explicit gomacro diagnostic); the
   specification has no other way out of a phase, which is the property:
       NoCrash: the outcome of every phase is ok or refuse (never a Go runtime error, a fatal
                error such as a stack overflow, or non-termination).
   The input space is the product the property quantifies over: an unsupported form placed at a
   position of an otherwise supported package, or a legal but unusual spelling of a supported
   construct.  ExpectedAnalysis records which of the two outcomes the model predicts for the analysis
   (used for MODEL-DRIFT only: refusing more or less is not a violation of C18).              *)
EXTENDS Naturals, Sequences, FiniteSets, TLC, Json, IOUtils

Forms == {"ptr", "ptrstruct", "chan", "func", "anonstruct", "complex", "emptyiface", "any", "error", "ioreader",
          "lonelyiface", "union", "uintptr", "selfptr", "typeparam", "bytes", "rune", "uint64", "float32",
          "namedarray", "namedtime", "namedmap", "structval", "plainarray", "time", "duration"}   \* supported value types, unusual as map keys / type arguments
Positions == {"field", "slice", "array", "mapval", "mapkey", "named", "embedded", "unionmember", "subpkg", "namedslice", "genericarg"}
Spellings == {"oneletter", "oneletterunion", "shortpkg1", "shortpkg2", "groupedtype", "multiconst", "genericbasic",
              "constunderscore", "emptystruct", "unexportedonly", "enumunexported", "badplaceholder", "unknowncomment",
              "fixedarrayofslices", "ptrrecvmember", "dupnames", "keyword",
              "selfslice", "selfmap", "unionlistmember", "mutualnamed", "aliaschain", "promotedmember",
              "uniqueunknowncol", "selectkeyunknowncol", "primarykeyunknowncol", "foreignunknowntable", "queryunknowncol",
              "handlerlocaltypes", "handleranonjson", "handlermapjson"}   \* route files: types declared inside the handler, an anonymous struct / a map as the JSON answer
Targets == {"go/unions", "go/sqlcrud", "go/sqlcrud+sets", "go/randdata", "sql", "typescript/types", "typescript/api", "dart"}

(* positions Go itself rejects for a form (not well-typed, hence outside the property) *)
Comparable(f) == f \notin {"func", "bytes", "namedmap"}
WellTyped(f, p) == /\ (p = "mapkey" => Comparable(f))
                   /\ (p = "embedded" => f \in {"ptrstruct", "error", "ioreader", "lonelyiface", "union", "namedarray", "namedtime", "namedmap", "structval"})
                   /\ (p = "genericarg" => f \in {"uint64", "rune", "uintptr"})
                   /\ (f = "selfptr" => p \in {"field", "slice", "mapval"})
                   /\ (f = "typeparam" => p = "field")

Cases == {[kind |-> "form", form |-> f, pos |-> p] : <<f, p>> \in {fp \in Forms \X Positions : WellTyped(fp[1], fp[2])}}
         \cup {[kind |-> "spelling", form |-> s, pos |-> ""] : s \in Spellings}

(* what the analysis itself accepts (the generators refuse more: pointers, complex numbers...) *)
SupportedByAnalysis(f) == f \in {"ptr", "ptrstruct", "union", "bytes", "rune", "uint64", "float32", "uintptr", "complex",
                                  "namedarray", "namedtime", "namedmap", "structval", "plainarray", "time", "duration"}
ExpectedAnalysis(c) ==
    IF c.kind = "spelling" THEN (IF c.form = "unknowncomment" THEN "refuse" ELSE "ok")
    ELSE IF c.form \in {"ptr", "ptrstruct", "selfptr"} /\ c.pos = "named" THEN "refuse"      \* named pointer types
    ELSE IF c.form = "anonstruct" /\ c.pos = "named" THEN "ok"                              \* type N struct{...} is a struct
    ELSE IF c.form = "lonelyiface" /\ c.pos = "embedded" THEN "ok"                          \* the embedding struct implements it
    ELSE IF c.form \in {"emptyiface", "any"} /\ c.pos = "named" THEN "ok"                   \* every type of the package is a member
    ELSE IF SupportedByAnalysis(c.form) THEN "ok" ELSE "refuse"

VARIABLES case, phase, outcome, pending
vars == <<case, phase, outcome, pending>>

Init == /\ case \in Cases /\ phase = "analyse" /\ outcome = <<>> /\ pending = Targets

Analyse == /\ phase = "analyse"
           /\ \E o \in {ExpectedAnalysis(case)} :
                /\ outcome' = Append(outcome, [phase |-> "analysis", class |-> o])
                /\ phase' = IF o = "ok" THEN "generate" ELSE "done"
           /\ UNCHANGED <<case, pending>>

Generate(t) == /\ phase = "generate" /\ t \in pending
               /\ \E o \in {"ok", "refuse"} : outcome' = Append(outcome, [phase |-> t, class |-> o])
               /\ pending' = pending \ {t}
               /\ phase' = IF pending' = {} THEN "done" ELSE "generate"
               /\ UNCHANGED case

Next == Analyse \/ \E t \in Targets : Generate(t)
Spec == Init /\ [][Next]_vars /\ WF_vars(Next)

NoCrash == \A i \in 1..Len(outcome) : outcome[i].class \in {"ok", "refuse"}
EveryPhaseEnds == <>(phase = "done")

ASSUME TLCSet(1, <<>>)
ExportInv == (phase = "analyse") => TLCSet(1, Append(TLCGet(1), [case |-> case, expect |-> ExpectedAnalysis(case)]))
ExportPost == ndJsonSerialize(IOEnv.VERIF_EXPORT, TLCGet(1))
(* exploring all 2^8 target outcomes per case adds nothing: the cfg bounds the run to the analysis step *)
OnlyAnalysis == phase # "generate" \/ Len(outcome) <= 2
=============================================================================
