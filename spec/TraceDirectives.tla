-------------------------- MODULE TraceDirectives --------------------------
(* Conformance for C16 (verdict style): one line = one model file (structs Item and Order with the
   comment directives of the case, single or grouped declaration) + the custom statements found in
   the real SQL output and the custom query functions found in the real CRUD output (go/ast), all
   as token sequences.  Exactness: token-sequence equality with the expansion of Directives.tla. *)
EXTENDS DirectivesEnv, Json, IOUtils

Trace == ndJsonDeserialize(IOEnv.VERIF_TRACE)
VARIABLE l

Count(seqs, x) == Cardinality({i \in 1..Len(seqs) : seqs[i] = x})
SameBag(a, b) == Len(a) = Len(b) /\ \A i \in 1..Len(a) : Count(a, a[i]) = Count(b, a[i])

ObsQuery(q) == [name |-> q.name, sql |-> q.sql, args |-> q.args]

Why(rec) ==
    IF rec.outcome # "ok" THEN "generation did not complete: " \o rec.outcome
    ELSE LET expS == ExpectedStatements(rec.itemC, "Item", Tables, Enums) \o ExpectedStatements(rec.orderC, "Order", Tables, Enums)
                         \o ExpectedGuardStatements(rec.itemG, "Item", Enums)
             expQ == [i \in 1..Len(rec.itemQ) |-> ExpectedQuery(rec.itemQ[i], Tables, Enums, Fields)]
             obsQ == [i \in 1..Len(rec.queries) |-> ObsQuery(rec.queries[i])] IN
         IF \E i \in 1..Len(rec.statements) : \E j \in 1..Len(rec.statements[i]) : rec.statements[i][j] = "_SELECT"
           THEN "an internal directive (select key) reaches the SQL output"
         ELSE IF ~SameBag(expS, rec.statements)
           THEN IF \E i \in 1..Len(expS) : Count(rec.statements, expS[i]) < Count(expS, expS[i])
                THEN "a custom constraint or a guard is missing or not expanded exactly (placeholders, REFERENCES, table names, ALTER TABLE owner)"
                ELSE "the SQL output has a custom statement no comment asks for"
         ELSE IF ~SameBag(expQ, obsQ) THEN "a custom query function differs (placeholder numbering, argument list or types, expanded text)"
         ELSE ""

TraceInit == l = 1 /\ TLCSet(1, <<>>)
Consume == /\ l <= Len(Trace)
           /\ LET w == Why(Trace[l]) IN
                IF w = "" THEN TRUE ELSE TLCSet(1, Append(TLCGet(1), [case |-> Trace[l].case, why |-> w]))
           /\ l' = l + 1
TraceSpec == TraceInit /\ [][Consume]_l
Post == /\ TLCGet("stats").diameter - 1 = Len(Trace)
        /\ ndJsonSerialize(IOEnv.VERIF_OUT, <<[consumed |-> Len(Trace)]>> \o TLCGet(1))
=============================================================================
