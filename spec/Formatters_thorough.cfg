SPECIFICATION Spec
CONSTANTS
  Procs = {1, 2, 3}
  Tools = {"go", "dart", "ts"}
  MaxReq = 2
INVARIANTS TypeOK AccessUnderLock MutualExclusion ProbeAtMostOnce CacheTruthful RunOncePerRequestIfPresent RunsBounded MissingIsNoop FailureReported SuccessReported
PROPERTY NoProbeAfterKnown
