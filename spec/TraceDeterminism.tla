-------------------------- MODULE TraceDeterminism --------------------------
(* Conformance for C07 (verdict style): one line = one (program, target) with, for every repetition
   (fresh analysis in the same process, and separate processes), the outcome class and the list of
   output files with the hash of their text.  All repetitions must be identical.              *)
EXTENDS Naturals, Sequences, FiniteSets, TLC, Json, IOUtils

Trace == ndJsonDeserialize(IOEnv.VERIF_TRACE)
VARIABLE l

Range(s) == {s[i] : i \in 1..Len(s)}

(* rec.runs : sequence of [class, files : sequence of [name, sha]] *)
FileSets(rec) == {{f.name : f \in Range(r.files)} : r \in Range(rec.runs)}
Why(rec) ==
    IF Len(rec.runs) < 2 THEN "harness: fewer than two repetitions"
    ELSE IF Cardinality({r.class : r \in Range(rec.runs)}) # 1 THEN "outcome differs between repetitions"
    ELSE IF Cardinality(FileSets(rec)) # 1 THEN "set of output files differs between repetitions"
    ELSE IF \E r1, r2 \in Range(rec.runs) : \E f1 \in Range(r1.files), f2 \in Range(r2.files) : f1.name = f2.name /\ f1.sha # f2.sha
         THEN "output text differs between repetitions"
    ELSE ""

TraceInit == l = 1 /\ TLCSet(1, <<>>)
Consume == /\ l <= Len(Trace)
           /\ LET w == Why(Trace[l]) IN
                IF w = "" THEN TRUE ELSE TLCSet(1, Append(TLCGet(1), [case |-> Trace[l].case, target |-> Trace[l].target, why |-> w]))
           /\ l' = l + 1
TraceSpec == TraceInit /\ [][Consume]_l
Post == /\ TLCGet("stats").diameter - 1 = Len(Trace)
        /\ ndJsonSerialize(IOEnv.VERIF_OUT, <<[consumed |-> Len(Trace)]>> \o TLCGet(1))
=============================================================================
