SPECIFICATION TraceSpec
POSTCONDITION Post
