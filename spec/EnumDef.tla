------------------------------ MODULE EnumDef ------------------------------
(* C10 — what "enum detection is exact" means, over an abstract package tree.

   types  : sequence of [key, pkg, name, backing]         named basic types of the tree
   consts : sequence of [pkg, name, type, val, ival, isint, exported, optout, comment] in source order
            (type = key of a named basic type, or "" for untyped / predeclared-typed constants;
             val = exact value as text, ival = the value when it is an integer)
   An observation of the real analysis lists, per type, whether it was classified as an enum, the
   members in reported order and the iota flag.                                             *)
EXTENDS Integers, Sequences, FiniteSets, TLC

Range(s) == {s[i] : i \in 1..Len(s)}

(* constants that make `ty` an enum: typed with it, declared in its own package, not opted out *)
MemberConsts(ty, consts) ==
    SelectSeq(consts, LAMBDA c : c.type = ty.key /\ c.pkg = ty.pkg /\ ~c.optout)

ExpectedIsEnum(ty, consts) == MemberConsts(ty, consts) # <<>>

MemberTriple(m) == [name |-> m.name, val |-> m.val, comment |-> m.comment]
ExpectedMembers(ty, consts) == {MemberTriple(c) : c \in Range(MemberConsts(ty, consts))}

IntBacked(ty) == ty.backing \in {"int", "int8", "int16", "int32", "int64", "uint", "uint8", "uint16", "uint32", "uint64"}

(* iota-like: exported members, in the order given, carry 0,1,2,... *)
ExportedOf(members) == SelectSeq(members, LAMBDA m : m.exported)
CountsFromZero(members) ==
    LET ex == ExportedOf(members) IN \A i \in 1..Len(ex) : ex[i].isint /\ ex[i].ival = i - 1

(* a plain iota block: every member exported, declared in source order with the values 0..n-1 *)
PlainIota(ty, consts) ==
    LET ms == MemberConsts(ty, consts) IN
    /\ ms # <<>> /\ IntBacked(ty)
    /\ \A i \in 1..Len(ms) : ms[i].exported /\ ms[i].isint /\ ms[i].ival = i - 1

IotaFlagOK(ty, consts, reportedMembers, flag) ==
    /\ flag => (IntBacked(ty) /\ CountsFromZero(reportedMembers))
    /\ PlainIota(ty, consts) => flag

(* verdict on one observed type *)
TypeVerdict(ty, consts, o) ==
    IF o.isEnum # ExpectedIsEnum(ty, consts)
      THEN IF o.isEnum THEN "classified as enum without a typed constant of its own package" ELSE "not classified as enum although it has typed constants"
    ELSE IF ~o.isEnum THEN ""
    ELSE IF {MemberTriple(m) : m \in Range(o.members)} # ExpectedMembers(ty, consts)
      THEN "members differ from the declared constants (names, exact values, comments)"
    ELSE IF Len(o.members) # Cardinality(ExpectedMembers(ty, consts)) THEN "a member is reported more than once"
    ELSE IF ~IotaFlagOK(ty, consts, o.members, o.iota)
      THEN IF o.iota THEN "flagged iota although the exported members do not count 0,1,2,... in reported order"
           ELSE "plain iota block not flagged iota"
    ELSE ""
=============================================================================
