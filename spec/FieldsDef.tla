------------------------------ MODULE FieldsDef ------------------------------
(* C09 — which struct fields take part in the generated outputs, and under which key.

   An abstract field:
     [goname, exported, emb, tagname, tagopts, hasjson, gomacro, sub]
     emb      "no" | "struct" (embedded struct, its fields in `sub`) | "basic" (embedded named non-struct)
     hasjson  the struct tag has a json key;  tagname / tagopts: its value split at the first comma
              (tagopts includes the comma: "", ",", ",omitempty")
     gomacro  "" | "ignore"   (value of the gomacro tag)
   EjKeys is the rule of encoding/json (package documentation): unexported fields and fields tagged
   "-" are skipped, the name part of the tag wins when it is not empty, "-," names the key "-",
   an embedded struct without a json name is flattened, with a name it is a field of that name.  *)
EXTENDS Integers, Sequences, FiniteSets, TLC

Absent == "<absent>"

EjSkipped(f) == \/ (f.emb = "no" /\ ~f.exported)
                \/ (f.emb = "basic" /\ ~f.exported)
                \/ (f.hasjson /\ f.tagname = "-" /\ f.tagopts = "")
EjName(f) == IF f.hasjson /\ f.tagname # "" THEN f.tagname ELSE f.goname

RECURSIVE EjKeys(_)
(* keys encoding/json writes for a sequence of fields, in order *)
EjKeys(fs) ==
    IF fs = <<>> THEN <<>>
    ELSE LET f == Head(fs) rest == EjKeys(Tail(fs)) IN
         IF EjSkipped(f) THEN rest
         ELSE IF f.emb = "struct" /\ ~(f.hasjson /\ f.tagname # "") THEN EjKeys(f.sub) \o rest
         ELSE <<EjName(f)>> \o rest

RECURSIVE ExpectedKeys(_)
(* keys C09 demands in the generated outputs: what encoding/json writes, minus gomacro:"ignore" *)
ExpectedKeys(fs) ==
    IF fs = <<>> THEN <<>>
    ELSE LET f == Head(fs) rest == ExpectedKeys(Tail(fs)) IN
         IF EjSkipped(f) \/ f.gomacro = "ignore" THEN rest
         ELSE IF f.emb = "struct" /\ ~(f.hasjson /\ f.tagname # "") THEN ExpectedKeys(f.sub) \o rest
         ELSE <<EjName(f)>> \o rest

(* ---- gomacro as modelled: StructField.Exported / JSONName and the flattening of handleStructFields *)
GmExported(f) == /\ f.exported
                 /\ ~(f.hasjson /\ f.tagname = "-" /\ f.tagopts = "")
                 /\ f.gomacro # "ignore"
GmName(f) == IF f.hasjson /\ f.tagname # "" THEN f.tagname ELSE f.goname     \* since the fix of JSONName
RECURSIVE GmKeys(_)
GmKeys(fs) ==
    IF fs = <<>> THEN <<>>
    ELSE LET f == Head(fs) rest == GmKeys(Tail(fs)) IN
         IF f.emb = "struct" THEN GmKeys(f.sub) \o rest          \* always flattened, whatever its tag
         ELSE IF GmExported(f) THEN <<GmName(f)>> \o rest ELSE rest
=============================================================================
