------------------------------- MODULE Decls -------------------------------
(* C19 — generator.WriteDeclarations as a three-step state machine, and the property as
   refinement to an order-free definition.

   The code (generator/generator.go):
       sort.Slice(decls, by ID)                 -- NOT stable: equal IDs may end in any order
       sort.SliceStable(decls, prio before non-prio)
       first occurrence of every ID wins, content + "\n" appended

   Each step is one action; the unstable sort is modelled as "any permutation that is sorted
   by ID", so TLC explores every resolution of the ties.                                     *)
EXTENDS DeclsDef, Json, IOUtils

CONSTANTS MaxLen,        \* longest declaration list explored exhaustively
          ModelIds,      \* small alphabet of IDs for the exhaustive run
          ModelContents  \* small alphabet of contents

Decl == [id : ModelIds, content : ModelContents, prio : BOOLEAN]

VARIABLES input, sorted, parted, out, phase
vars == <<input, sorted, parted, out, phase>>

-----------------------------------------------------------------------------
Init == /\ input \in SeqsUpTo(Decl, MaxLen)
        /\ sorted = <<>> /\ parted = <<>> /\ out = <<>>
        /\ phase = "in"

UnstableSort == /\ phase = "in"
                /\ sorted' \in {s \in PermsOf(input) : SortedById(s)}
                /\ phase' = "sorted"
                /\ UNCHANGED <<input, parted, out>>

StablePartition == /\ phase = "sorted"
                   /\ parted' = SelectSeq(sorted, IsPrio) \o SelectSeq(sorted, NotPrio)
                   /\ phase' = "parted"
                   /\ UNCHANGED <<input, sorted, out>>

FirstWinsDedupe == /\ phase = "parted"
                   /\ out' = FirstOccurrences(parted, {})
                   /\ phase' = "done"
                   /\ UNCHANGED <<input, sorted, parted>>

Next == UnstableSort \/ StablePartition \/ FirstWinsDedupe
Spec == Init /\ [][Next]_vars /\ WF_vars(Next)

-----------------------------------------------------------------------------
(* C19 on the model *)
ExactlyOnce == phase = "done" => [i \in 1..Len(out) |-> out[i].id] = CanonicalIds(input)
ContentFromInput == phase = "done" => TextOf(out) \in AllowedTexts(input)
OrderFree == (phase = "done" /\ EqualIdsEqualContent(input))
                => \A t \in AllowedTexts(input) : TextOf(out) = t
Terminates == <>(phase = "done")

(* export of the explored inputs to the harness (register 1; needs -workers 1) *)
ASSUME TLCSet(1, <<>>)
ExportInv == (phase = "in") => TLCSet(1, Append(TLCGet(1), [input |-> input]))
ExportPost == ndJsonSerialize(IOEnv.VERIF_EXPORT, <<[idorder |-> IdOrder]>> \o TLCGet(1))
=============================================================================
