------------------------------ MODULE TraceRand ------------------------------
(* Conformance for C15 (verdict style): one line = one analysed type of one program with the outcome
   of calling its generated rand function K times in a binary compiled from the package, the generated
   random-data code and the generated union wrappers:
     outcome  ok | panic | crash | timeout | missing      values : Seq([tree, doc, roundtrip, err])
     reg      the enum and union registries of the program                                     *)
EXTENDS RandDef, Json, IOUtils

Trace == ndJsonDeserialize(IOEnv.VERIF_TRACE)
VARIABLE l

ValueWhy(reg, v) ==
    IF WF(reg, v.tree) # "" THEN WF(reg, v.tree)
    ELSE IF v.err # "" THEN "value does not marshal / unmarshal: " \o v.err
    ELSE IF ~DocEq(v.doc, Enc(v.tree)) THEN "value is not written in the wire format of C02"
    ELSE IF ~v.roundtrip THEN "value does not survive the JSON round trip"
    ELSE ""

Why(rec) ==
    IF rec.outcome = "missing" THEN "no random function generated for the type"
    ELSE IF rec.outcome = "panic" THEN "rand function panics: " \o rec.msg
    ELSE IF rec.outcome \in {"crash", "timeout"} THEN "rand function does not terminate (" \o rec.outcome \o " " \o rec.msg \o ")"
    ELSE LET bad == {i \in 1..Len(rec.values) : ValueWhy(rec.reg, rec.values[i]) # ""} IN
         IF bad # {} THEN ValueWhy(rec.reg, rec.values[CHOOSE i \in bad : TRUE])
         ELSE IF rec.values = <<>> THEN "harness: no value"
         ELSE IF Varies(rec.reg, rec.values[1].tree) /\ Cardinality({rec.values[i].tree : i \in 1..Len(rec.values)}) < 2
              THEN "repeated calls always return the same value"
         ELSE IF FrozenComponents(rec.reg, rec.values) # {}
              THEN "a component never varies over repeated calls: " \o rec.values[1].tree.fields[CHOOSE i \in FrozenComponents(rec.reg, rec.values) : TRUE].go
         ELSE ""

TraceInit == l = 1 /\ TLCSet(1, <<>>)
Consume == /\ l <= Len(Trace)
           /\ LET w == Why(Trace[l]) IN
                IF w = "" THEN TRUE ELSE TLCSet(1, Append(TLCGet(1), [case |-> Trace[l].case, why |-> w]))
           /\ l' = l + 1
TraceSpec == TraceInit /\ [][Consume]_l
Post == /\ TLCGet("stats").diameter - 1 = Len(Trace)
        /\ ndJsonSerialize(IOEnv.VERIF_OUT, <<[consumed |-> Len(Trace)]>> \o TLCGet(1))
=============================================================================
