SPECIFICATION Spec
INVARIANTS NoCrash ExportInv
CONSTRAINT OnlyAnalysis
POSTCONDITION ExportPost
