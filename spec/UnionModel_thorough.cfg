SPECIFICATION Spec
CONSTANTS
  NIfaces = 2
  NTypes = 3
  Methods = {"M1", "m2"}
INVARIANTS ModelUnionsExact ModelImplementsExact ExportInv
POSTCONDITION ExportPost
