------------------------------ MODULE AxiosSem ------------------------------
(* C14 — the request a generated client method must issue for an endpoint and argument values.

   endpoint : as in HttpApi (method, url, name, input, ret, blob, query, values, file, json, jsontype)
   args     : [body (JSON text or ""), formvalues : Seq([name, v]), filename, formjson (JSON text),
               query : Seq([name, kind \in {"string","number","boolean"}, v (text)])]
   A recorded call is positional, exactly as the generated method makes it:
       [verb, url, args : Seq(arg)]   arg = [k |-> "json", text] | [k |-> "null"] | [k |-> "form", entries]
                                             | [k |-> "config", auth, hasparams, params : Seq([name, type, v]), responseType]
   By the generator's own convention the second argument is the body whenever the contract has one
   (or null for a body-less POST / PUT) and the last argument is the config.                   *)
EXTENDS HttpApi

Lower(v) == CASE v = "GET" -> "get" [] v = "POST" -> "post" [] v = "PUT" -> "put" [] OTHER -> "delete"

HasForm(e) == e.values # <<>> \/ e.file # "" \/ e.json # ""
HasBody(e) == e.input # ""

FormEntries(e, a) ==
    (IF e.file # "" THEN <<[name |-> e.file, kind |-> "file", v |-> a.filename]>> ELSE <<>>)
    \o [i \in 1..Len(e.values) |-> [name |-> e.values[i], kind |-> "string", v |-> (CHOOSE x \in Range(a.formvalues) : x.name = e.values[i]).v]]
    \o (IF e.json # "" THEN <<[name |-> e.json, kind |-> "string", v |-> a.formjson]>> ELSE <<>>)

(* query parameters are sent as strings: numbers through String(), booleans as 'ok' / '', strings as they are *)
QueryValue(q) == CASE q.kind = "number" -> [type |-> "string", v |-> q.v]
                   [] q.kind = "boolean" -> [type |-> "string", v |-> IF q.v = "true" THEN "ok" ELSE ""]
                   [] OTHER -> [type |-> "string", v |-> q.v]
ExpectedConfig(e, a) ==
    [k |-> "config", auth |-> "Bearer TOKEN", hasparams |-> e.query # <<>>,
     params |-> [i \in 1..Len(e.query) |-> LET q == CHOOSE x \in Range(a.query) : x.name = e.query[i].name IN
                                           [name |-> q.name, type |-> QueryValue(q).type, v |-> QueryValue(q).v]],
     responseType |-> IF e.blob THEN "arraybuffer" ELSE ""]

ExpectedCall(e, a) ==
    [verb |-> Lower(e.method), url |-> "BASE" \o e.url,
     args |-> IF HasForm(e) /\ ~HasBody(e) THEN <<[k |-> "form", entries |-> FormEntries(e, a)], ExpectedConfig(e, a)>>
              ELSE IF HasBody(e) THEN <<[k |-> "json", text |-> a.body], ExpectedConfig(e, a)>>
              ELSE IF e.method \in {"POST", "PUT"} THEN <<[k |-> "null"], ExpectedConfig(e, a)>>
              ELSE <<ExpectedConfig(e, a)>>]

ExpectedReturn(e) == IF e.blob THEN [k |-> "blob", filename |-> "my file.pdf"]
                     ELSE IF e.ret = "" THEN [k |-> "true"]
                     ELSE [k |-> "data"]

(* config params compare as sets of (name, type, value) *)
SameArg(o, x) ==
    IF o.k # x.k THEN FALSE
    ELSE IF o.k = "config" THEN /\ o.auth = x.auth /\ o.hasparams = x.hasparams /\ o.responseType = x.responseType
                                /\ Range(o.params) = Range(x.params) /\ Len(o.params) = Len(x.params)
    ELSE o = x
SameCall(o, x) == /\ o.verb = x.verb /\ o.url = x.url /\ Len(o.args) = Len(x.args)
                  /\ \A i \in 1..Len(x.args) : SameArg(o.args[i], x.args[i])
=============================================================================
