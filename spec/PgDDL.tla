------------------------------- MODULE PgDDL -------------------------------
(* C08 — the SQL schema expected for a model file, from the abstract description of its structs.

   env    : sequence of type declarations the columns may refer to
            [key, k \in {"named","enum","struct"}, under (TE), base, ints (BOOLEAN), values (Seq of SQL literals), fields (Seq of [name, te])]
   TE     : [k |-> "basic", name] | [k |-> "ref", key] | [k |-> "slice", elem] | [k |-> "array", len, elem]
            | [k |-> "map"] | [k |-> "union"] | [k |-> "time"]
   table  : [goname, fields : Seq([name, exported, te, guard, foreign, ondelete])]
            guard = [k |-> "none"] | [k |-> "lit", v] | [k |-> "enum", type, const]
   The mapping below is the documented Go-to-SQL mapping of the property, as a total function.  *)
EXTENDS Integers, Sequences, FiniteSets, TLC

Range(s) == {s[i] : i \in 1..Len(s)}

Decl(env, key) == CHOOSE d \in Range(env) : d.key = key
HasDecl(env, key) == \E d \in Range(env) : d.key = key

IntNames == {"int", "int8", "int16", "int32", "int64", "uint", "uint8", "uint16", "uint32", "uint64", "byte", "rune", "uintptr"}
BasicSql(name) == CASE name = "bool" -> "boolean"
                    [] name \in {"int16", "uint8", "byte"} -> "smallint"
                    [] name \in IntNames -> "integer"
                    [] name \in {"float32", "float64"} -> "real"
                    [] name = "string" -> "text"
                    [] OTHER -> "?" \o name

RECURSIVE Under(_, _)
(* the basic type name a type expression bottoms out on, or "" *)
Under(env, te) == CASE te.k = "basic" -> te.name
                    [] te.k = "ref" /\ HasDecl(env, te.key) /\ Decl(env, te.key).k \in {"named", "enum"} -> Under(env, Decl(env, te.key).under)
                    [] OTHER -> ""
IsEnum(env, te) == te.k = "ref" /\ HasDecl(env, te.key) /\ Decl(env, te.key).k = "enum"
IsIntEnum(env, te) == IsEnum(env, te) /\ Under(env, te) \in IntNames
RECURSIVE IsTime(_, _), IsDate(_, _), Resolve(_, _)
(* named types over containers are transparent *)
Resolve(env, te) == IF te.k = "ref" /\ HasDecl(env, te.key) /\ Decl(env, te.key).k = "named" /\ Decl(env, te.key).under.k \notin {"basic", "time"}
                    THEN Resolve(env, Decl(env, te.key).under) ELSE te
IsTime(env, te) == te.k = "time" \/ (te.k = "ref" /\ HasDecl(env, te.key) /\ Decl(env, te.key).k = "named" /\ Decl(env, te.key).under.k = "time")
IsDate(env, te) == te.k = "ref" /\ HasDecl(env, te.key) /\ Decl(env, te.key).k = "named" /\ Decl(env, te.key).under.k = "time" /\ Decl(env, te.key).date

(* struct look-alikes of sql.NullXXX: exactly two fields, one of them `Valid bool` *)
IsValidField(f) == f.name = "Valid" /\ f.te.k = "basic" /\ f.te.name = "bool"
NullData(d) == IF IsValidField(d.fields[1]) THEN d.fields[2] ELSE d.fields[1]
IsNullXXX(env, te) == /\ te.k = "ref" /\ HasDecl(env, te.key) /\ Decl(env, te.key).k = "struct"
                      /\ LET d == Decl(env, te.key) IN Len(d.fields) = 2 /\ (IsValidField(d.fields[1]) \/ IsValidField(d.fields[2]))
NullIsScalar(env, te) == LET f == NullData(Decl(env, te.key)) IN (Under(env, f.te) # "" /\ BasicSql(Under(env, f.te)) # "?" \o Under(env, f.te)) \/ IsTime(env, f.te)
(* all-integer structs are composite types *)
IsComposite(env, te) == /\ te.k = "ref" /\ HasDecl(env, te.key) /\ Decl(env, te.key).k = "struct"
                        /\ ~IsNullXXX(env, te)
                        /\ LET d == Decl(env, te.key) IN
                             \A f \in Range(d.fields) : (f.te.k = "basic" /\ f.te.name \in IntNames) \/ IsIntEnum(env, f.te)

(* ---- names: the snake-case-plural convention *)
Upper == {"A","B","C","D","E","F","G","H","I","J","K","L","M","N","O","P","Q","R","S","T","U","V","W","X","Y","Z"}
Lower == {"a","b","c","d","e","f","g","h","i","j","k","l","m","n","o","p","q","r","s","t","u","v","w","x","y","z"}
Digit == {"0","1","2","3","4","5","6","7","8","9"}
LowerOf == [c \in Upper |-> CASE c="A"->"a" [] c="B"->"b" [] c="C"->"c" [] c="D"->"d" [] c="E"->"e" [] c="F"->"f" [] c="G"->"g" [] c="H"->"h" [] c="I"->"i"
              [] c="J"->"j" [] c="K"->"k" [] c="L"->"l" [] c="M"->"m" [] c="N"->"n" [] c="O"->"o" [] c="P"->"p" [] c="Q"->"q" [] c="R"->"r" [] c="S"->"s"
              [] c="T"->"t" [] c="U"->"u" [] c="V"->"v" [] c="W"->"w" [] c="X"->"x" [] c="Y"->"y" [] OTHER -> "z"]
Ch(s, i) == SubSeq(s, i, i)
RECURSIVE SnakeFrom(_, _)
(* an underscore goes before an upper-case letter that follows a lower-case letter or a digit, or
   that starts a capitalised word after other characters (HTTPServer -> http_server) *)
SnakeFrom(s, i) ==
    IF i > Len(s) THEN ""
    ELSE LET c == Ch(s, i)
             sep == /\ i > 1 /\ c \in Upper
                    /\ \/ Ch(s, i - 1) \in Lower \cup Digit
                       \/ (i < Len(s) /\ Ch(s, i + 1) \in Lower /\ Ch(s, i - 1) # "_")
         IN (IF sep THEN "_" ELSE "") \o (IF c \in Upper THEN LowerOf[c] ELSE c) \o SnakeFrom(s, i + 1)
TableName(goname) == SnakeFrom(goname, 1) \o "s"

RECURSIVE LowerFrom(_, _)
LowerFrom(s, i) == IF i > Len(s) THEN "" ELSE (IF Ch(s, i) \in Upper THEN LowerOf[Ch(s, i)] ELSE Ch(s, i)) \o LowerFrom(s, i + 1)
ToLower(s) == LowerFrom(s, 1)

TimeSql(env, te) == IF IsDate(env, te) THEN "date" ELSE "timestamp (0) with time zone"

(* expected column: [type, notnull, check]  check = [k |-> "none"] | [k |-> "in", vals] | [k |-> "arraylen", n] | [k |-> "json"] *)
None == [k |-> "none"]
ColumnOf(env, te0) ==
    LET te == Resolve(env, te0) IN
    CASE IsTime(env, te) -> [type |-> TimeSql(env, te), notnull |-> TRUE, check |-> None]
      [] IsEnum(env, te) -> [type |-> BasicSql(Under(env, te)), notnull |-> TRUE, check |-> [k |-> "in", vals |-> Decl(env, te.key).values]]
      [] Under(env, te) # "" -> [type |-> BasicSql(Under(env, te)), notnull |-> TRUE, check |-> None]
      [] te.k \in {"slice", "array"} ->
            IF te.k = "slice" /\ te.elem.k = "basic" /\ te.elem.name \in {"byte", "uint8"} THEN [type |-> "bytea", notnull |-> TRUE, check |-> None]
            ELSE IF te.elem.k = "basic" \/ IsIntEnum(env, te.elem)
                 THEN [type |-> BasicSql(Under(env, te.elem)) \o "[]",
                       notnull |-> te.k = "array",
                       check |-> IF te.k = "array" THEN [k |-> "arraylen", n |-> te.len] ELSE None]
            ELSE [type |-> "jsonb", notnull |-> TRUE, check |-> [k |-> "json"]]
      [] IsNullXXX(env, te) /\ NullIsScalar(env, te) ->
            LET f == NullData(Decl(env, te.key)) IN
            [type |-> IF IsTime(env, f.te) THEN TimeSql(env, f.te) ELSE BasicSql(Under(env, f.te)), notnull |-> FALSE, check |-> None]
      [] IsComposite(env, te) -> [type |-> ToLower(Decl(env, te.key).local), notnull |-> TRUE, check |-> None]   \* unquoted identifiers fold to lower case
      [] OTHER -> [type |-> "jsonb", notnull |-> TRUE, check |-> [k |-> "json"]]

(* ---- tables *)
IsColumn(f) == f.exported \/ f.guard.k # "none"
Columns(t) == SelectSeq(t.fields, IsColumn)
IsPrimary(f) == ToLower(f.name) = "id"
PrimaryIndex(t) == LET cs == Columns(t) IN IF \E i \in 1..Len(cs) : IsPrimary(cs[i]) THEN CHOOSE i \in 1..Len(cs) : IsPrimary(cs[i]) /\ \A j \in 1..(i - 1) : ~IsPrimary(cs[j]) ELSE 0

ExpectedColumn(env, t, i) ==
    LET f == Columns(t)[i] c == ColumnOf(env, f.te) IN
    IF i = PrimaryIndex(t) THEN [name |-> f.name, type |-> "serial", notnull |-> TRUE, primary |-> TRUE, check |-> None]
    ELSE [name |-> f.name, type |-> c.type, notnull |-> c.notnull, primary |-> FALSE, check |-> c.check]
ExpectedTable(env, t) == [name |-> TableName(t.goname), cols |-> [i \in 1..Len(Columns(t)) |-> ExpectedColumn(env, t, i)]]

(* guards: a column default plus an equality check, on the SQL literal of the guard value *)
IndexOf(seq, x) == CHOOSE i \in 1..Len(seq) : seq[i] = x
GuardSql(env, g) == IF g.k = "lit" THEN g.v ELSE Decl(env, g.type).values[IndexOf(Decl(env, g.type).names, g.const)]
ExpectedGuards(env, t) == {[table |-> TableName(t.goname), col |-> f.name, value |-> GuardSql(env, f.guard)] : f \in {g \in Range(Columns(t)) : g.guard.k # "none"}}

(* foreign keys: an ID type naming another table (IdX / XId, int64 underneath), or the foreign tag *)
IdTarget(env, t, f) ==
    IF f.te.k = "ref" /\ HasDecl(env, f.te.key) /\ Decl(env, f.te.key).k = "named" /\ Decl(env, f.te.key).under.k = "basic" /\ Decl(env, f.te.key).under.name = "int64"
    THEN LET n == Decl(env, f.te.key).local IN
         IF Len(n) > 2 /\ ToLower(SubSeq(n, 1, 2)) = "id" THEN SubSeq(n, 3, Len(n))
         ELSE IF Len(n) > 2 /\ ToLower(SubSeq(n, Len(n) - 1, Len(n))) = "id" THEN SubSeq(n, 1, Len(n) - 2)
         ELSE ""
    ELSE ""
FkTarget(env, t, f) == IF IdTarget(env, t, f) # "" /\ IdTarget(env, t, f) # t.goname THEN IdTarget(env, t, f) ELSE f.foreign
ExpectedFKs(env, t) == {[table |-> TableName(t.goname), col |-> f.name, ref |-> TableName(FkTarget(env, t, f)), ondelete |-> f.ondelete]
                          : f \in {g \in Range(Columns(t)) : FkTarget(env, t, g) # ""}}
ExpectedComposites(env, t) == {Resolve(env, f.te).key : f \in {g \in Range(Columns(t)) : IsComposite(env, Resolve(env, g.te)) /\ Decl(env, Resolve(env, g.te).key).islocal}}
=============================================================================
