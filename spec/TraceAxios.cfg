SPECIFICATION TraceSpec
POSTCONDITION Post
