SPECIFICATION TraceSpec
POSTCONDITION Post
