----------------------------- MODULE PipelineMC -----------------------------
(* Model-checking instances of Pipeline (constant sequences cannot be written in a .cfg file). *)
EXTENDS Pipeline
F3 == <<"go", "ts", "go">>
F4 == <<"go", "psql", "ts", "go">>
F2 == <<"dart", "dart">>
=============================================================================
