SPECIFICATION TraceSpec
POSTCONDITION Post
