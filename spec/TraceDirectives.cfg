SPECIFICATION TraceSpec
POSTCONDITION Post
