----------------------------- MODULE TraceLoader -----------------------------
(* Conformance for C17 (verdict style): one line = one real call of analysis.LoadSources on a
   layout materialised in a scratch module.                                              *)
EXTENDS LoaderDef, Json, IOUtils

Trace == ndJsonDeserialize(IOEnv.VERIF_TRACE)
VARIABLE l

V(rec, ok, why) == [case |-> rec.case, ok |-> ok, why |-> why]

Verdict(rec) ==
    IF rec.outcome = "panic" THEN V(rec, FALSE, "crash: " \o rec.msg)
    ELSE IF rec.expect = "error"
         THEN IF rec.outcome = "error" THEN V(rec, TRUE, "")
              ELSE V(rec, FALSE, "an error case (" \o rec.kind \o ") was not reported as an error")
    ELSE IF rec.outcome = "error" THEN V(rec, FALSE, "existing well-typed files were refused: " \o rec.msg)
    ELSE IF ~RootOK(rec) THEN V(rec, FALSE, "root is not an existing directory that is an ancestor of every file")
    ELSE IF ~PackagesOK(rec) THEN V(rec, FALSE, "file not mapped, in order, to the package that contains it")
    ELSE V(rec, TRUE, "")

TraceInit == l = 1 /\ TLCSet(1, <<>>)
Consume == /\ l <= Len(Trace)
           /\ LET v == Verdict(Trace[l]) IN IF v.ok THEN TRUE ELSE TLCSet(1, Append(TLCGet(1), v))
           /\ l' = l + 1
TraceSpec == TraceInit /\ [][Consume]_l
Post == /\ TLCGet("stats").diameter - 1 = Len(Trace)
        /\ ndJsonSerialize(IOEnv.VERIF_OUT, <<[consumed |-> Len(Trace)]>> \o TLCGet(1))
=============================================================================
