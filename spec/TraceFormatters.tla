-------------------------- MODULE TraceFormatters --------------------------
(* Conformance for C20 (acceptance style): traces recorded from the real generator.Formatters.
   Producers of events: the driver goroutines (call / return, logged before and after the real
   FormatFile call) and the stand-in executables found on PATH (probe_start / probe_end /
   run_start / run_end, appended to the same O_APPEND log from inside the tool process).
   Lock hand-over is not logged: TLC infers it (AcquireHit and Release are silent steps).
   All invariants of Formatters are evaluated in every state of the replay.                 *)
EXTENDS Naturals, Sequences, FiniteSets, TLC, Json, IOUtils

Procs == 1..8
Tools == {"go", "dart", "ts", "psql"}
MaxReq == 1000

VARIABLES avail, pc, req, nreq, lock, has, probes, runs, ret, touched
INSTANCE Formatters

Trace == ndJsonDeserialize(IOEnv.VERIF_TRACE)

VARIABLES l,        \* next trace line
          curfile   \* [Procs -> file of the current request] (bookkeeping of the trace spec only)
tvars == <<vars, l, curfile>>

Ev == Trace[l]
IsEvent(e) == l <= Len(Trace) /\ Ev.ev = e /\ l' = l + 1

ZeroState == /\ pc' = [p \in Procs |-> "idle"]
             /\ req' = [p \in Procs |-> "go"]
             /\ nreq' = [p \in Procs |-> 0]
             /\ lock' = None
             /\ has' = [t \in Tools |-> "unknown"]
             /\ probes' = [t \in Tools |-> 0]
             /\ runs' = [p \in Procs |-> 0]
             /\ ret' = [p \in Procs |-> "pending"]
             /\ touched' = [p \in Procs |-> FALSE]
             /\ curfile' = [p \in Procs |-> ""]

TraceInit == /\ l = 1
             /\ avail = [t \in Tools |-> "ok"]
             /\ pc = [p \in Procs |-> "idle"] /\ req = [p \in Procs |-> "go"] /\ nreq = [p \in Procs |-> 0]
             /\ lock = None /\ has = [t \in Tools |-> "unknown"] /\ probes = [t \in Tools |-> 0]
             /\ runs = [p \in Procs |-> 0] /\ ret = [p \in Procs |-> "pending"] /\ touched = [p \in Procs |-> FALSE]
             /\ curfile = [p \in Procs |-> ""]

(* a new trace starts (fresh Formatters value, new tool configuration) *)
TReset == /\ IsEvent("config")
          /\ avail' = [t \in Tools |-> Ev.avail[t]]
          /\ ZeroState

TCall == /\ IsEvent("call")
         /\ Ev.p \in Procs /\ Ev.tool \in Tools
         /\ Call(Ev.p, Ev.tool)
         /\ curfile' = [curfile EXCEPT ![Ev.p] = Ev.file]

TProbeStart == /\ IsEvent("probe_start")
               /\ \E p \in Procs : req[p] = Ev.tool /\ AcquireProbe(p)
               /\ UNCHANGED curfile

TProbeEnd == /\ IsEvent("probe_end")
             /\ \E p \in Procs : req[p] = Ev.tool /\ ProbeEnd(p)
             /\ (Ev.exit = 0) <=> (avail[Ev.tool] # "missing")     \* the stand-in did what it was configured to do
             /\ UNCHANGED curfile

TRunStart == /\ IsEvent("run_start")
             /\ \E p \in Procs : curfile[p] = Ev.file /\ req[p] = Ev.tool /\ RunStart(p)
             /\ UNCHANGED curfile

TRunEnd == /\ IsEvent("run_end")
           /\ \E p \in Procs : curfile[p] = Ev.file /\ req[p] = Ev.tool /\ RunEnd(p)
           /\ (Ev.exit = 0) <=> (avail[Ev.tool] = "ok")
           /\ UNCHANGED curfile

TReturn == /\ IsEvent("return")
           /\ Return(Ev.p)
           /\ Ev.err <=> (ret[Ev.p] = "err")          \* logged reply = the reply the spec computes
           /\ Ev.changed <=> touched[Ev.p]           \* file bytes rewritten iff the spec says so
           /\ UNCHANGED curfile

Silent == /\ \E p \in Procs : AcquireHit(p) \/ Release(p)
          /\ UNCHANGED <<l, curfile>>

TraceNext == TReset \/ TCall \/ TProbeStart \/ TProbeEnd \/ TRunStart \/ TRunEnd \/ TReturn \/ Silent
TraceSpec == TraceInit /\ [][TraceNext]_tvars

(* high-water mark of consumed lines (register 2; -workers 1) *)
ASSUME TLCSet(2, 1)
HWM == IF l > TLCGet(2) THEN TLCSet(2, l) ELSE TRUE

Post == ndJsonSerialize(IOEnv.VERIF_OUT, <<[hwm |-> TLCGet(2), len |-> Len(Trace)]>>)
=============================================================================
