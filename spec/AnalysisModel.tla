---------------------------- MODULE AnalysisModel ----------------------------
(* Design-level run for C12: the Analysis walk on every well-formed program with two named types
   N1, N2 whose bodies are structs of <=MaxFields fields or named types over a type expression of
   the small universe TEU (self and mutual recursion through slices, maps and arrays, named over
   named).  Programs Go rejects (a cycle that never passes through a slice or a map) are excluded
   by Valid.  Every explored program is exported and replayed through the real analysis.       *)
EXTENDS Analysis, SequencesExt, Json, IOUtils

CONSTANTS MaxFields

Names == {"N1", "N2"}
TEU == {[k |-> "basic", of |-> "int"]} \cup [k : {"ref", "slice", "array", "map"}, of : Names]
Bodies == [k : {"named"}, te : TEU, fields : {<<>>}]
          \cup {[k |-> "struct", te |-> [k |-> "basic", of |-> "int"], fields |-> fs] :
                    fs \in UNION {[1..n -> TEU] : n \in 0..MaxFields}}
Progs == [Names -> Bodies]

(* direct containment: positions that do not break a cycle *)
DirectRefs(b) == IF b.k = "named" THEN (IF b.te.k \in {"ref", "array"} THEN {b.te.of} ELSE {})
                 ELSE {b.fields[i].of : i \in {j \in 1..Len(b.fields) : b.fields[j].k \in {"ref", "array"}}}
Valid(p) == /\ \A n \in Names : n \notin DirectRefs(p[n])
            /\ ~("N2" \in DirectRefs(p["N1"]) /\ "N1" \in DirectRefs(p["N2"]))

(* the type graph of a program.  Anonymous type expressions are distinct objects per occurrence
   ("N1.2" = second field of N1, "N1.u" = the underlying of N1); predeclared types are shared. *)
OccId(n, pos) == n \o "." \o pos
TeId(te, n, pos) == IF te.k = "basic" THEN te.of ELSE IF te.k = "ref" THEN te.of ELSE OccId(n, pos)

(* `type N1 N2`: the underlying type of N1 is the underlying type *object* of N2 *)
RECURSIVE Resolve(_, _)
Resolve(p, n) == IF p[n].k = "named" /\ p[n].te.k = "ref" THEN Resolve(p, p[n].te.of) ELSE n

NamedNode(p, n) ==
    LET r == Resolve(p, n) b == p[r] IN
    IF b.k = "struct"
    THEN [kind |-> "struct", children |-> [i \in 1..Len(b.fields) |-> TeId(b.fields[i], r, ToString(i))], early |-> TRUE, regAs |-> n]
    ELSE [kind |-> "named", children |-> <<TeId(b.te, r, "u")>>, early |-> FALSE, regAs |-> n]

AnonNode(te, id) ==
    IF te.k = "map" THEN [kind |-> "map", children |-> <<"string", te.of>>, early |-> TRUE, regAs |-> id]
    ELSE [kind |-> te.k, children |-> <<te.of>>, early |-> TRUE, regAs |-> id]

AnonOccs(p) == UNION {
    (IF p[n].k = "named" /\ p[n].te.k \in {"slice", "array", "map"} THEN {<<OccId(n, "u"), p[n].te>>} ELSE {})
    \cup {<<OccId(n, ToString(i)), p[n].fields[i]>> : i \in {j \in 1..Len(p[n].fields) : p[n].fields[j].k \in {"slice", "array", "map"}}}
    : n \in Names}

GraphOf(p) ==
    LET occ == AnonOccs(p)
        ids == Names \cup {"int", "string"} \cup {o[1] : o \in occ}
    IN [id \in ids |->
          IF id \in Names THEN NamedNode(p, id)
          ELSE IF id \in {"int", "string"} THEN [kind |-> "basic", children |-> <<>>, early |-> FALSE, regAs |-> id]
          ELSE AnonNode((CHOOSE o \in occ : o[1] = id)[2], id)]

VARIABLE prog
mvars == <<avars, prog>>

MInit == /\ prog \in {p \in Progs : Valid(p)}
         /\ g = GraphOf(prog)
         /\ roots = <<"N1", "N2">> /\ todo = <<"N1", "N2">>
         /\ memo = {} /\ stack = <<>> /\ last = [ev |-> "start", id |-> ""]
MNext == Next /\ UNCHANGED prog
MSpec == MInit /\ [][MNext]_mvars /\ WF_mvars(MNext)
Terminates == <>Done

ASSUME TLCSet(1, <<>>)
ExportInv == (last.ev = "start") => TLCSet(1, Append(TLCGet(1), [n1 |-> prog["N1"], n2 |-> prog["N2"]]))
ExportPost == ndJsonSerialize(IOEnv.VERIF_EXPORT, TLCGet(1))
=============================================================================
