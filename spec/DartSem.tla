------------------------------- MODULE DartSem -------------------------------
(* C06 — the generated Dart files, as far as the property talks about them.

   files   : Seq([name, imports, defs, uses, classes, unions, enums])   (harness/internal/proj/dart.go)
   Expected side (from an independent go/types walk of the analysed packages):
   structs : Seq([dart, pkg, fields (FieldsDef shape), unions : Seq(dart name)])   unions = exported unions listing it
   unions  : Seq([dart, pkg, exported, members : Seq([tag, dart, routine])])
   enums   : Seq([dart, pkg, ints, values : Seq(text)])     values of the exported constants
   nameds  : Seq([dart, pkg])                                other named types                  *)
EXTENDS FieldsDef

Range(s) == {s[i] : i \in 1..Len(s)}

FilesDefining(files, n) == {i \in 1..Len(files) : \E k \in 1..Len(files[i].defs) : files[i].defs[k] = n}
TimesDefined(f, n) == Cardinality({k \in 1..Len(f.defs) : f.defs[k] = n})
FileNamed(files, n) == CHOOSE i \in 1..Len(files) : files[i].name = n
HasFile(files, n) == \E i \in 1..Len(files) : files[i].name = n

ClassOf(files, n) == LET i == CHOOSE x \in 1..Len(files) : \E c \in Range(files[x].classes) : c.name = n IN
                     CHOOSE c \in Range(files[i].classes) : c.name = n
HasClass(files, n) == \E i \in 1..Len(files) : \E c \in Range(files[i].classes) : c.name = n
UnionOf(files, n) == LET i == CHOOSE x \in 1..Len(files) : \E u \in Range(files[x].unions) : u.name = n IN
                     CHOOSE u \in Range(files[i].unions) : u.name = n
HasUnion(files, n) == \E i \in 1..Len(files) : \E u \in Range(files[i].unions) : u.name = n
EnumOf(files, n) == LET i == CHOOSE x \in 1..Len(files) : \E e \in Range(files[x].enums) : e.name = n IN
                    CHOOSE e \in Range(files[i].enums) : e.name = n
HasEnum(files, n) == \E i \in 1..Len(files) : \E e \in Range(files[i].enums) : e.name = n

(* ---- structs: keys mirror Go, one constructor argument per exported field, in field order *)
StructWhy(files, s) ==
    IF ~HasClass(files, s.dart) THEN "no Dart class for the struct " \o s.dart
    ELSE LET c == ClassOf(files, s.dart) want == ExpectedKeys(s.fields) IN
         IF c.fromKeys # want THEN "fromJson of " \o s.dart \o " does not read exactly the JSON keys Go uses, in field order"
         ELSE IF c.toKeys # want THEN "toJson of " \o s.dart \o " does not write exactly the JSON keys Go uses, in field order"
         ELSE IF Len(c.ctor) # Len(want) \/ Len(c.fields) # Len(want) \/ c.fromArgs # Len(want) THEN "class " \o s.dart \o " does not have one constructor argument per exported field"
         ELSE IF c.ctor # c.fields THEN "constructor arguments of " \o s.dart \o " are not in field order"
         ELSE IF Range(c.implements) # Range(s.unions) \/ Len(c.implements) # Len(s.unions) THEN "class " \o s.dart \o " is not declared as implementing exactly its exported unions"
         ELSE ""

(* ---- null: Go writes null for a nil slice or map; the routine reading such a field must accept it
   (directly, or by handing the document over to a routine that does) *)
RECURSIVE NilableKeys(_)
NilableKeys(fs) ==
    IF fs = <<>> THEN <<>>
    ELSE LET f == Head(fs) rest == NilableKeys(Tail(fs)) IN
         IF EjSkipped(f) \/ f.gomacro = "ignore" THEN rest
         ELSE IF f.emb = "struct" /\ ~(f.hasjson /\ f.tagname # "") THEN NilableKeys(f.sub) \o rest
         ELSE IF f.nilable THEN <<EjName(f)>> \o rest ELSE rest
AllHelpers(files) == UNION {Range(files[i].helpers) : i \in 1..Len(files)}
RECURSIVE Tolerates(_, _, _)
Tolerates(files, name, depth) ==
    \E h \in AllHelpers(files) : h.name = name /\ (h.nullguard \/ (depth < 4 /\ h.delegates # "" /\ Tolerates(files, h.delegates, depth + 1)))
NullWhy(files, s) ==
    IF ~HasClass(files, s.dart) THEN ""
    ELSE LET c == ClassOf(files, s.dart)
             bad == {i \in 1..Len(c.fromKeys) : i <= Len(c.fromCalls) /\ c.fromKeys[i] \in Range(NilableKeys(s.fields))
                                               /\ c.fromCalls[i] # "" /\ ~Tolerates(files, c.fromCalls[i], 0)} IN
         IF bad = {} THEN ""
         ELSE "fromJson of " \o s.dart \o " reads the key " \o c.fromKeys[CHOOSE i \in bad : TRUE] \o " with a routine that does not accept the null Go writes for a nil slice or map"

(* ---- map keys: JSON object keys are strings; Go writes integer keys in decimal and enum keys as their value.
   The routine reading a map field must turn the key string back: parse integers, hand enum values to the
   enum's own routine, take strings as they are *)
RECURSIVE KeyConvOf(_, _, _)
KeyConvOf(files, name, depth) ==
    IF ~\E h \in AllHelpers(files) : h.name = name THEN ""
    ELSE LET h == CHOOSE x \in AllHelpers(files) : x.name = name IN
         IF h.keyconv # "" THEN h.keyconv
         ELSE IF depth < 4 /\ h.delegates # "" THEN KeyConvOf(files, h.delegates, depth + 1) ELSE ""
RECURSIVE MapKeyFields(_)
MapKeyFields(fs) ==    \* <<key, keywire>> of the included map fields
    IF fs = <<>> THEN <<>>
    ELSE LET f == Head(fs) rest == MapKeyFields(Tail(fs)) IN
         IF EjSkipped(f) \/ f.gomacro = "ignore" THEN rest
         ELSE IF f.emb = "struct" /\ ~(f.hasjson /\ f.tagname # "") THEN MapKeyFields(f.sub) \o rest
         ELSE IF f.keywire # "" THEN << <<EjName(f), f.keywire>> >> \o rest ELSE rest
WantedConv(w) == CASE w = "int" -> {"parse"} [] w = "intenum" -> {"enumparse"} [] w = "strenum" -> {"enumstr"} [] OTHER -> {"cast", "enumstr"}
KeyWhy(files, s) ==
    IF ~HasClass(files, s.dart) THEN ""
    ELSE LET c == ClassOf(files, s.dart)
             mk == MapKeyFields(s.fields)
             bad == {i \in 1..Len(c.fromKeys) : i <= Len(c.fromCalls) /\ c.fromCalls[i] # ""
                        /\ \E m \in Range(mk) : m[1] = c.fromKeys[i] /\ KeyConvOf(files, c.fromCalls[i], 0) \notin (WantedConv(m[2]) \cup {""})} IN
         IF bad = {} THEN ""
         ELSE "fromJson of " \o s.dart \o " reads the map under key " \o c.fromKeys[CHOOSE i \in bad : TRUE] \o " without turning its JSON keys back into the Go key values"

(* ---- unions: dispatch on exactly the Go member names *)
UnionWhy(files, u) ==
    IF ~HasUnion(files, u.dart) THEN "no Dart abstract class for the union " \o u.dart
    ELSE LET d == UnionOf(files, u.dart) IN
         IF {c.tag : c \in Range(d.from)} # {m.tag : m \in Range(u.members)} \/ Len(d.from) # Len(u.members) THEN "fromJson of union " \o u.dart \o " does not dispatch on exactly the Go member names"
         ELSE IF {c.tag : c \in Range(d.to)} # {m.tag : m \in Range(u.members)} \/ Len(d.to) # Len(u.members) THEN "toJson of union " \o u.dart \o " does not write exactly the Go member names"
         ELSE IF \E c \in Range(d.to) : \E m \in Range(u.members) : c.tag = m.tag /\ c.istype # m.dart THEN "toJson of union " \o u.dart \o " tests a member against the wrong class"
         ELSE IF \E c \in Range(d.from) : \E m \in Range(u.members) : c.tag = m.tag /\ m.routine # "" /\ c.routine # m.routine \o "FromJson" THEN "fromJson of union " \o u.dart \o " decodes a member with the routine of another type"
         ELSE IF \E c \in Range(d.to) : \E m \in Range(u.members) : c.tag = m.tag /\ m.routine # "" /\ c.routine # m.routine \o "ToJson" THEN "toJson of union " \o u.dart \o " encodes a member with the routine of another type"
         ELSE ""

(* ---- enums: member <-> value conversion is the identity on the wire *)
NoDup(s) == \A i, j \in 1..Len(s) : i # j => s[i] # s[j]
Count(s, v) == Cardinality({i \in 1..Len(s) : s[i] = v})
IndexValues(n) == {ToString(i - 1) : i \in 1..n}
EnumWhy(files, e) ==
    IF ~HasEnum(files, e.dart) THEN "no Dart enum for " \o e.dart
    ELSE LET d == EnumOf(files, e.dart) IN
         IF Len(d.names) # Len(e.values) THEN "enum " \o e.dart \o " does not list exactly the exported constants"
         ELSE IF ~NoDup(d.names) THEN "enum " \o e.dart \o " lists a member twice"
         ELSE IF d.mode = "table" THEN
                \* one table entry per member, holding the values of the exported constants with their multiplicities
                \* (two constants may share a value: both members are written as that value, which is read back as the first)
                IF Len(d.values) # Len(d.names) \/ Len(d.values) # Len(e.values) \/ \E v \in Range(e.values) \cup Range(d.values) : Count(d.values, v) # Count(e.values, v) THEN "value table of enum " \o e.dart \o " does not make member <-> value conversion the identity"
                ELSE ""
         ELSE IF d.mode = "index" THEN
                IF ~e.ints \/ Range(e.values) # IndexValues(Len(e.values)) \/ ~NoDup(e.values) THEN "enum " \o e.dart \o " converts by position although its exported values are not 0,1,2,..."
                ELSE ""
         ELSE "enum " \o e.dart \o " has no value conversion"

(* ---- linking: Dart scoping over the generated files *)
DefinedAnywhere(files, n) == FilesDefining(files, n) # {}
IsHelper(n) == (Len(n) >= 8 /\ SubSeq(n, Len(n) - 7, Len(n)) = "FromJson") \/ (Len(n) >= 6 /\ SubSeq(n, Len(n) - 5, Len(n)) = "ToJson")
Resolves(files, f, n) ==
    \/ TimesDefined(f, n) = 1
    \/ /\ TimesDefined(f, n) = 0
       /\ Cardinality({imp \in Range(f.imports) : HasFile(files, imp) /\ TimesDefined(files[FileNamed(files, imp)], n) > 0}) = 1
       /\ \A imp \in Range(f.imports) : HasFile(files, imp) => TimesDefined(files[FileNamed(files, imp)], n) <= 1
Unlinked(files, f) == {n \in Range(f.uses) : (DefinedAnywhere(files, n) \/ IsHelper(n)) /\ ~Resolves(files, f, n)}
LinkWhy(files) ==
    IF \E f \in Range(files) : f.name \in Range(f.imports) THEN "a generated file imports itself"
    ELSE IF \E f \in Range(files) : \E imp \in Range(f.imports) : ~HasFile(files, imp) THEN "a generated file imports a file that is not generated"
    ELSE IF \E f \in Range(files) : Unlinked(files, f) # {}
         THEN LET f == CHOOSE x \in Range(files) : Unlinked(files, x) # {} IN
              "file " \o f.name \o " uses " \o (CHOOSE n \in Unlinked(files, f) : TRUE) \o " which is not defined exactly once in it or in a file it imports"
    ELSE ""

(* ---- placement: one file per package *)
Placed(files, rec) == rec.structs \o rec.unions \o rec.enums \o rec.nameds
FileOfType(files, t) == IF Cardinality(FilesDefining(files, t.dart)) = 1 THEN files[CHOOSE i \in FilesDefining(files, t.dart) : TRUE].name ELSE "<none or several>"
PlacementWhy(files, rec) ==
    LET ts == Placed(files, rec) IN
    IF \E i \in 1..Len(ts) : FileOfType(files, ts[i]) = "<none or several>" THEN "a named Go type is not emitted exactly once: " \o ts[CHOOSE i \in 1..Len(ts) : FileOfType(files, ts[i]) = "<none or several>"].dart
    ELSE IF \E i, j \in 1..Len(ts) : ts[i].pkg = ts[j].pkg /\ FileOfType(files, ts[i]) # FileOfType(files, ts[j]) THEN "two types of one package are emitted in different files"
    ELSE IF \E i, j \in 1..Len(ts) : ts[i].pkg # ts[j].pkg /\ FileOfType(files, ts[i]) = FileOfType(files, ts[j]) THEN "types of two packages are emitted in the same file"
    ELSE ""
=============================================================================
