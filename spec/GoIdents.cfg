SPECIFICATION Spec
CONSTANTS
  UnionNames = {"Shape", "Shade", "Thing", "U"}
  MemberNames = {"Circle", "Rect", "Dot"}
INVARIANTS NoDuplicateIdent NoClashWithTypes
