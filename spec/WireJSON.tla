------------------------------ MODULE WireJSON ------------------------------
(* The JSON wire format of Go values, as the properties C02 / C03 / C04 / C15 need it.

   Value trees (printed by the binaries compiled from the synthesised packages; see
   harness/internal/wire/engine):
     [k |-> "struct", type, fields : Seq([go, exp, emb, embstruct, hasjson, tagname, tagopts, omitempty, asstring, gomacro, data, v])]
     [k |-> "union",  iface, nil, dyn, v]        dyn = Go name of the member type held
     [k |-> "slice",  type, nil, elems]    [k |-> "array", type, len, elems]    [k |-> "bytes", type, nil, b64]
     [k |-> "map",    type, nil, entries : Seq([key, kv, v])]     entries sorted by key text, as encoding/json writes them
     [k |-> "int" | "float", type, lit]   [k |-> "bool", v]   [k |-> "string", v]   [k |-> "time", v]
     [k |-> "enum",   type, base \in {"num","str"}, lit]    [k |-> "ptr", nil, v]   [k |-> "hidden", zero]
   Documents (tagged, no null / float):
     [t |-> "obj", kv : Seq(<<key, doc>>)]  [t |-> "arr", el]  [t |-> "str", v]  [t |-> "num", int, lit]
     [t |-> "bool", v]  [t |-> "null"]

   Enc is the document C02 demands: every union-typed component is {"Kind": <Go name of the member>,
   "Data": <the member's own JSON>}, everything else exactly as encoding/json writes it on the
   original struct (keys from the json tag, embedded structs flattened, nil slices and maps null,
   []byte base64, map keys sorted).                                                          *)
EXTENDS Integers, Sequences, FiniteSets, TLC

Null == [t |-> "null"]
Str(s) == [t |-> "str", v |-> s]

FSkipped(f) == \/ (~f.exp /\ ~f.embstruct)
               \/ (f.hasjson /\ f.tagname = "-" /\ f.tagopts = "")
FName(f) == IF f.hasjson /\ f.tagname # "" THEN f.tagname ELSE f.go
FFlatten(f) == f.embstruct /\ ~(f.hasjson /\ f.tagname # "") /\ f.v.k = "struct"

(* the `omitempty` option: false, 0, "", nil pointer / interface, empty array, slice, map *)
IsEmptyValue(tr) ==
    CASE tr.k \in {"int", "float"} -> tr.lit = "0"
      [] tr.k = "enum" -> (tr.base = "num" /\ tr.lit = "0") \/ (tr.base = "str" /\ tr.lit = "")
      [] tr.k = "bool" -> ~tr.v
      [] tr.k = "string" -> tr.v = ""
      [] tr.k = "slice" -> tr.nil \/ tr.elems = <<>>
      [] tr.k = "bytes" -> tr.nil \/ tr.b64 = ""
      [] tr.k = "map" -> tr.nil \/ tr.entries = <<>>
      [] tr.k = "array" -> tr.elems = <<>>
      [] tr.k \in {"ptr", "union"} -> tr.nil
      [] OTHER -> FALSE
(* the `string` option: numbers and booleans are written as JSON strings holding their literal *)
Quotable(tr) == tr.k \in {"int", "float", "bool"} \/ (tr.k = "enum" /\ tr.base = "num")
LitOf(tr) == IF tr.k = "bool" THEN (IF tr.v THEN "true" ELSE "false") ELSE tr.lit

RECURSIVE Enc(_), EncFields(_), EncSeq(_), EncEntries(_)
Enc(tr) ==
    CASE tr.k = "struct" -> [t |-> "obj", kv |-> EncFields(tr.fields)]
      [] tr.k = "union"  -> [t |-> "obj", kv |-> << <<"Kind", Str(tr.dyn)>>, <<"Data", Enc(tr.v)>> >>]
      [] tr.k = "int"    -> [t |-> "num", int |-> TRUE, lit |-> tr.lit]
      [] tr.k = "float"  -> [t |-> "num", int |-> tr.intlit, lit |-> tr.lit]
      [] tr.k = "bool"   -> [t |-> "bool", v |-> tr.v]
      [] tr.k = "string" -> Str(tr.v)
      [] tr.k = "time"   -> Str(tr.v)
      [] tr.k = "enum"   -> IF tr.base = "str" THEN Str(tr.lit) ELSE [t |-> "num", int |-> TRUE, lit |-> tr.lit]
      [] tr.k = "bytes"  -> IF tr.nil THEN Null ELSE Str(tr.b64)
      [] tr.k = "slice"  -> IF tr.nil THEN Null ELSE [t |-> "arr", el |-> EncSeq(tr.elems)]
      [] tr.k = "array"  -> [t |-> "arr", el |-> EncSeq(tr.elems)]
      [] tr.k = "map"    -> IF tr.nil THEN Null ELSE [t |-> "obj", kv |-> EncEntries(tr.entries)]
      [] tr.k = "ptr"    -> IF tr.nil THEN Null ELSE Enc(tr.v)
      [] OTHER           -> [t |-> "unsupported"]
EncSeq(s) == IF s = <<>> THEN <<>> ELSE <<Enc(Head(s))>> \o EncSeq(Tail(s))
EncEntries(es) == IF es = <<>> THEN <<>> ELSE << <<Head(es).key, Enc(Head(es).v)>> >> \o EncEntries(Tail(es))
EncFields(fs) ==
    IF fs = <<>> THEN <<>>
    ELSE LET f == Head(fs) rest == EncFields(Tail(fs)) IN
         IF FSkipped(f) THEN rest
         ELSE IF FFlatten(f) THEN Enc(f.v).kv \o rest
         ELSE IF f.omitempty /\ IsEmptyValue(f.v) THEN rest
         ELSE IF f.asstring /\ Quotable(f.v) THEN << <<FName(f), Str(LitOf(f.v))>> >> \o rest
         ELSE << <<FName(f), Enc(f.v)>> >> \o rest

(* ---- helpers on documents *)
RECURSIVE DocEq(_, _)
(* equality of documents; objects compare as sets of members (key order carries no meaning in JSON),
   and null counts as the empty array / object wherever the value is an empty slice or map (the
   property counts nil and empty as equal) *)
DocEq(a, b) ==
    IF a.t = "obj" /\ b.t = "obj"
    THEN /\ Len(a.kv) = Len(b.kv)
         /\ \A i \in 1..Len(a.kv) : \E j \in 1..Len(b.kv) : a.kv[i][1] = b.kv[j][1] /\ DocEq(a.kv[i][2], b.kv[j][2])
         /\ \A i, j \in 1..Len(a.kv) : i # j => a.kv[i][1] # a.kv[j][1]
    ELSE IF a.t = "arr" /\ b.t = "arr"
    THEN Len(a.el) = Len(b.el) /\ \A i \in 1..Len(a.el) : DocEq(a.el[i], b.el[i])
    ELSE IF a.t = "null" THEN b.t = "null" \/ (b.t = "arr" /\ b.el = <<>>) \/ (b.t = "obj" /\ b.kv = <<>>)
    ELSE IF b.t = "null" THEN (a.t = "arr" /\ a.el = <<>>) \/ (a.t = "obj" /\ a.kv = <<>>)
    ELSE a = b

IsObj(d) == d.t = "obj"
Keys(d) == [i \in 1..Len(d.kv) |-> d.kv[i][1]]
HasKey(d, k) == \E i \in 1..Len(d.kv) : d.kv[i][1] = k
Get(d, k) == d.kv[CHOOSE i \in 1..Len(d.kv) : d.kv[i][1] = k][2]
=============================================================================
