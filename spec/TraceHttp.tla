------------------------------ MODULE TraceHttp ------------------------------
(* Conformance for C13 (verdict style): one line = one synthesised route file (its registrations,
   abstract) + a prefix filter + the endpoint list the real extractor returned (types as Go type
   strings with the package path replaced by PKG).  Exactness: one entry per verb registration in
   source order, equal to HttpApi!ExpectedEndpoints.                                          *)
EXTENDS HttpApi, Json, IOUtils

Trace == ndJsonDeserialize(IOEnv.VERIF_TRACE)
VARIABLE l

Why(rec) ==
    IF rec.outcome # "ok" THEN "extraction did not complete: " \o rec.outcome
    ELSE LET exp == ExpectedEndpoints(rec.regs, rec.prefix) IN
         IF Len(rec.endpoints) # Len(exp) THEN "number of endpoints differs from the number of registered routes (" \o ToString(Len(rec.endpoints)) \o " vs " \o ToString(Len(exp)) \o ")"
         ELSE LET bad == {i \in 1..Len(exp) : ~SameEndpoint(rec.endpoints[i], exp[i])} IN
              IF bad = {} THEN ""
              ELSE LET i == CHOOSE x \in bad : \A y \in bad : x <= y
                       o == rec.endpoints[i] e == exp[i] IN
                   IF o.method # e.method \/ o.url # e.url THEN "entry " \o ToString(i) \o ": verb or folded URL differs (" \o o.method \o " " \o o.url \o " vs " \o e.method \o " " \o e.url \o ")"
                   ELSE IF ~(IF e.name = "Anonymous" THEN HasPrefix(o.name, "Anonymous") ELSE o.name = e.name) THEN "entry " \o ToString(i) \o ": handler name " \o o.name \o ", expected " \o e.name
                   ELSE IF o.input # e.input THEN "entry " \o ToString(i) \o ": bound input type " \o o.input \o ", expected " \o e.input
                   ELSE IF o.ret # e.ret \/ o.blob # e.blob THEN "entry " \o ToString(i) \o ": return type / blob flag " \o o.ret \o ", expected " \o e.ret
                   ELSE IF o.query # e.query THEN "entry " \o ToString(i) \o ": query parameters differ"
                   ELSE IF o.values # e.values \/ o.file # e.file THEN "entry " \o ToString(i) \o ": form values / file differ"
                   ELSE "entry " \o ToString(i) \o ": JSON form field " \o o.json \o " " \o o.jsontype \o ", expected " \o e.json \o " " \o e.jsontype

TraceInit == l = 1 /\ TLCSet(1, <<>>)
Consume == /\ l <= Len(Trace)
           /\ LET w == Why(Trace[l]) IN
                IF w = "" THEN TRUE ELSE TLCSet(1, Append(TLCGet(1), [case |-> Trace[l].case, why |-> w]))
           /\ l' = l + 1
TraceSpec == TraceInit /\ [][Consume]_l
Post == /\ TLCGet("stats").diameter - 1 = Len(Trace)
        /\ ndJsonSerialize(IOEnv.VERIF_OUT, <<[consumed |-> Len(Trace)]>> \o TLCGet(1))
=============================================================================
