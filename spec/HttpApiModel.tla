---------------------------- MODULE HttpApiModel ----------------------------
(* Input universe for C13 / C14: the dimensions of a registration.  TLC walks the whole product,
   checks that the expected contract is well-formed for every registration (total definition,
   query names distinct, a URL for every path form) and exports the dimension value sets; the
   harness composes route files from them.                                                   *)
EXTENDS HttpApi, SequencesExt, Json, IOUtils

VerbDim == Verbs \cup {"Static"}
PathDim == { <<"lit:/string_literal">>, <<"local">>, <<"pkg">>, <<"imported">>, <<"imported", "lit:endpoint">>,
             <<"lit:host", "imported", "lit:x/", "local">>, <<"lit:/with/:param/sub">>, <<"pkg", "pkg">>,
             <<"shadow">>, <<"shadow", "lit:/tail">> }
HandlerDim == {"method", "ptrmethod", "func", "importedfunc", "importedmethod", "literal", "localtwin"}
InputDim == {"none", "int", "struct", "slice", "ptr"}
QueryDim == { <<>>, <<"plain:q1">>, <<"plain:q1", "plain:q-2">>, <<"bool:my-bool">>, <<"int64:my-int", "bool:flag">>,
              <<"generic:param-name">>, <<"plain:a", "generic:id", "int64:n">>, <<"pkggeneric:id-item">>, <<"plain:b", "pkggeneric:other-id">>,
              <<"plain:q", "late:page", "int64:sort">>, <<"late:only">> }
FormDim == { [values |-> <<>>, file |-> "", json |-> "", jsonkind |-> ""], [values |-> <<"value_1">>, file |-> "", json |-> "", jsonkind |-> ""],
             [values |-> <<"v1", "v2">>, file |-> "upload", json |-> "", jsonkind |-> ""], [values |-> <<>>, file |-> "file_2", json |-> "", jsonkind |-> ""],
             [values |-> <<>>, file |-> "", json |-> "json-field", jsonkind |-> "struct"], [values |-> <<"v">>, file |-> "f", json |-> "meta", jsonkind |-> "struct"],
             [values |-> <<>>, file |-> "", json |-> "label", jsonkind |-> "string"], [values |-> <<"w">>, file |-> "", json |-> "note", jsonkind |-> "string"] }
RetDim == {"none", "json", "jsonlit", "pretty", "blob"}
WhereDim == {"stmt", "closure", "block"}    \* where the registration stands: a statement of routes(), inside a function literal handed to a method, inside an if

(* the contract is a product of independent parts: the registration side is varied with a fixed
   body, and the body side with a fixed registration (the full product has 252 000 elements) *)
NoForm == [values |-> <<>>, file |-> "", json |-> "", jsonkind |-> ""]
Regs == [verb : VerbDim, path : PathDim, handler : HandlerDim, input : {"struct"}, query : {<<"plain:q1">>}, form : {NoForm}, ret : {"json"}, where : WhereDim]
        \cup [verb : {"POST"}, path : {<<"pkg">>}, handler : {"method"}, input : InputDim, query : QueryDim, form : FormDim, ret : RetDim, where : {"stmt"}]

VARIABLES reg, done
Init == reg \in Regs /\ done = FALSE
Next == ~done /\ done' = TRUE /\ UNCHANGED reg
Spec == Init /\ [][Next]_<<reg, done>>

E == ExpectedEndpoint(reg, 1)
WellFormed == /\ E.url # ""
              /\ \A i, j \in 1..Len(E.query) : i # j => E.query[i].name # E.query[j].name
              /\ (E.blob => E.ret = "[]byte")
              /\ (E.json # "" <=> E.jsontype # "")

ExportPost == TLCGet("level") >= 0 /\ ndJsonSerialize(IOEnv.VERIF_EXPORT,
    <<[verbs |-> SetToSeq(VerbDim), paths |-> SetToSeq(PathDim), handlers |-> SetToSeq(HandlerDim), inputs |-> SetToSeq(InputDim),
       queries |-> SetToSeq(QueryDim), forms |-> SetToSeq(FormDim), rets |-> SetToSeq(RetDim), wheres |-> SetToSeq(WhereDim)]>>)
=============================================================================
