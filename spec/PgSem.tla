------------------------------- MODULE PgSem -------------------------------
(* C04 — the PostgreSQL semantics the generated JSON validators rely on, as a TLA+ interpreter.

   SQL values:  SqlNull | [k |-> "bool", v] | [k |-> "int", lit] | [k |-> "text", v]
                | [k |-> "jsonb", d]  (d: a tagged document of WireJSON) | [k |-> "error", msg]
   Three-valued logic, NULL propagation of = / != / IN, jsonb_typeof, ->, ->>, #>>'{}', ::int,
   jsonb_array_length, bool_and over jsonb_each / jsonb_array_elements (NULL on an empty set, NULL
   inputs ignored), IF / ELSIF / ELSE, searched CASE (case_not_found without ELSE), RETURN, :=,
   DECLARE with initialiser, RAISE WARNING (no effect), calls between functions of the script
   (non-STRICT: a NULL argument is passed), missing RETURN is an error.
   Assumption (recorded in the evidence): AND / OR evaluate left to right and stop as soon as the
   result is decided, as the executor does for these expressions.
   Expressions and statements are the tagged records produced by harness/internal/proj/plpgsql.go. *)
EXTENDS WireJSON

SqlNull == [k |-> "null"]
B(b) == [k |-> "bool", v |-> b]
Txt(s) == [k |-> "text", v |-> s]
IntV(l) == [k |-> "int", lit |-> l]
Js(d) == [k |-> "jsonb", d |-> d]
Err(m) == [k |-> "error", msg |-> m]
IsErr(v) == v.k = "error"
IsNull(v) == v.k = "null"

Range(s) == {s[i] : i \in 1..Len(s)}

KindName(d) == CASE d.t = "obj" -> "object" [] d.t = "arr" -> "array" [] d.t = "str" -> "string"
                 [] d.t = "num" -> "number" [] d.t = "bool" -> "boolean" [] OTHER -> "null"

(* SQL equality on non-null, non-error values *)
SqlEq(a, b) ==
    IF a.k = "text" /\ b.k = "text" THEN B(a.v = b.v)
    ELSE IF a.k = "int" /\ b.k = "int" THEN B(a.lit = b.lit)
    ELSE IF a.k = "bool" /\ b.k = "bool" THEN B(a.v = b.v)
    ELSE IF a.k = "jsonb" /\ b.k = "jsonb" THEN B(DocEq(a.d, b.d))
    ELSE Err("operator does not exist: " \o a.k \o " = " \o b.k)

And3(a, b) == IF IsErr(a) THEN a ELSE IF a.k = "bool" /\ ~a.v THEN B(FALSE)
              ELSE IF IsErr(b) THEN b ELSE IF b.k = "bool" /\ ~b.v THEN B(FALSE)
              ELSE IF IsNull(a) \/ IsNull(b) THEN SqlNull ELSE B(TRUE)
Not3(a) == IF IsErr(a) \/ IsNull(a) THEN a ELSE B(~a.v)

FuncOf(script, name) == CHOOSE f \in Range(script.funcs) : f.name = name
HasFunc(script, name) == \E f \in Range(script.funcs) : f.name = name

RECURSIVE FirstNonNull(_)
FirstNonNull(vs) == IF vs = <<>> THEN SqlNull
                    ELSE IF IsErr(Head(vs)) THEN Head(vs)
                    ELSE IF IsNull(Head(vs)) THEN FirstNonNull(Tail(vs)) ELSE Head(vs)

RECURSIVE Eval(_, _, _, _), EvalList(_, _, _, _), InList(_, _), BoolAnd(_, _, _, _, _), Exec(_, _, _, _), ExecCase(_, _, _, _), CallFn(_, _, _, _)

(* env: function from variable names to SQL values *)
Lookup(env, n) == IF n \in DOMAIN env THEN env[n] ELSE Err("column or variable does not exist: " \o n)
Bind(env, n, v) == [x \in (DOMAIN env) \cup {n} |-> IF x = n THEN v ELSE env[x]]

Eval(script, e, env, fuel) ==
    CASE e.e = "var"  -> Lookup(env, e.name)
      [] e.e = "str"  -> Txt(e.v)
      [] e.e = "num"  -> IntV(e.v)
      [] e.e = "bool" -> B(e.v)
      [] e.e = "null" -> SqlNull
      [] e.e = "typeof" ->
            LET a == Eval(script, e.a, env, fuel) IN
            IF IsErr(a) \/ IsNull(a) THEN a ELSE IF a.k # "jsonb" THEN Err("jsonb_typeof on " \o a.k) ELSE Txt(KindName(a.d))
      [] e.e = "arrow" ->
            LET a == Eval(script, e.a, env, fuel) IN
            IF IsErr(a) \/ IsNull(a) THEN a ELSE IF a.k # "jsonb" THEN Err("-> on " \o a.k)
            ELSE IF a.d.t = "obj" /\ HasKey(a.d, e.k) THEN Js(Get(a.d, e.k)) ELSE SqlNull
      [] e.e = "arrowtext" ->
            LET a == Eval(script, e.a, env, fuel) IN
            IF IsErr(a) \/ IsNull(a) THEN a ELSE IF a.k # "jsonb" THEN Err("->> on " \o a.k)
            ELSE IF a.d.t = "obj" /\ HasKey(a.d, e.k)
                 THEN LET d == Get(a.d, e.k) IN
                      CASE d.t = "str" -> Txt(d.v) [] d.t = "num" -> Txt(d.lit) [] d.t = "null" -> SqlNull
                        [] d.t = "bool" -> Txt(IF d.v THEN "true" ELSE "false") [] OTHER -> Txt("<json>")
                 ELSE SqlNull
      [] e.e = "pathtext" ->
            LET a == Eval(script, e.a, env, fuel) IN
            IF IsErr(a) \/ IsNull(a) THEN a ELSE IF a.k # "jsonb" THEN Err("#>> on " \o a.k)
            ELSE CASE a.d.t = "str" -> Txt(a.d.v) [] a.d.t = "num" -> Txt(a.d.lit) [] a.d.t = "null" -> SqlNull
                   [] a.d.t = "bool" -> Txt(IF a.d.v THEN "true" ELSE "false") [] OTHER -> Txt("<json>")
      [] e.e = "cast" ->
            LET a == Eval(script, e.a, env, fuel) IN
            IF IsErr(a) \/ IsNull(a) THEN a
            ELSE IF e.ty \in {"int", "integer", "int4", "bigint", "smallint"}
                 THEN IF a.k = "jsonb" THEN (IF a.d.t = "num" /\ a.d.int THEN IntV(a.d.lit) ELSE Err("cannot cast jsonb " \o KindName(a.d) \o " to type integer"))
                      ELSE IF a.k = "int" THEN a ELSE Err("unsupported cast to integer from " \o a.k)
                 ELSE Err("unsupported cast to " \o e.ty)
      [] e.e = "arrlen" ->
            LET a == Eval(script, e.a, env, fuel) IN
            IF IsErr(a) \/ IsNull(a) THEN a
            ELSE IF a.k = "jsonb" /\ a.d.t = "arr" THEN IntV(ToString(Len(a.d.el))) ELSE Err("cannot get array length of a non-array")
      [] e.e = "eq" ->
            LET a == Eval(script, e.a, env, fuel) IN IF IsErr(a) THEN a ELSE
            LET b == Eval(script, e.b, env, fuel) IN IF IsErr(b) THEN b ELSE
            IF IsNull(a) \/ IsNull(b) THEN SqlNull ELSE SqlEq(a, b)
      [] e.e = "neq" ->
            LET a == Eval(script, e.a, env, fuel) IN IF IsErr(a) THEN a ELSE
            LET b == Eval(script, e.b, env, fuel) IN IF IsErr(b) THEN b ELSE
            IF IsNull(a) \/ IsNull(b) THEN SqlNull ELSE Not3(SqlEq(a, b))
      [] e.e = "isnull" ->
            LET a == Eval(script, e.a, env, fuel) IN IF IsErr(a) THEN a ELSE B(IsNull(a) # e.neg)
      [] e.e = "and" ->
            LET a == Eval(script, e.a, env, fuel) IN
            IF IsErr(a) THEN a ELSE IF a.k = "bool" /\ ~a.v THEN B(FALSE)           \* decided: stop
            ELSE IF a.k \notin {"bool", "null"} THEN Err("argument of AND must be boolean")
            ELSE LET b == Eval(script, e.b, env, fuel) IN
                 IF IsErr(b) THEN b ELSE IF b.k \notin {"bool", "null"} THEN Err("argument of AND must be boolean") ELSE And3(a, b)
      [] e.e = "or" ->
            LET a == Eval(script, e.a, env, fuel) IN
            IF IsErr(a) THEN a ELSE IF a.k = "bool" /\ a.v THEN B(TRUE)
            ELSE IF a.k \notin {"bool", "null"} THEN Err("argument of OR must be boolean")
            ELSE LET b == Eval(script, e.b, env, fuel) IN
                 IF IsErr(b) THEN b ELSE IF b.k \notin {"bool", "null"} THEN Err("argument of OR must be boolean")
                 ELSE Not3(And3(Not3(a), Not3(b)))
      [] e.e = "not" -> LET a == Eval(script, e.a, env, fuel) IN
                        IF a.k \notin {"bool", "null", "error"} THEN Err("argument of NOT must be boolean") ELSE Not3(a)
      [] e.e = "in" ->
            LET a == Eval(script, e.a, env, fuel) IN
            IF IsErr(a) THEN a
            ELSE LET vs == EvalList(script, e.list, env, fuel) IN
                 IF \E i \in 1..Len(vs) : IsErr(vs[i]) THEN vs[CHOOSE i \in 1..Len(vs) : IsErr(vs[i])]
                 ELSE IF IsNull(a) THEN SqlNull ELSE InList(a, vs)
      [] e.e = "booland" ->
            LET of == Eval(script, e.of, env, fuel) IN
            IF IsErr(of) THEN of
            ELSE IF IsNull(of) THEN SqlNull                                       \* strict set-returning function: no row
            ELSE IF of.k # "jsonb" THEN Err("set returning function on " \o of.k)
            ELSE IF e.src = "each" THEN (IF of.d.t # "obj" THEN Err("cannot call jsonb_each on a non-object")
                                         ELSE BoolAnd(script, e, env, fuel, [i \in 1..Len(of.d.kv) |-> [key |-> Txt(of.d.kv[i][1]), value |-> Js(of.d.kv[i][2])]]))
            ELSE IF of.d.t # "arr" THEN Err("cannot extract elements from a non-array")
            ELSE BoolAnd(script, e, env, fuel, [i \in 1..Len(of.d.el) |-> [key |-> SqlNull, value |-> Js(of.d.el[i])]])
      [] e.e = "coalesce" ->   \* the first argument that is not NULL (arguments evaluated eagerly: an error anywhere is reported)
            FirstNonNull([i \in 1..Len(e.args) |-> Eval(script, e.args[i], env, fuel)])
      [] e.e = "call" ->
            IF ~HasFunc(script, e.fn) THEN Err("function " \o e.fn \o " does not exist")
            ELSE IF Len(e.args) # 1 THEN Err("wrong number of arguments for " \o e.fn)
            ELSE LET a == Eval(script, e.args[1], env, fuel) IN
                 IF IsErr(a) THEN a ELSE CallFn(script, e.fn, a, fuel)
      [] OTHER -> Err("unsupported expression")

EvalList(script, es, env, fuel) == [i \in 1..Len(es) |-> Eval(script, es[i], env, fuel)]

InList(a, vs) ==
    IF vs = <<>> THEN B(FALSE)
    ELSE LET h == IF IsNull(Head(vs)) THEN SqlNull ELSE SqlEq(a, Head(vs)) IN
         IF IsErr(h) THEN h ELSE IF h.k = "bool" /\ h.v THEN B(TRUE)
         ELSE LET r == InList(a, Tail(vs)) IN
              IF IsErr(r) THEN r ELSE IF r.k = "bool" /\ r.v THEN B(TRUE)
              ELSE IF IsNull(h) \/ IsNull(r) THEN SqlNull ELSE B(FALSE)

(* bool_and / bool_or over the rows: NULL inputs are ignored, NULL when no non-null input *)
BoolAnd(script, e, env, fuel, rows) ==
    IF rows = <<>> THEN SqlNull
    ELSE LET r == Head(rows)
             v == Eval(script, e.body, Bind(Bind(env, "key", r.key), "value", r.value), fuel)
             rest == BoolAnd(script, e, env, fuel, Tail(rows)) IN
         IF IsErr(v) THEN v ELSE IF IsErr(rest) THEN rest
         ELSE IF v.k \notin {"bool", "null"} THEN Err("bool_and on a non-boolean")
         ELSE IF IsNull(v) THEN rest
         ELSE IF IsNull(rest) THEN v
         ELSE IF e.agg = "or" THEN B(v.v \/ rest.v)        \* bool_or
         ELSE B(v.v /\ rest.v)

(* statement execution: [done, ret, env] *)
Cont(env) == [done |-> FALSE, ret |-> SqlNull, env |-> env]
Done(v, env) == [done |-> TRUE, ret |-> v, env |-> env]

Exec(script, stmts, env, fuel) ==
    IF stmts = <<>> THEN Cont(env)
    ELSE LET s == Head(stmts) rest == Tail(stmts) IN
      CASE s.s \in {"declare", "assign"} ->
              LET v == Eval(script, s.e, env, fuel) IN
              IF IsErr(v) THEN Done(v, env) ELSE Exec(script, rest, Bind(env, s.var, v), fuel)
        [] s.s = "raise" -> Exec(script, rest, env, fuel)
        [] s.s = "return" -> Done(Eval(script, s.e, env, fuel), env)
        [] s.s = "if" ->
              LET c == Eval(script, s.cond, env, fuel) IN
              IF IsErr(c) THEN Done(c, env)
              ELSE IF c.k \notin {"bool", "null"} THEN Done(Err("argument of IF must be boolean"), env)
              ELSE LET r == Exec(script, IF c.k = "bool" /\ c.v THEN s.then ELSE s.else, env, fuel) IN
                   IF r.done THEN r ELSE Exec(script, rest, r.env, fuel)
        [] s.s = "case" ->
              LET r == ExecCase(script, s, env, fuel) IN
              IF r.done THEN r ELSE Exec(script, rest, r.env, fuel)
        [] OTHER -> Done(Err("unsupported statement"), env)

ExecCase(script, s, env, fuel) ==
    IF s.whens = <<>>
    THEN IF s.haselse THEN Exec(script, s.else, env, fuel) ELSE Done(Err("case not found"), env)
    ELSE LET w == Head(s.whens)
             c == Eval(script, w.cond, env, fuel) IN
         IF IsErr(c) THEN Done(c, env)
         ELSE IF c.k = "bool" /\ c.v THEN Exec(script, w.body, env, fuel)
         ELSE ExecCase(script, [s EXCEPT !.whens = Tail(s.whens)], env, fuel)

CallFn(script, name, arg, fuel) ==
    IF fuel = 0 THEN Err("harness: recursion fuel exhausted")
    ELSE LET f == FuncOf(script, name)
             r == Exec(script, f.body, [x \in {f.param} |-> arg], fuel - 1) IN
         IF r.done THEN r.ret ELSE Err("control reached end of function without RETURN")

(* the CHECK constraint `CHECK (fn(col))` on a row whose column holds the document d:
   "pass" (not false: TRUE or NULL), "false", or "error" *)
CheckOutcome(script, fn, d) ==
    LET v == CallFn(script, fn, Js(d), 40) IN
    IF IsErr(v) THEN "error: " \o v.msg ELSE IF v.k = "bool" /\ ~v.v THEN "false" ELSE "pass"

RECURSIVE CallsInExpr(_), CallsInStmts(_)
CallsInExpr(e) ==
    CASE e.e = "call" -> {e.fn} \cup UNION {CallsInExpr(e.args[i]) : i \in 1..Len(e.args)}
      [] e.e \in {"typeof", "arrow", "arrowtext", "pathtext", "cast", "arrlen", "not", "isnull"} -> CallsInExpr(e.a)
      [] e.e \in {"eq", "neq", "and", "or"} -> CallsInExpr(e.a) \cup CallsInExpr(e.b)
      [] e.e = "in" -> CallsInExpr(e.a) \cup UNION {CallsInExpr(e.list[i]) : i \in 1..Len(e.list)}
      [] e.e = "booland" -> CallsInExpr(e.body) \cup CallsInExpr(e.of)
      [] OTHER -> {}
CallsInStmts(ss) ==
    UNION {LET s == ss[i] IN
           CASE s.s \in {"declare", "assign", "return"} -> CallsInExpr(s.e)
             [] s.s = "if" -> CallsInExpr(s.cond) \cup CallsInStmts(s.then) \cup CallsInStmts(s.else)
             [] s.s = "case" -> UNION {CallsInExpr(s.whens[j].cond) \cup CallsInStmts(s.whens[j].body) : j \in 1..Len(s.whens)} \cup CallsInStmts(s.else)
             [] OTHER -> {}
           : i \in 1..Len(ss)}
(* every validation function called by a function body or a CHECK constraint is defined in the script *)
UndefinedCalls(script) ==
    {n \in UNION {CallsInStmts(script.funcs[i].body) : i \in 1..Len(script.funcs)} \cup {script.checks[i].fn : i \in 1..Len(script.checks)}
        : ~HasFunc(script, n)}
=============================================================================
