------------------------------ MODULE CrudDef ------------------------------
(* C05: the "obvious map model" of the CRUD functions gomacro generates, as pure operators.

   A database is a function  table name -> sequence of rows (insertion order is irrelevant, results
   are compared as bags);  a row is [id |-> Int, c |-> sequence of canonical column values]
   (id = 0 in link tables, "NULL" is the SQL null).  A table description (meta) is
       [go, primary, cols (field names), fks : Seq([field, ref, ondelete, nullable]), uniques : Seq(Seq(field))]
   which the harness derives from the abstract model file, NOT from the generated code.

   Constraints are the ones the generated schema declares: serial ids, UNIQUE sets (a NULL never
   collides), foreign keys with ON DELETE CASCADE / SET NULL / NO ACTION (checked at the end of the
   statement, as PostgreSQL does).  A statement that fails leaves the database unchanged.        *)
EXTENDS Integers, Sequences, FiniteSets, TLC, SequencesExt

Null == "NULL"

Tbl(meta, name) == meta[CHOOSE i \in 1..Len(meta) : meta[i].go = name]
Idx(t, field) == CHOOSE i \in 1..Len(t.cols) : t.cols[i] = field
Val(t, row, field) == row.c[Idx(t, field)]
IdStr(n) == ToString(n)

KeepIdx(seq, keep) == LET F[i \in 0..Len(seq)] == IF i = 0 THEN <<>> ELSE IF i \in keep THEN Append(F[i - 1], seq[i]) ELSE F[i - 1] IN F[Len(seq)]

BagOf(seq) == LET R == {seq[i] : i \in 1..Len(seq)} IN [r \in R |-> Cardinality({i \in 1..Len(seq) : seq[i] = r})]
SameBag(a, b) == Len(a) = Len(b) /\ BagOf(a) = BagOf(b)

(* ---- constraints ---- *)
\* positions of the rows of t colliding with row r on some UNIQUE set (self = position of r itself, 0 if new)
UniqueOK(t, rows, r, self) ==
    \A u \in 1..Len(t.uniques) : \A i \in 1..Len(rows) :
        i # self => \E f \in 1..Len(t.uniques[u]) :
            LET a == Val(t, r, t.uniques[u][f])  b == Val(t, rows[i], t.uniques[u][f]) IN a = Null \/ b = Null \/ a # b

FKOK(db, t, r) ==
    \A k \in 1..Len(t.fks) : LET v == Val(t, r, t.fks[k].field) IN
        v = Null \/ \E i \in 1..Len(db[t.fks[k].ref]) : IdStr(db[t.fks[k].ref][i].id) = v

Integrity(meta, db) == \A n \in 1..Len(meta) : \A i \in 1..Len(db[meta[n].go]) : FKOK(db, meta[n], db[meta[n].go][i])
AllUnique(meta, db) == \A n \in 1..Len(meta) : \A i \in 1..Len(db[meta[n].go]) : UniqueOK(meta[n], db[meta[n].go], db[meta[n].go][i], i)

\* classes of errors a write of r may legitimately produce ({} = the call is legal)
WriteErrors(db, t, r, self) ==
    (IF UniqueOK(t, db[t.go], r, self) THEN {} ELSE {"unique"}) \cup (IF FKOK(db, t, r) THEN {} ELSE {"fk"})

(* ---- deletion with referential actions ---- *)
Pairs(meta, target) ==   \* (table, fk) pairs referencing target, in a fixed order
    LET P == {<<n, k>> \in (1..Len(meta)) \X (1..20) : k <= Len(meta[n].fks) /\ meta[n].fks[k].ref = target} IN SetToSeq(P)

SetNull(t, row, field) == [row EXCEPT !.c = [j \in 1..Len(row.c) |-> IF j = Idx(t, field) THEN Null ELSE row.c[j]]]

RECURSIVE Cascade(_, _, _, _, _)
\* removes the rows of primary table tn whose id is in ids, applying CASCADE and SET NULL (depth bounded)
Cascade(meta, db, tn, ids, depth) ==
    IF ids = {} \/ depth > 8 THEN db ELSE
    LET pairs == Pairs(meta, tn)
        Step[j \in 0..Len(pairs)] ==
            IF j = 0 THEN db ELSE
            LET cur == Step[j - 1]
                t == meta[pairs[j][1]]
                fk == t.fks[pairs[j][2]]
                hit == {i \in 1..Len(cur[t.go]) : \E id \in ids : Val(t, cur[t.go][i], fk.field) = IdStr(id)}
            IN IF hit = {} THEN cur
               ELSE IF fk.ondelete = "CASCADE" THEN
                        IF t.primary THEN Cascade(meta, cur, t.go, {cur[t.go][i].id : i \in hit}, depth + 1)
                        ELSE [cur EXCEPT ![t.go] = KeepIdx(@, (1..Len(@)) \ hit)]
               ELSE IF fk.ondelete = "SET NULL" THEN
                        [cur EXCEPT ![t.go] = [i \in 1..Len(@) |-> IF i \in hit THEN SetNull(t, @[i], fk.field) ELSE @[i]]]
               ELSE cur   \* NO ACTION: checked at the end of the statement
        after == Step[Len(pairs)]
    IN [after EXCEPT ![tn] = KeepIdx(@, {i \in 1..Len(@) : @[i].id \notin ids})]

\* a foreign key column that is NOT NULL (a plain int64 field) cannot be SET NULL: the statement fails
NotNullOK(meta, db) == \A n \in 1..Len(meta) : \A k \in 1..Len(meta[n].fks) :
    meta[n].fks[k].nullable \/ \A i \in 1..Len(db[meta[n].go]) : Val(meta[n], db[meta[n].go][i], meta[n].fks[k].field) # Null

\* DELETE of the rows at positions pos of table t (primary or link): [ok, db, errs = acceptable error classes]
DeleteAt(meta, db, t, pos) ==
    LET d == IF t.primary THEN Cascade(meta, db, t.go, {db[t.go][i].id : i \in pos}, 0)
             ELSE [db EXCEPT ![t.go] = KeepIdx(@, (1..Len(@)) \ pos)]
        errs == (IF Integrity(meta, d) THEN {} ELSE {"fk"}) \cup (IF NotNullOK(meta, d) THEN {} ELSE {"notnull"})
    IN IF errs = {} THEN [ok |-> TRUE, db |-> d, errs |-> {}] ELSE [ok |-> FALSE, db |-> db, errs |-> errs]

(* ---- matching ---- *)
\* rows of t whose field equals one of the canonical values (a NULL never matches)
PosByField(db, t, field, vals) == {i \in 1..Len(db[t.go]) : Val(t, db[t.go][i], field) # Null /\ Val(t, db[t.go][i], field) \in vals}
PosByFields(db, t, fields, vals) ==
    {i \in 1..Len(db[t.go]) : \A f \in 1..Len(fields) : vals[f] # Null /\ Val(t, db[t.go][i], fields[f]) = vals[f]}
\* link tables: Delete(item) compares every foreign key, NULL matching NULL
PosByLinkKeys(db, t, row) ==
    {i \in 1..Len(db[t.go]) : \A k \in 1..Len(t.fks) : Val(t, db[t.go][i], t.fks[k].field) = Val(t, row, t.fks[k].field)}
PosByIds(db, t, ids) == {i \in 1..Len(db[t.go]) : db[t.go][i].id \in ids}
RowsAt(db, t, pos) == KeepIdx(db[t.go], pos)
IdsStr(ids) == {IdStr(ids[i]) : i \in 1..Len(ids)}
=============================================================================
