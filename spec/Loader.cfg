SPECIFICATION Spec
CONSTANTS
  Names = {"foo", "foobar", "foo-x", "a"}
  MaxDepth = 2
  MaxFiles = 3
INVARIANTS RootIsCommonAncestor RootIsExistingDir RootIsDeepest PackagesInOrder ExportInv
POSTCONDITION ExportPost
