SPECIFICATION Spec
CONSTANTS
  Names = {"foo", "foobar", "foo1", "a"}
  MaxDepth = 2
  MaxFiles = 3
INVARIANTS RootIsCommonAncestor RootIsExistingDir RootIsDeepest PackagesInOrder ExportInv
POSTCONDITION ExportPost
