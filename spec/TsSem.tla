------------------------------- MODULE TsSem -------------------------------
(* C03 — structural semantics of the TypeScript declarations gomacro emits.

   env : sequence of declarations (harness/internal/tsparse):
         [d |-> "type", name, type]   [d |-> "interface", name, props]   [d |-> "const", name, entries]
         (labels, imports and classes are ignored here)
   types: [t |-> "ref", name] | [t |-> "prim", name] | [t |-> "lit", kind, v] | [t |-> "array", elems = <<T>>]
          | [t |-> "tuple", elems] | [t |-> "object", props] | [t |-> "union", elems] | [t |-> "inter", elems]
          | [t |-> "record", elems = <<K, V>>] | [t |-> "valueof", name]   ((typeof X)[keyof typeof X])
   Inhabits(env, doc, ty): the JSON document is a structural inhabitant of the type — same property
   names (none missing, none extra), primitive kinds, null only where the type admits it, tuple
   lengths, literal sets, Kind/Data shapes.  Reading choices (DESIGN.md §4 C03): a branded type
   (base & {__opaque__: ...}) is inhabited by its base; Record<K,V> demands every key in K's key
   space and every value in V, not all keys of K.                                            *)
EXTENDS WireJSON

Range(s) == {s[i] : i \in 1..Len(s)}

TypeDecls(env, n) == {i \in 1..Len(env) : env[i].d \in {"type", "interface"} /\ env[i].name = n}
ConstDecls(env, n) == {i \in 1..Len(env) : env[i].d = "const" /\ env[i].name = n}
TypeDecl(env, n) == env[CHOOSE i \in TypeDecls(env, n) : TRUE]
ConstDecl(env, n) == env[CHOOSE i \in ConstDecls(env, n) : TRUE]

RECURSIVE Mentions(_)
(* names a type mentions: <<"type", n>> or <<"const", n>> *)
Mentions(ty) ==
    CASE ty.t = "ref" -> {<<"type", ty.name>>}
      [] ty.t = "valueof" -> {<<"const", ty.name>>}
      [] ty.t = "typeof" -> {<<"const", ty.name>>}
      [] ty.t = "object" -> UNION {Mentions(ty.props[i].type) : i \in 1..Len(ty.props)}
      [] ty.t \in {"array", "tuple", "union", "inter", "record", "generic"} -> UNION {Mentions(ty.elems[i]) : i \in 1..Len(ty.elems)}
      [] OTHER -> {}
DeclMentions(d) ==
    CASE d.d = "type" -> Mentions(d.type)
      [] d.d = "interface" -> UNION {Mentions(d.props[i].type) : i \in 1..Len(d.props)}
      [] OTHER -> {}
AllMentions(env) == UNION {DeclMentions(env[i]) : i \in 1..Len(env)}

(* every mentioned name is declared exactly once, and no name is declared twice *)
Undeclared(env) == {m \in AllMentions(env) : IF m[1] = "type" THEN TypeDecls(env, m[2]) = {} ELSE ConstDecls(env, m[2]) = {}}
DeclaredTwice(env) == {env[i].name : i \in {j \in 1..Len(env) :
                          \/ (env[j].d \in {"type", "interface"} /\ Cardinality(TypeDecls(env, env[j].name)) > 1)
                          \/ (env[j].d = "const" /\ Cardinality(ConstDecls(env, env[j].name)) > 1)}}
WellFormedEnv(env) == Undeclared(env) = {} /\ DeclaredTwice(env) = {}

IsBrand(ty) == ty.t = "object" /\ ty.props # <<>> /\ \A i \in 1..Len(ty.props) : ty.props[i].name = "__opaque__"

RECURSIVE KeyText(_, _)
(* the set of key texts a type used as Record key admits; {} stands for "any key" *)
KeyIn(env, k, ty) ==
    CASE ty.t = "prim" -> ty.name \in {"string", "number"}
      [] ty.t = "valueof" -> (ConstDecls(env, ty.name) # {}) /\ \E e \in Range(ConstDecl(env, ty.name).entries) : e.v = k
      [] ty.t = "lit" -> ty.v = k
      [] OTHER -> KeyText(env, ty) = {} \/ k \in KeyText(env, ty)
KeyText(env, ty) ==
    CASE ty.t = "ref" -> IF TypeDecls(env, ty.name) = {} THEN {"<undeclared>"}
                         ELSE LET d == TypeDecl(env, ty.name) IN
                              IF d.d # "type" THEN {"<not a key type>"}
                              ELSE IF d.type.t = "valueof" /\ ConstDecls(env, d.type.name) # {}
                                   THEN {e.v : e \in Range(ConstDecl(env, d.type.name).entries)}
                              ELSE KeyText(env, d.type)
      [] ty.t = "inter" -> KeyText(env, ty.elems[1])
      [] ty.t = "union" -> UNION {KeyText(env, ty.elems[i]) : i \in 1..Len(ty.elems)}
      [] ty.t = "lit" -> {ty.v}
      [] OTHER -> {}      \* string, number: any key text

RECURSIVE Inhabits(_, _, _)
Inhabits(env, doc, ty) ==
    CASE ty.t = "prim" ->
            CASE ty.name = "string" -> doc.t = "str"
              [] ty.name = "number" -> doc.t = "num"
              [] ty.name = "boolean" -> doc.t = "bool"
              [] ty.name = "null" -> doc.t = "null"
              [] ty.name \in {"unknown", "any"} -> TRUE
              [] OTHER -> FALSE
      [] ty.t = "lit" ->
            CASE ty.kind = "str" -> doc.t = "str" /\ doc.v = ty.v
              [] ty.kind = "num" -> doc.t = "num" /\ doc.lit = ty.v
              [] ty.kind = "bool" -> doc.t = "bool" /\ doc.v = (ty.v = "true")
              [] OTHER -> FALSE
      [] ty.t = "ref" ->
            /\ TypeDecls(env, ty.name) # {}
            /\ LET d == TypeDecl(env, ty.name) IN
                 IF d.d = "type" THEN Inhabits(env, doc, d.type)
                 ELSE Inhabits(env, doc, [t |-> "object", props |-> d.props])
      [] ty.t = "valueof" ->
            /\ ConstDecls(env, ty.name) # {}
            /\ \E e \in Range(ConstDecl(env, ty.name).entries) :
                  \/ (e.kind = "str" /\ doc.t = "str" /\ doc.v = e.v)
                  \/ (e.kind = "num" /\ doc.t = "num" /\ doc.lit = e.v)
                  \/ (e.kind = "bool" /\ doc.t = "bool" /\ doc.v = (e.v = "true"))
      [] ty.t = "array" -> doc.t = "arr" /\ \A i \in 1..Len(doc.el) : Inhabits(env, doc.el[i], ty.elems[1])
      [] ty.t = "tuple" -> doc.t = "arr" /\ Len(doc.el) = Len(ty.elems) /\ \A i \in 1..Len(doc.el) : Inhabits(env, doc.el[i], ty.elems[i])
      [] ty.t = "object" ->
            /\ doc.t = "obj"
            /\ {doc.kv[i][1] : i \in 1..Len(doc.kv)} = {ty.props[i].name : i \in 1..Len(ty.props)}      \* none missing, none extra
            /\ \A i, j \in 1..Len(doc.kv) : i # j => doc.kv[i][1] # doc.kv[j][1]
            /\ \A i \in 1..Len(doc.kv) : \A p \in Range(ty.props) : p.name = doc.kv[i][1] => Inhabits(env, doc.kv[i][2], p.type)
      [] ty.t = "union" -> \E i \in 1..Len(ty.elems) : Inhabits(env, doc, ty.elems[i])
      [] ty.t = "inter" -> \A i \in 1..Len(ty.elems) : IsBrand(ty.elems[i]) \/ Inhabits(env, doc, ty.elems[i])
      [] ty.t = "record" ->
            IF ty.elems[2].t = "prim" /\ ty.elems[2].name = "never" THEN doc.t = "obj" /\ doc.kv = <<>>       \* Record<string, never>: the empty object
            ELSE /\ doc.t = "obj"
                 /\ \A i \in 1..Len(doc.kv) : KeyIn(env, doc.kv[i][1], ty.elems[1]) /\ Inhabits(env, doc.kv[i][2], ty.elems[2])
      [] OTHER -> FALSE
=============================================================================
