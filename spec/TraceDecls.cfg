SPECIFICATION TraceSpec
POSTCONDITION Post
