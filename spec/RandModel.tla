------------------------------ MODULE RandModel ------------------------------
(* C15, design level — the generated rand<T>() functions as a recursive process over the type graph
   of a program (the two-type universe of AnalysisModel: structs and named types over
   {int, N, []N, [2]N, map[string]N}).

   randdata emits one function per type; the function of a struct calls the function of every
   field, that of a slice / array / map the function of its element (and key), that of a named type
   the function of its underlying type.  Nothing cuts a cycle of the type graph: the analysis
   terminates on `type N struct{ Kids []N }` because it registers incomplete nodes, the generated
   code has no such device.  TLC establishes exactly that:
       Overflows => ReachesCycle       the call stack only grows without bound for a type from which
                                       a cycle of the type graph is reachable (the recorded finding),
       ~ReachesCycle ~> returned       every other rand function returns.                        *)
EXTENDS AnalysisModel

VARIABLES root, rstack, overflow
rvars == <<mvars, root, rstack, overflow>>

Succ(id) == {g[id].children[i] : i \in 1..Len(g[id].children)}
RECURSIVE Closure(_, _)
Closure(frontier, seen) == IF frontier \subseteq seen THEN seen
                           ELSE Closure(UNION {Succ(x) : x \in frontier \ seen}, seen \cup frontier)
OnCycle(id) == id \in Closure(Succ(id), {})
ReachesCycle(id) == \E x \in Closure({id}, {}) : OnCycle(x)

RInit == /\ prog \in {p \in Progs : Valid(p)}
         /\ g = GraphOf(prog)
         /\ roots = <<>> /\ todo = <<>> /\ memo = {} /\ stack = <<>> /\ last = [ev |-> "rand", id |-> ""]
         /\ root \in Names
         /\ rstack = <<[id |-> root, next |-> 1]>>
         /\ overflow = FALSE

RTop == rstack[Len(rstack)]
Bound == 2 * Cardinality(DOMAIN g) + 2

RCall == /\ rstack # <<>> /\ ~overflow /\ RTop.next <= Len(g[RTop.id].children)
         /\ LET c == g[RTop.id].children[RTop.next] IN
              rstack' = Append([rstack EXCEPT ![Len(rstack)].next = @ + 1], [id |-> c, next |-> 1])
         /\ overflow' = (Len(rstack) + 1 > Bound)
         /\ UNCHANGED <<mvars, root>>

RReturn == /\ rstack # <<>> /\ ~overflow /\ RTop.next > Len(g[RTop.id].children)
           /\ rstack' = SubSeq(rstack, 1, Len(rstack) - 1)
           /\ UNCHANGED <<mvars, root, overflow>>

RNext == RCall \/ RReturn
RSpec == RInit /\ [][RNext]_rvars /\ WF_rvars(RNext)

OverflowOnlyOnCycles == overflow => ReachesCycle(root)
AcyclicReturns == (~ReachesCycle(root)) ~> (rstack = <<>>)
CyclicNeverReturns == [](ReachesCycle(root) => rstack # <<>>)
=============================================================================
