------------------------------ MODULE Pipeline ------------------------------
(* The call site of generator.Formatters in the command line tool (cmd/gomacro.go, saveOutputs):

       for each output i (in order):  WriteFile(out_i);  print "Code written to ...";
                                       go func() { err := fmts.FormatFile(format_i, out_i); if err != nil { panic }; wg.Done() }()
       print "Waiting for formatters...";  wg.Wait();  (back in main)  print "Done."

   Composition of the main goroutine with one goroutine per output, each performing exactly one
   request of the Formatters specification (module Formatters, instantiated with Procs = outputs).
   A formatter failure panics inside the goroutine: the process dies, "Done." is never printed.   *)
EXTENDS Naturals, Sequences, FiniteSets, TLC

CONSTANTS NOut,      \* number of output files
          Tools,     \* formatter families in use
          FormatOf   \* [1..NOut -> Tools]

Procs == 1..NOut
MaxReq == 1

VARIABLES avail, pc, req, nreq, lock, has, probes, runs, ret, touched
F == INSTANCE Formatters

VARIABLES phase,    \* "saving" | "waiting" | "done" | "crashed"
          written   \* outputs written so far (a prefix of 1..NOut)
fvars == <<avail, pc, req, nreq, lock, has, probes, runs, ret, touched>>
vars == <<fvars, phase, written>>

Init == /\ F!Init /\ req = [p \in Procs |-> FormatOf[p]]
        /\ phase = "saving" /\ written = {}

Alive == phase \in {"saving", "waiting"}

\* main: write output i and start its goroutine
Write(i) == /\ phase = "saving" /\ i = Cardinality(written) + 1 /\ i <= NOut
            /\ written' = written \cup {i}
            /\ UNCHANGED <<fvars, phase>>

WaitStart == /\ phase = "saving" /\ written = Procs
             /\ phase' = "waiting" /\ UNCHANGED <<fvars, written>>

\* goroutine p: its single FormatFile request, only once started by main
GCall(p) == Alive /\ p \in written /\ F!Call(p, FormatOf[p]) /\ UNCHANGED <<phase, written>>
GStep(p) == /\ Alive
            /\ \/ F!AcquireProbe(p) \/ F!ProbeEnd(p) \/ F!AcquireHit(p) \/ F!Release(p) \/ F!RunStart(p) \/ F!RunEnd(p)
            /\ UNCHANGED <<phase, written>>
\* FormatFile returned nil: wg.Done()
GReturn(p) == Alive /\ pc[p] = "toreturn" /\ ret[p] = "nil" /\ F!Return(p) /\ UNCHANGED <<phase, written>>
\* FormatFile returned an error: panic, the process dies
GPanic(p) == /\ Alive /\ pc[p] = "toreturn" /\ ret[p] = "err"
             /\ phase' = "crashed" /\ UNCHANGED <<fvars, written>>

Finish == /\ phase = "waiting" /\ \A p \in Procs : pc[p] = "done"
          /\ phase' = "done" /\ UNCHANGED <<fvars, written>>

Next == \/ \E i \in Procs : Write(i)
        \/ WaitStart \/ Finish
        \/ \E p \in Procs : GCall(p) \/ GStep(p) \/ GReturn(p) \/ GPanic(p)

Fairness == /\ WF_vars(\E i \in Procs : Write(i)) /\ WF_vars(WaitStart) /\ WF_vars(Finish)
            /\ \A p \in Procs : WF_vars(GCall(p)) /\ WF_vars(GStep(p)) /\ WF_vars(GReturn(p)) /\ WF_vars(GPanic(p))
Spec == Init /\ [][Next]_vars /\ Fairness

-----------------------------------------------------------------------------
\* a file is never handed to a formatter before it is on disk
FormatAfterWrite == \A p \in Procs : pc[p] # "idle" => p \in written
\* "Done." is only printed when every output went through its formatter successfully (or has none)
DoneMeansAllFormatted ==
    phase = "done" => \A p \in Procs : /\ pc[p] = "done" /\ ret[p] = "nil"
                                       /\ (touched[p] <=> avail[FormatOf[p]] = "ok")
                                       /\ runs[p] = (IF avail[FormatOf[p]] = "missing" THEN 0 ELSE 1)
\* a failing formatter is never silently ignored
NoDoneAfterFailure == phase = "done" => \A p \in Procs : avail[FormatOf[p]] # "runfail"
CrashOnlyOnFailure == phase = "crashed" => \E p \in Procs : avail[FormatOf[p]] = "runfail"
\* the cache is shared by all goroutines of the run
ProbeAtMostOnce == F!ProbeAtMostOnce
Mutex == F!MutualExclusion /\ F!AccessUnderLock
CacheTruthful == F!CacheTruthful

Terminates == <>(phase \in {"done", "crashed"})
DoneIfNoFailure == (\A p \in Procs : avail[FormatOf[p]] # "runfail") => <>(phase = "done")
=============================================================================
