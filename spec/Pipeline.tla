------------------------------ MODULE Pipeline ------------------------------
(* The call site of generator.Formatters in the command line tool (cmd/gomacro.go, saveOutputs):

       for each output i (in order):  WriteFile(out_i);  print "Code written to ...";
                                       go func() { err := fmts.FormatFile(format_i, out_i); if err != nil { panic }; wg.Done() }()
       print "Waiting for formatters...";  wg.Wait();  (back in main)  print "Done."

   Composition of the main goroutine with one goroutine per output, each performing exactly one
   request of the Formatters specification (module Formatters, instantiated with Procs = the
   possible outputs).  A formatter failure panics inside the goroutine: the process dies and
   "Done." is never printed.  n (number of outputs of the run) and fmtOf (their formats) are
   variables fixed by Init, so that one trace specification can replay runs of any shape.       *)
EXTENDS Naturals, Sequences, FiniteSets, TLC

CONSTANTS MaxOut,    \* bound on the number of output files
          Tools      \* formatter families

Procs == 1..MaxOut
MaxReq == 1

VARIABLES avail, pc, req, nreq, lock, has, probes, runs, ret, touched
F == INSTANCE Formatters

VARIABLES phase,    \* "saving" | "waiting" | "done" | "crashed"
          written,  \* outputs written so far (a prefix of 1..n)
          n,        \* outputs of this run
          fmtOf     \* [Procs -> Tools]
fvars == <<avail, pc, req, nreq, lock, has, probes, runs, ret, touched>>
vars == <<fvars, phase, written, n, fmtOf>>

Outs == 1..n

Init == /\ F!Init
        /\ n \in 0..MaxOut /\ fmtOf \in [Procs -> Tools]
        /\ phase = "saving" /\ written = {}

Alive == phase \in {"saving", "waiting"}

\* main: write output i and start its goroutine
Write(i) == /\ phase = "saving" /\ i = Cardinality(written) + 1 /\ i <= n
            /\ written' = written \cup {i}
            /\ UNCHANGED <<fvars, phase, n, fmtOf>>

WaitStart == /\ phase = "saving" /\ written = Outs
             /\ phase' = "waiting" /\ UNCHANGED <<fvars, written, n, fmtOf>>

\* goroutine p: its single FormatFile request, only once started by main
GCall(p) == Alive /\ p \in written /\ F!Call(p, fmtOf[p]) /\ UNCHANGED <<phase, written, n, fmtOf>>
GStep(p) == /\ Alive
            /\ \/ F!AcquireProbe(p) \/ F!ProbeEnd(p) \/ F!AcquireHit(p) \/ F!Release(p) \/ F!RunStart(p) \/ F!RunEnd(p)
            /\ UNCHANGED <<phase, written, n, fmtOf>>
\* FormatFile returned nil: wg.Done()
GReturn(p) == Alive /\ pc[p] = "toreturn" /\ ret[p] = "nil" /\ F!Return(p) /\ UNCHANGED <<phase, written, n, fmtOf>>
\* FormatFile returned an error: panic, the process dies
GPanic(p) == /\ Alive /\ pc[p] = "toreturn" /\ ret[p] = "err"
             /\ phase' = "crashed" /\ UNCHANGED <<fvars, written, n, fmtOf>>

Finish == /\ phase = "waiting" /\ \A p \in Outs : pc[p] = "done"
          /\ phase' = "done" /\ UNCHANGED <<fvars, written, n, fmtOf>>

Next == \/ \E i \in Procs : Write(i)
        \/ WaitStart \/ Finish
        \/ \E p \in Procs : GCall(p) \/ GStep(p) \/ GReturn(p) \/ GPanic(p)

Fairness == /\ WF_vars(\E i \in Procs : Write(i)) /\ WF_vars(WaitStart) /\ WF_vars(Finish)
            /\ \A p \in Procs : WF_vars(GCall(p)) /\ WF_vars(GStep(p)) /\ WF_vars(GReturn(p)) /\ WF_vars(GPanic(p))
Spec == Init /\ [][Next]_vars /\ Fairness

-----------------------------------------------------------------------------
\* a file is never handed to a formatter before it is on disk; nothing is formatted that is not an output
FormatAfterWrite == \A p \in Procs : pc[p] # "idle" => p \in written /\ p \in Outs
\* "Done." is only printed when every output went through its formatter successfully (or has none)
DoneMeansAllFormatted ==
    phase = "done" => \A p \in Outs : /\ pc[p] = "done" /\ ret[p] = "nil" /\ req[p] = fmtOf[p]
                                      /\ (touched[p] <=> avail[fmtOf[p]] = "ok")
                                      /\ runs[p] = (IF avail[fmtOf[p]] = "missing" THEN 0 ELSE 1)
\* a failing formatter is never silently ignored
NoDoneAfterFailure == phase = "done" => \A p \in Outs : avail[fmtOf[p]] # "runfail"
CrashOnlyOnFailure == phase = "crashed" => \E p \in Outs : avail[fmtOf[p]] = "runfail"
\* the cache is shared by all goroutines of the run
ProbeAtMostOnce == F!ProbeAtMostOnce
Mutex == F!MutualExclusion /\ F!AccessUnderLock
CacheTruthful == F!CacheTruthful
\* only the formatters of formats actually written are ever probed
ProbeOnlyNeeded == \A t \in Tools : probes[t] > 0 => \E p \in written : fmtOf[p] = t

Terminates == <>(phase \in {"done", "crashed"})
DoneIfNoFailure == (\A p \in Procs : avail[fmtOf[p]] # "runfail") ~> (phase = "done")
=============================================================================
