SPECIFICATION Spec
CONSTANTS
  MaxComments = 1
INVARIANTS AllExpanded QueriesNumbered ExportInv
POSTCONDITION ExportPost
