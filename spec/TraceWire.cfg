SPECIFICATION TraceSpec
POSTCONDITION Post
