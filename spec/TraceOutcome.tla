---------------------------- MODULE TraceOutcome ----------------------------
(* Conformance for C18 (verdict style): one line = one synthesised well-typed package, with the
   outcome class of the real analysis and of each real generator run in isolation:
      ok       the phase completed
      diag     the phase stopped with a panic carrying a string or a non-runtime error (gomacro's
               way of refusing input)
      runtime  panic carrying a runtime.Error (index out of range, nil dereference, failed type assertion)
      fatal    the process died (stack overflow: unbounded recursion)
      timeout  the phase did not finish                                                       *)
EXTENDS Naturals, Sequences, FiniteSets, TLC, Json, IOUtils

Trace == ndJsonDeserialize(IOEnv.VERIF_TRACE)
VARIABLE l

Range(s) == {s[i] : i \in 1..Len(s)}
ClassOf(c) == IF c = "diag" THEN "refuse" ELSE c
NoCrash(rec) == \A o \in Range(rec.outcomes) : ClassOf(o.class) \in {"ok", "refuse"}

Crashes(rec) == SelectSeq(rec.outcomes, LAMBDA o : ClassOf(o.class) \notin {"ok", "refuse"})
Drift(rec) == IF rec.expect = "" \/ rec.outcomes = <<>> THEN ""
              ELSE IF ClassOf(rec.outcomes[1].class) \in {"ok", "refuse"} /\ ClassOf(rec.outcomes[1].class) # rec.expect
                   THEN "analysis: model expects " \o rec.expect \o ", code says " \o rec.outcomes[1].class
              ELSE ""

CaseVerdicts(rec) ==
    LET cr == Crashes(rec) IN
    [i \in 1..Len(cr) |-> [case |-> rec.case, phase |-> cr[i].phase, class |-> cr[i].class, why |-> cr[i].msg, drift |-> ""]]
    \o (IF Drift(rec) = "" THEN <<>> ELSE <<[case |-> rec.case, phase |-> "", class |-> "", why |-> "", drift |-> Drift(rec)]>>)

TraceInit == l = 1 /\ TLCSet(1, <<>>)
Consume == /\ l <= Len(Trace)
           /\ LET v == CaseVerdicts(Trace[l]) IN IF v = <<>> THEN TRUE ELSE TLCSet(1, TLCGet(1) \o v)
           /\ l' = l + 1
TraceSpec == TraceInit /\ [][Consume]_l
Post == /\ TLCGet("stats").diameter - 1 = Len(Trace)
        /\ ndJsonSerialize(IOEnv.VERIF_OUT, <<[consumed |-> Len(Trace)]>> \o TLCGet(1))
=============================================================================
