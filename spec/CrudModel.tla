----------------------------- MODULE CrudModel -----------------------------
(* Design-level check of the map model of C05 on a small schema: whatever sequence of generated-CRUD
   style operations is applied, referential integrity and the UNIQUE sets are preserved, ids are
   never reused, and a failing statement changes nothing.  The schema has a target table A, a table
   B referencing A (ON DELETE action = constant OD) with UNIQUE(fk)-or-not, a table C referencing B
   (NO ACTION) and a link table L referencing A (CASCADE) and B (nullable, SET NULL).           *)
EXTENDS CrudDef

CONSTANTS OD, MaxRows, UniqB, NV, NullB

Meta == <<
  [go |-> "A", primary |-> TRUE, cols |-> <<"V">>, fks |-> <<>>, uniques |-> <<>>],
  [go |-> "B", primary |-> TRUE, cols |-> <<"IdA", "W">>, fks |-> << [field |-> "IdA", ref |-> "A", ondelete |-> OD, nullable |-> NullB] >>,
     uniques |-> IF UniqB THEN << <<"IdA">> >> ELSE << <<"IdA", "W">> >>],
  [go |-> "C", primary |-> TRUE, cols |-> <<"IdB">>, fks |-> << [field |-> "IdB", ref |-> "B", ondelete |-> "", nullable |-> FALSE] >>, uniques |-> <<>>],
  [go |-> "L", primary |-> FALSE, cols |-> <<"IdA", "IdB">>,
     fks |-> << [field |-> "IdA", ref |-> "A", ondelete |-> "CASCADE", nullable |-> FALSE], [field |-> "IdB", ref |-> "B", ondelete |-> "SET NULL", nullable |-> TRUE] >>, uniques |-> <<>>] >>
Names == {"A", "B", "C", "L"}
IdVals == {Null} \cup {IdStr(i) : i \in 1..MaxRows}
\* NullB: B's foreign key is a nullable wrapper (may hold NULL, can be SET NULL) or a plain int64 (NOT NULL)
RowsOf(n) == CASE n = "A" -> {<<v>> : v \in {"s:x", "s:y"} \cap (IF NV = 1 THEN {"s:x"} ELSE {"s:x", "s:y"})}
               [] n = "B" -> {<<a, w>> : a \in IF NullB THEN IdVals ELSE IdVals \ {Null}, w \in IF NV = 1 THEN {"1"} ELSE {"1", "2"}}
               [] n = "C" -> {<<b>> : b \in IdVals \ {Null}}
               [] n = "L" -> {<<a, b>> : a \in IdVals \ {Null}, b \in IdVals}

VARIABLES db, next, last
vars == <<db, next, last>>

Init == db = [n \in Names |-> <<>>] /\ next = [n \in Names |-> 1] /\ last = "init"

Insert(n, c) ==
    LET t == Tbl(Meta, n)
        r == [id |-> IF t.primary THEN next[n] ELSE 0, c |-> c] IN
    /\ Len(db[n]) < MaxRows /\ next[n] <= MaxRows
    /\ IF WriteErrors(db, t, r, 0) = {} THEN db' = [db EXCEPT ![n] = Append(@, r)] /\ last' = "insert ok"
       ELSE UNCHANGED db /\ last' = "insert refused"
    /\ next' = IF t.primary /\ WriteErrors(db, t, r, 0) = {} THEN [next EXCEPT ![n] = @ + 1] ELSE next

Update(n, i, c) ==
    LET t == Tbl(Meta, n) r == [id |-> db[n][i].id, c |-> c] IN
    /\ t.primary /\ i \in 1..Len(db[n])
    /\ IF WriteErrors(db, t, r, i) = {} THEN db' = [db EXCEPT ![n][i] = r] /\ last' = "update ok"
       ELSE UNCHANGED db /\ last' = "update refused"
    /\ UNCHANGED next

Delete(n, pos) ==
    LET t == Tbl(Meta, n) res == DeleteAt(Meta, db, t, pos) IN
    /\ pos \subseteq 1..Len(db[n]) /\ pos # {}
    /\ db' = res.db /\ last' = IF res.ok THEN "delete ok" ELSE "delete refused"
    /\ UNCHANGED next

Next == \/ \E n \in Names : \E c \in RowsOf(n) : Insert(n, c)
        \/ \E n \in Names : \E i \in 1..MaxRows : \E c \in RowsOf(n) : Update(n, i, c)
        \/ \E n \in Names : \E pos \in SUBSET (1..MaxRows) : Delete(n, pos)
Spec == Init /\ [][Next]_vars

IntegrityInv == Integrity(Meta, db) /\ NotNullOK(Meta, db)
UniqueInv == AllUnique(Meta, db)
IdsInv == \A n \in Names : \A i, j \in 1..Len(db[n]) :
             /\ (Tbl(Meta, n).primary => db[n][i].id < next[n] /\ db[n][i].id >= 1)
             /\ (Tbl(Meta, n).primary /\ i # j => db[n][i].id # db[n][j].id)
\* a refused statement changes nothing; a delete never grows a table; ids are never reused
Atomic == [][ (last' \in {"insert refused", "update refused", "delete refused"} => db' = db)
              /\ (\A n \in Names : next'[n] >= next[n]) ]_vars
DeleteShrinks == [][ last' = "delete ok" => \A n \in Names : Len(db'[n]) <= Len(db[n]) ]_vars
\* reachability witnesses (checked to be violated => the model is not vacuous): see CrudModel_witness.cfg
NoCascadeSeen == ~(last = "delete ok" /\ Len(db["A"]) = 0 /\ next["A"] > 1 /\ next["B"] > 1 /\ Len(db["B"]) = 0 /\ OD = "CASCADE")
NoRefusalSeen == last # "delete refused"
View == <<db, next>>
=============================================================================
