SPECIFICATION Spec
CONSTANTS
  MaxComments = 2
INVARIANTS AllExpanded QueriesNumbered ExportInv
POSTCONDITION ExportPost
