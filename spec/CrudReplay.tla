----------------------------- MODULE CrudReplay -----------------------------
(* Spec -> code direction of C05.  CrudModel is extended with a history of the operations taken,
   each with the abstract state it leads to.  `tlc -simulate` walks random behaviours of the
   model; every behaviour of the requested length is exported, and the harness steps the REAL
   generated CRUD functions (compiled for a model file that declares exactly the tables of
   CrudModel!Meta) through it: Insert -> <T>.Insert, Update -> <T>.Update, Delete on a table
   with ids -> Delete<T>sByIDs (one statement for the whole set), Delete on the link table ->
   <L>.Delete (all rows carrying the same keys).  After each step every table is read back with
   SelectAll; TraceCrud judges the recorded calls, and the harness compares outcome (ok /
   refused) and table sizes with what this module predicted.                                  *)
EXTENDS CrudModel, Json, IOUtils

CONSTANT Steps          \* length of the exported behaviours

VARIABLES hist, want, wantT
rvars == <<vars, hist, want, wantT>>

KindSeq == <<"insert", "insert", "insert", "insert", "update", "delete", "unlink", "delkey">>   \* inserts weigh more: tables must fill up before the rest is interesting
Kinds == 1..Len(KindSeq)
Sizes(d) == [n \in Names |-> Len(d[n])]
IdsAt(n, pos) == LET s == SetToSeq(pos) IN [k \in 1..Len(s) |-> db[n][s[k]].id]

Rec(op, n, c, id, ids) == [op |-> op, t |-> n, c |-> c, id |-> id, ids |-> ids, last |-> last', sizes |-> Sizes(db')]

RInit == Init /\ hist = <<>> /\ want \in Kinds /\ wantT \in Names

\* foreign keys of an argument row point to an id that exists, existed, or is the very next one (a dangling key):
\* far-away ids add nothing and would make most walks a sequence of refused inserts
Near(n, c) == \A k \in 1..Len(Tbl(Meta, n).fks) :
                 LET fk == Tbl(Meta, n).fks[k]  v == c[Idx(Tbl(Meta, n), fk.field)] IN
                 v = Null \/ \E i \in 1..MaxRows : IdStr(i) = v /\ i <= next[fk.ref]

RInsert(n, c) == Near(n, c) /\ Insert(n, c) /\ hist' = Append(hist, Rec("insert", n, c, IF Tbl(Meta, n).primary THEN next[n] ELSE 0, <<>>))
RUpdate(n, i, c) == Near(n, c) /\ Update(n, i, c) /\ hist' = Append(hist, Rec("update", n, c, db[n][i].id, <<>>))
\* tables with ids: any non-empty set of live rows, in one statement
RDeleteIds(n, pos) == Tbl(Meta, n).primary /\ Delete(n, pos) /\ hist' = Append(hist, Rec("delete", n, <<>>, 0, IdsAt(n, pos)))
\* the link table: the generated Delete removes every row carrying the keys of the item
RDeleteLink(n, i) == /\ ~Tbl(Meta, n).primary /\ i \in 1..Len(db[n])
                     /\ Delete(n, {j \in 1..Len(db[n]) : db[n][j].c = db[n][i].c})
                     /\ hist' = Append(hist, Rec("unlink", n, db[n][i].c, 0, <<>>))

\* by-foreign-key deletion (Delete<T>sBy<Key>s): every row whose key is among the given ids of the target table, in one
\* statement; no such row: the call succeeds and changes nothing
RDeleteByKey(n, k, S) ==
    LET t == Tbl(Meta, n)  fk == t.fks[k]
        pos == {i \in 1..Len(db[n]) : \E id \in S : Val(t, db[n][i], fk.field) = IdStr(id)} IN
    /\ k \in 1..Len(t.fks) /\ S # {} /\ \A id \in S : id <= next[fk.ref]
    /\ IF pos = {} THEN UNCHANGED <<db, next>> /\ last' = "delete ok" ELSE Delete(n, pos)
    /\ hist' = Append(hist, Rec("delkey", n, <<fk.field>>, 0, SetToSeq(S)))

\* the simulator draws uniformly among successor states: the kind of the step is drawn one step ahead (want), so
\* that the four kinds are equally likely whatever the number of argument rows each has
Can(k) == CASE k = "insert" -> \E n \in Names : Len(db[n]) < MaxRows /\ next[n] <= MaxRows
            [] k = "update" -> \E n \in Names : Tbl(Meta, n).primary /\ db[n] # <<>>
            [] k = "delete" -> \E n \in Names : Tbl(Meta, n).primary /\ db[n] # <<>>
            [] k = "delkey" -> \E n \in Names : Tbl(Meta, n).fks # <<>> /\ db[n] # <<>>
            [] OTHER -> \E n \in Names : ~Tbl(Meta, n).primary /\ db[n] # <<>>
Pick(k) == KindSeq[want] = k \/ ~Can(KindSeq[want])
\* (likewise the table of an insert: the link table has many more argument rows than the others, most of them refused)
Room(n) == Len(db[n]) < MaxRows /\ next[n] <= MaxRows
PickT(n) == wantT = n \/ ~Room(wantT)
RNext == /\ Len(hist) < Steps
         /\ want' = RandomElement(Kinds) /\ wantT' = RandomElement(Names)   \* (one draw per successor: \in would multiply the successors by 24)
         /\ \/ Pick("insert") /\ \E n \in Names : PickT(n) /\ \E c \in RowsOf(n) : RInsert(n, c)
            \/ Pick("update") /\ \E n \in Names : \E i \in 1..MaxRows : \E c \in RowsOf(n) : RUpdate(n, i, c)
            \/ Pick("delete") /\ \E n \in Names : \E pos \in SUBSET (1..MaxRows) : RDeleteIds(n, pos)
            \/ Pick("unlink") /\ \E n \in Names : \E i \in 1..MaxRows : RDeleteLink(n, i)
            \/ Pick("delkey") /\ \E n \in Names : \E k \in 1..2 : \E S \in SUBSET (1..MaxRows) : db[n] # <<>> /\ RDeleteByKey(n, k, S)
\* (the simulator evaluates invariants on every successor it generates: the closing step has a single successor,
\*  so that exactly the behaviour that was walked is exported)
RFinish == Len(hist) = Steps /\ last # "done" /\ last' = "done" /\ UNCHANGED <<db, next, hist, want, wantT>>
RSpec == RInit /\ [][RNext \/ RFinish]_rvars

ASSUME TLCSet(1, <<>>)
ExportInv == last = "done" => TLCSet(1, Append(TLCGet(1), [steps |-> hist]))
ExportPost == ndJsonSerialize(IOEnv.VERIF_EXPORT, TLCGet(1))
=============================================================================
