------------------------------ MODULE TraceAxios ------------------------------
(* Conformance for C14.  Per synthesised route file: one "client" line (the parsed generated file:
   its type declarations, the methods of the class with their parameter types, syntax verdicts of
   the TypeScript parser and of Node on the stripped JavaScript), then one "call" line per method
   invocation made under Node against a recording stand-in for axios.                         *)
EXTENDS AxiosSem, TsSem, Json, IOUtils

Trace == ndJsonDeserialize(IOEnv.VERIF_TRACE)
VARIABLE l

One(S) == CHOOSE x \in S : TRUE
Report(rec, why) == TLCSet(1, Append(TLCGet(1), [case |-> rec.case, why |-> why]))

ParamMentions(rec) == UNION {UNION {Mentions(rec.methods[i].params[j].type) : j \in 1..Len(rec.methods[i].params)} : i \in 1..Len(rec.methods)}
UndeclaredInSignatures(rec) == {m \in ParamMentions(rec) : m[2] \notin {"File", "Blob"} /\
                                   (IF m[1] = "type" THEN TypeDecls(rec.decls, m[2]) = {} ELSE ConstDecls(rec.decls, m[2]) = {})}

ClientWhy(rec) ==
    IF rec.outcome # "ok" THEN "client generation did not complete: " \o rec.outcome
    ELSE IF rec.syntax # "" THEN "generated client is not syntactically valid: " \o rec.syntax
    ELSE IF [i \in 1..Len(rec.methods) |-> rec.methods[i].name] # [i \in 1..Len(rec.endpoints) |-> rec.endpoints[i].name]
         THEN "the client does not have one method per endpoint, named after its handler, in order"
    ELSE IF UndeclaredInSignatures(rec) # {} THEN "a method signature mentions a type that is not declared in the file: " \o One(UndeclaredInSignatures(rec))[2]
    ELSE IF Undeclared(rec.decls) # {} THEN "the file mentions an undeclared type: " \o One(Undeclared(rec.decls))[2]
    ELSE IF DeclaredTwice(rec.decls) # {} THEN "the file declares a type twice: " \o One(DeclaredTwice(rec.decls))
    ELSE ""

CallWhy(rec) ==
    LET e == rec.endpoint x == ExpectedCall(e, rec.args) IN
    IF rec.error # "" THEN "calling the method failed: " \o rec.error
    ELSE IF Len(rec.calls) # 1 THEN "the method issued " \o ToString(Len(rec.calls)) \o " requests"
    ELSE IF rec.calls[1].verb # x.verb \/ rec.calls[1].url # x.url THEN "wrong verb or URL: " \o rec.calls[1].verb \o " " \o rec.calls[1].url
    ELSE IF ~SameCall(rec.calls[1], x) THEN "the request does not carry exactly the declared body / form fields / query parameters / response type"
    ELSE IF rec.ret # ExpectedReturn(e) THEN "the method does not return the response payload as specified (data / blob + file name / true)"
    ELSE IF rec.started # 1 \/ rec.handled # 0 THEN "startRequest / handleError not called as expected"
    ELSE ""

TraceInit == l = 1 /\ TLCSet(1, <<>>)
Consume == /\ l <= Len(Trace)
           /\ LET rec == Trace[l]
                  w == IF rec.ev = "client" THEN ClientWhy(rec) ELSE CallWhy(rec) IN
                IF w = "" THEN TRUE ELSE Report(rec, w)
           /\ l' = l + 1
TraceSpec == TraceInit /\ [][Consume]_l
Post == /\ TLCGet("stats").diameter - 1 = Len(Trace)
        /\ ndJsonSerialize(IOEnv.VERIF_OUT, <<[consumed |-> Len(Trace)]>> \o TLCGet(1))
=============================================================================
