----------------------------- MODULE Directives -----------------------------
(* C16 — expansion of the SQL comment directives, on token sequences.

   A comment content is a sequence of tokens (words, punctuation, string literals with their quotes);
   the placeholders are token patterns:   # [ Type . Const ]      $ name $      REFERENCES word
   tables : set of the table-struct names of the file;  enums : Seq([type, names, values]) with values
   as SQL literals (numbers as written, strings single-quoted);  fields : Seq([name, gotype]) of the
   struct carrying the comment.                                                                *)
EXTENDS PgDDL

EnumVal(enums, ty, c) == LET e == CHOOSE x \in Range(enums) : x.type = ty IN e.values[IndexOf(e.names, c)]
KnownEnum(enums, ty, c) == \E x \in Range(enums) : x.type = ty /\ \E i \in 1..Len(x.names) : x.names[i] = c

RECURSIVE ExpandEnums(_, _)
ExpandEnums(toks, enums) ==
    IF toks = <<>> THEN <<>>
    ELSE IF Len(toks) >= 6 /\ toks[1] = "#" /\ toks[2] = "[" /\ toks[4] = "." /\ toks[6] = "]" /\ KnownEnum(enums, toks[3], toks[5])
         THEN <<EnumVal(enums, toks[3], toks[5])>> \o ExpandEnums(SubSeq(toks, 7, Len(toks)), enums)
    ELSE <<Head(toks)>> \o ExpandEnums(Tail(toks), enums)

RECURSIVE ReplaceRefs(_)
ReplaceRefs(toks) ==
    IF toks = <<>> THEN <<>>
    ELSE IF Len(toks) >= 2 /\ toks[1] = "REFERENCES" THEN <<"REFERENCES", TableName(toks[2])>> \o ReplaceRefs(SubSeq(toks, 3, Len(toks)))
    ELSE <<Head(toks)>> \o ReplaceRefs(Tail(toks))

(* whole-word occurrences of table-struct names; nothing else is touched *)
ReplaceTables(toks, tables) == [i \in 1..Len(toks) |-> IF toks[i] \in tables THEN TableName(toks[i]) ELSE toks[i]]

IsSelectKey(toks) == \E i \in 1..(Len(toks) - 1) : toks[i] = "_SELECT" /\ toks[i + 1] = "KEY"

(* the statement a custom constraint becomes (without the final semicolon) *)
ExpandConstraint(toks, owner, tables, enums) ==
    LET body == ExpandEnums(ReplaceTables(ReplaceRefs(toks), tables), enums) IN
    IF Head(toks) = "ADD" THEN <<"ALTER", "TABLE", TableName(owner)>> \o body ELSE body

ExpectedStatements(comments, owner, tables, enums) ==
    LET kept == SelectSeq(comments, LAMBDA c : ~IsSelectKey(c)) IN
    [i \in 1..Len(kept) |-> ExpandConstraint(kept[i], owner, tables, enums)]

(* ---- guard fields (tag gomacro-sql-guard:"<value>"): a default and an equality CHECK on the value, in which only
   the #[Type.Const] placeholders are expanded - the value is a literal, no word of it is a table name *)
ExpectedGuardStatements(guards, owner, enums) ==
    LET one(g) == << <<"ALTER", "TABLE", TableName(owner), "ALTER", "COLUMN", g.field, "SET", "DEFAULT">> \o ExpandEnums(g.value, enums),
                     <<"ALTER", "TABLE", TableName(owner), "ADD", "CHECK", "(", g.field, "=">> \o ExpandEnums(g.value, enums) \o <<")">> >>
        RECURSIVE all(_)
        all(gs) == IF gs = <<>> THEN <<>> ELSE one(Head(gs)) \o all(Tail(gs)) IN
    all(guards)

(* ---- custom queries:  Name  <sql with $name$ placeholders> *)
RECURSIVE PlaceholderNames(_, _)
(* distinct $name$ in order of first occurrence *)
PlaceholderNames(toks, seen) ==
    IF Len(toks) < 3 THEN seen
    ELSE IF toks[1] = "$" /\ toks[3] = "$"
         THEN PlaceholderNames(SubSeq(toks, 4, Len(toks)), IF \E i \in 1..Len(seen) : seen[i] = toks[2] THEN seen ELSE Append(seen, toks[2]))
    ELSE PlaceholderNames(Tail(toks), seen)

RECURSIVE NumberPlaceholders(_, _)
NumberPlaceholders(toks, names) ==
    IF toks = <<>> THEN <<>>
    ELSE IF Len(toks) >= 3 /\ toks[1] = "$" /\ toks[3] = "$" /\ \E i \in 1..Len(names) : names[i] = toks[2]
         THEN <<"$", ToString(IndexOf(names, toks[2]))>> \o NumberPlaceholders(SubSeq(toks, 4, Len(toks)), names)
    ELSE <<Head(toks)>> \o NumberPlaceholders(Tail(toks), names)

(* the struct field a placeholder is compared with:  Field = $name$ (first such comparison) *)
ComparedField(toks, name) ==
    LET pos == {i \in 1..(Len(toks) - 4) : toks[i + 1] = "=" /\ toks[i + 2] = "$" /\ toks[i + 3] = name /\ toks[i + 4] = "$"} IN
    IF pos = {} THEN "" ELSE toks[CHOOSE i \in pos : \A j \in pos : i <= j]
FieldType(fields, f) == IF \E x \in Range(fields) : x.name = f THEN (CHOOSE x \in Range(fields) : x.name = f).gotype ELSE "?"

ExpectedQuery(q, tables, enums, fields) ==
    LET names == PlaceholderNames(q.sql, <<>>) IN
    [name |-> q.name,
     sql |-> ExpandEnums(ReplaceTables(NumberPlaceholders(q.sql, names), tables), enums),
     args |-> [i \in 1..Len(names) |-> [name |-> names[i], gotype |-> FieldType(fields, ComparedField(q.sql, names[i]))]]]
=============================================================================
