SPECIFICATION RSpec
CONSTANTS
  MaxFields = 1
INVARIANT OverflowOnlyOnCycles
PROPERTIES AcyclicReturns CyclicNeverReturns
