SPECIFICATION Spec
INVARIANTS Total JsonIffChecked NullableOnlyWhenDocumented EnumCarriesCheck ExportInv
POSTCONDITION ExportPost
