-------------------------- MODULE DirectivesModel --------------------------
(* Input universe and design-level sanity for C16: comment templates over the structs Item and Order
   of a model file, their assignment to the structs, and the declaration style.  TLC checks that the
   expansion leaves no placeholder behind and never alters a word that is not a table-struct name,
   and exports the cases.                                                                     *)
EXTENDS DirectivesEnv, Json, IOUtils

CONSTANTS MaxComments

RECURSIVE SeqsUpTo(_, _)
SeqsUpTo(S, n) == IF n = 0 THEN {<<>>}
                  ELSE LET shorter == SeqsUpTo(S, n - 1)
                       IN shorter \cup {Append(s, x) : s \in {t \in shorter : Len(t) = n - 1}, x \in S}

VARIABLES itemC, orderC, itemQ, style, done
vars == <<itemC, orderC, itemQ, style, done>>

Init == /\ itemC \in SeqsUpTo(Constraints, MaxComments)
        /\ orderC \in SeqsUpTo(Constraints \ {<<"_SELECT", "KEY", "(", "K", ")">>}, 1)     \* Order has no column K
        /\ itemQ \in SeqsUpTo(Queries, 1)
        /\ style \in {"single", "grouped"}
        /\ done = FALSE
Next == ~done /\ done' = TRUE /\ UNCHANGED <<itemC, orderC, itemQ, style>>
Spec == Init /\ [][Next]_vars

AllExpanded == LET sts == ExpectedStatements(itemC, "Item", Tables, Enums) \o ExpectedStatements(orderC, "Order", Tables, Enums) IN
               \A i \in 1..Len(sts) : \A j \in 1..Len(sts[i]) : sts[i][j] \notin {"#", "_SELECT"} \cup Tables
QueriesNumbered == \A i \in 1..Len(itemQ) :
                      LET q == ExpectedQuery(itemQ[i], Tables, Enums, Fields) IN
                      /\ \A j \in 1..Len(q.args) : q.args[j].gotype # "?"
                      /\ \A j \in 1..(Len(q.sql) - 2) : ~(q.sql[j] = "$" /\ q.sql[j + 2] = "$")

ASSUME TLCSet(1, <<>>)
ExportInv == ~done => TLCSet(1, Append(TLCGet(1), [itemC |-> itemC, orderC |-> orderC, itemQ |-> itemQ, style |-> style]))
ExportPost == ndJsonSerialize(IOEnv.VERIF_EXPORT, TLCGet(1))
=============================================================================
