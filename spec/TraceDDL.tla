------------------------------ MODULE TraceDDL ------------------------------
(* Conformance for C08 (verdict style): one line = one model file: env and tables (abstract, as
   rendered to Go by the harness) + the descriptors parsed from the real SQL output
   (harness/internal/proj/ddl.go).  Equality is at descriptor level: spelling, case of keywords,
   white space and statement order are free.                                                 *)
EXTENDS PgDDL, Json, IOUtils

Trace == ndJsonDeserialize(IOEnv.VERIF_TRACE)
VARIABLE l

ObsTables(rec, name) == {i \in 1..Len(rec.schema.tables) : rec.schema.tables[i].name = name}

CheckEq(rec, tname, col, obs, exp) ==
    CASE exp.k = "none" -> obs.k = "none"
      [] exp.k = "in" -> obs.k = "in" /\ Range(obs.vals) = Range(exp.vals) /\ Len(obs.vals) = Len(exp.vals)    \* exactly the constant values, in any order
      [] exp.k = "arraylen" -> obs.k = "arraylen" /\ obs.n = exp.n
      [] exp.k = "json" -> /\ obs.k = "none"
                           /\ Cardinality({i \in 1..Len(rec.schema.jsonchecks) : rec.schema.jsonchecks[i].table = tname /\ rec.schema.jsonchecks[i].col = col}) = 1
                           /\ \A j \in Range(rec.schema.jsonchecks) : (j.table = tname /\ j.col = col) => j.fn \in Range(rec.schema.functions)
      [] OTHER -> FALSE

ColWhy(rec, tname, obs, exp) ==
    IF obs.name # exp.name THEN "column " \o exp.name \o " expected, found " \o obs.name
    ELSE IF obs.type # exp.type THEN "column " \o exp.name \o ": type " \o obs.type \o ", expected " \o exp.type
    ELSE IF obs.primary # exp.primary THEN "column " \o exp.name \o ": primary key flag"
    ELSE IF obs.notnull # exp.notnull THEN "column " \o exp.name \o ": NOT NULL is " \o (IF obs.notnull THEN "present" ELSE "missing")
    ELSE IF ~CheckEq(rec, tname, exp.name, obs.check, exp.check) THEN "column " \o exp.name \o ": CHECK differs (" \o exp.check.k \o " expected)"
    ELSE ""

TableWhy(rec, t) ==
    LET exp == ExpectedTable(rec.env, t) IN
    IF Cardinality(ObsTables(rec, exp.name)) # 1 THEN "table " \o exp.name \o " is created " \o ToString(Cardinality(ObsTables(rec, exp.name))) \o " times"
    ELSE LET obs == rec.schema.tables[CHOOSE i \in ObsTables(rec, exp.name) : TRUE] IN
         IF Len(obs.cols) # Len(exp.cols) THEN "table " \o exp.name \o ": " \o ToString(Len(obs.cols)) \o " columns, expected " \o ToString(Len(exp.cols))
         ELSE LET bad == {i \in 1..Len(exp.cols) : ColWhy(rec, exp.name, obs.cols[i], exp.cols[i]) # ""} IN
              IF bad = {} THEN "" ELSE "table " \o exp.name \o ": " \o ColWhy(rec, exp.name, obs.cols[CHOOSE i \in bad : \A j \in bad : i <= j], exp.cols[CHOOSE i \in bad : \A j \in bad : i <= j])

AllFKs(rec) == UNION {ExpectedFKs(rec.env, rec.tables[i]) : i \in 1..Len(rec.tables)}
ObsFKs(rec) == {[table |-> f.table, col |-> f.col, ref |-> f.ref, ondelete |-> f.ondelete] : f \in Range(rec.schema.fks)}
AllGuards(rec) == UNION {ExpectedGuards(rec.env, rec.tables[i]) : i \in 1..Len(rec.tables)}
ObsDefaults(rec) == {[table |-> d.table, col |-> d.col, value |-> d.value] : d \in Range(rec.schema.defaults)}
GuardChecks(rec) == {[table |-> g.table, text |-> g.col \o " = " \o g.value] : g \in AllGuards(rec)}
ObsChecks(rec) == {[table |-> c.table, text |-> c.text] : c \in Range(rec.schema.checks)}
AllComposites(rec) == UNION {ExpectedComposites(rec.env, rec.tables[i]) : i \in 1..Len(rec.tables)}

Why(rec) ==
    IF rec.outcome # "ok" THEN "the SQL generator did not complete: " \o rec.outcome
    ELSE IF rec.syntax = "unterminated string" THEN "the SQL script is not lexically valid: a string literal never ends (a quote inside a literal is not doubled)"
    ELSE IF rec.syntax # "" THEN "harness: SQL output not understood: " \o rec.syntax
    ELSE LET bad == {i \in 1..Len(rec.tables) : TableWhy(rec, rec.tables[i]) # ""} IN
    IF bad # {} THEN TableWhy(rec, rec.tables[CHOOSE i \in bad : \A j \in bad : i <= j])
    ELSE IF Len(rec.schema.tables) # Len(rec.tables) THEN "number of tables differs from the number of structs of the file"
    ELSE IF AllFKs(rec) # ObsFKs(rec) \/ Len(rec.schema.fks) # Cardinality(AllFKs(rec)) THEN "foreign key constraints differ from the foreign-key fields (table, column, target, ON DELETE)"
    ELSE IF AllGuards(rec) # ObsDefaults(rec) \/ Len(rec.schema.defaults) # Cardinality(AllGuards(rec)) THEN "guard defaults differ from the guard fields"
    ELSE IF ~(GuardChecks(rec) \subseteq ObsChecks(rec)) THEN "a guard field has no equality CHECK"
    ELSE IF ~(\A c \in AllComposites(rec) : \E k \in Range(rec.schema.composites) : k.name = Decl(rec.env, c).local) THEN "a local composite type is not declared"
    ELSE ""

TraceInit == l = 1 /\ TLCSet(1, <<>>)
Consume == /\ l <= Len(Trace)
           /\ LET w == Why(Trace[l]) IN
                IF w = "" THEN TRUE ELSE TLCSet(1, Append(TLCGet(1), [case |-> Trace[l].case, why |-> w]))
           /\ l' = l + 1
TraceSpec == TraceInit /\ [][Consume]_l
Post == /\ TLCGet("stats").diameter - 1 = Len(Trace)
        /\ ndJsonSerialize(IOEnv.VERIF_OUT, <<[consumed |-> Len(Trace)]>> \o TLCGet(1))
=============================================================================
