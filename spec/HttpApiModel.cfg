SPECIFICATION Spec
INVARIANT WellFormed
POSTCONDITION ExportPost
