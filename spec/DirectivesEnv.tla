---------------------------- MODULE DirectivesEnv ----------------------------
(* The fixed model file of C16: the structs Item and Order, their fields, the enums, and the
   templates of comment directives (shared by DirectivesModel and TraceDirectives).            *)
EXTENDS Directives

Tables == {"Item", "Order"}
Enums == << [type |-> "Kind", names |-> <<"KA", "KB">>, values |-> <<"0", "1">>],
            [type |-> "Color", names |-> <<"Red", "Blue">>, values |-> <<"'red'", "'Order'">>] >>

Constraints == {
    <<"ADD", "UNIQUE", "(", "A", ",", "B", ")">>,
    <<"ADD", "CHECK", "(", "A", ">", "0", ")">>,
    <<"ADD", "CHECK", "(", "K", "=", "#", "[", "Kind", ".", "KB", "]", ")">>,
    <<"ADD", "CHECK", "(", "C", "=", "#", "[", "Color", ".", "Red", "]", "OR", "C", "=", "#", "[", "Color", ".", "Blue", "]", ")">>,
    <<"ADD", "FOREIGN", "KEY", "(", "A", ")", "REFERENCES", "Order", "ON", "DELETE", "CASCADE">>,
    <<"ADD", "FOREIGN", "KEY", "(", "A", ",", "B", ")", "REFERENCES", "Item", "(", "A", ",", "B", ")">>,
    <<"CREATE", "UNIQUE", "INDEX", "idx_Item", "ON", "Item", "(", "B", ")">>,
    <<"ADD", "CHECK", "(", "Items", ">", "MyItem", "+", "item", "+", "Orderly", "+", "fk_Order", "+", "x2Item", ")">>,
    <<"_SELECT", "KEY", "(", "A", ",", "B", ")">>,
    <<"_SELECT", "KEY", "(", "K", ")">>,
    <<"ADD", "CHECK", "(", "B", "<>", "'order'", "AND", "A", "<", "10", ")">> }

Queries == {
    [name |-> "SetA", sql |-> <<"UPDATE", "Item", "SET", "A", "=", "$", "v", "$", "WHERE", "B", "=", "$", "w", "$">>],
    [name |-> "SetTwice", sql |-> <<"UPDATE", "Item", "SET", "A", "=", "$", "x", "$", "WHERE", "B", "=", "$", "y", "$", "OR", "A", "=", "$", "x", "$">>],
    [name |-> "SetAgain", sql |-> <<"UPDATE", "Item", "SET", "A", "=", "$", "x", "$", "WHERE", "A", "=", "$", "x", "$", "OR", "B", "=", "$", "y", "$">>],   \* a name repeated BEFORE a new one appears
    [name |-> "SetKind", sql |-> <<"UPDATE", "Item", "SET", "K", "=", "#", "[", "Kind", ".", "KA", "]", "WHERE", "C", "=", "$", "color", "$", "AND", "K", "=", "$", "old", "$">>] }

Fields == << [name |-> "Id", gotype |-> "int64"], [name |-> "A", gotype |-> "int"], [name |-> "B", gotype |-> "string"],
             [name |-> "K", gotype |-> "Kind"], [name |-> "C", gotype |-> "Color"] >>

=============================================================================
