------------------------------ MODULE MapOrder ------------------------------
(* C07 — generation is deterministic: Go's randomised map iteration order is the scheduler.

   A generator run is modelled as the two things it does with maps:
     RangeTypes    it visits the analysed types in some order and emits one declaration per type
                   (IDs and contents are functions of the type); the declarations are then assembled
                   by WriteDeclarations, which C19 shows to be order-independent (modelled here as
                   "sorted by ID, first occurrence wins");
     RangeImports  the Go generators range over the cache of visited named types to list the import
                   paths of the header: Cache.Imports.  Since the fix recorded in known_findings.json
                   the list is sorted before it is embedded in the header (it used to be in map order).
   Every `range` picks an arbitrary permutation; the property is refinement to an order-free
   definition: the output equals Canonical(types) whatever orders were chosen.                 *)
EXTENDS Naturals, Sequences, FiniteSets, TLC, SequencesExt

CONSTANTS NTypes     \* number of analysed named types

(* type i has declaration ID rank i and lives in the package of rank PkgOf[i] (3 packages) *)
PkgOf == <<3, 1, 2, 3, 1, 2>>
Types == {[id |-> i, pkg |-> PkgOf[i]] : i \in 1..NTypes}

VARIABLES visitOrder, importOrder, decls, header, phase
vars == <<visitOrder, importOrder, decls, header, phase>>

PermsOfSet(S) == {s \in [1..Cardinality(S) -> S] : \A i, j \in 1..Cardinality(S) : i # j => s[i] # s[j]}
SortNat(S) == SortSeq(SetToSeq(S), <)

Init == /\ visitOrder = <<>> /\ importOrder = <<>> /\ decls = <<>> /\ header = <<>> /\ phase = "types"

RangeTypes == /\ phase = "types"
              /\ \E order \in PermsOfSet(Types) :
                    /\ visitOrder' = order
                    /\ decls' = [i \in 1..Len(order) |-> order[i].id]
              /\ phase' = "imports"
              /\ UNCHANGED <<importOrder, header>>

Pkgs == {t.pkg : t \in Types}

RangeImports == /\ phase = "imports"
                /\ \E order \in PermsOfSet(Pkgs) :
                      /\ importOrder' = order
                      /\ header' = SortSeq(order, <)         \* Cache.Imports sorts (fix); before: header' = order
                /\ phase' = "assemble"
                /\ UNCHANGED <<visitOrder, decls>>

Assemble == /\ phase = "assemble"
            /\ decls' = SortNat({decls[i] : i \in 1..Len(decls)})      \* WriteDeclarations (C19)
            /\ phase' = "done"
            /\ UNCHANGED <<visitOrder, importOrder, header>>

Next == RangeTypes \/ RangeImports \/ Assemble
Spec == Init /\ [][Next]_vars

Canonical == [header |-> SortNat(Pkgs), decls |-> SortNat({t.id : t \in Types})]
Deterministic == phase = "done" => [header |-> header, decls |-> decls] = Canonical
=============================================================================
