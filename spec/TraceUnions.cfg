SPECIFICATION TraceSpec
POSTCONDITION Post
