----------------------------- MODULE TraceUnions -----------------------------
(* Conformance for C11 (verdict style): one line = one synthesised package tree with what the real
   analysis reported: per interface (analysed on its own) union / refused and the member list; per
   struct node reachable from the result of analysing the source file, its Implements list.  *)
EXTENDS UnionDef, Json, IOUtils

Trace == ndJsonDeserialize(IOEnv.VERIF_TRACE)
VARIABLE l

IfaceByKey(rec, k) == CHOOSE i \in Range(rec.ifaces) : i.key = k

CaseVerdicts(rec) ==
    IF rec.outcome # "ok" THEN <<[case |-> rec.case, on |-> "", why |-> "analysis of the source file did not complete: " \o rec.outcome \o " " \o rec.msg]>>
    ELSE
    LET badU == SelectSeq(rec.unions, LAMBDA o : UnionVerdict(IfaceByKey(rec, o.iface), rec.types, o) # "")
        analysed == Range(rec.analysed)
        badS == SelectSeq(rec.structs, LAMBDA s : StructVerdict(s, rec.ifaces, rec.types, analysed) # "")
    IN [i \in 1..Len(badU) |-> [case |-> rec.case, on |-> badU[i].iface, why |-> UnionVerdict(IfaceByKey(rec, badU[i].iface), rec.types, badU[i])]]
       \o [i \in 1..Len(badS) |-> [case |-> rec.case, on |-> badS[i].key, why |-> StructVerdict(badS[i], rec.ifaces, rec.types, analysed)]]

TraceInit == l = 1 /\ TLCSet(1, <<>>)
Consume == /\ l <= Len(Trace)
           /\ LET v == CaseVerdicts(Trace[l]) IN IF v = <<>> THEN TRUE ELSE TLCSet(1, TLCGet(1) \o v)
           /\ l' = l + 1
TraceSpec == TraceInit /\ [][Consume]_l
Post == /\ TLCGet("stats").diameter - 1 = Len(Trace)
        /\ ndJsonSerialize(IOEnv.VERIF_OUT, <<[consumed |-> Len(Trace)]>> \o TLCGet(1))
=============================================================================
