----------------------------- MODULE FieldsModel -----------------------------
(* Design-level run for C09: gomacro's field rule (GmKeys) against the rule of the property
   (ExpectedKeys) for every field of the universe below, alone and embedded; exports the universe.
   KnownEmbedded carves out the recorded finding (an embedded struct carrying a json name or "-"
   or gomacro:"ignore" is flattened all the same).                                            *)
EXTENDS FieldsDef, Json, IOUtils

TagNames == {"", "n", "-"}
TagOpts == {"", ",", ",omitempty"}

Plain == [goname : {"Fa"}, exported : BOOLEAN, emb : {"no"}, tagname : TagNames, tagopts : TagOpts,
          hasjson : BOOLEAN, gomacro : {"", "ignore"}, sub : {<<>>}]
Inner == <<[goname |-> "In1", exported |-> TRUE, emb |-> "no", tagname |-> "in1", tagopts |-> "", hasjson |-> TRUE, gomacro |-> "", sub |-> <<>>],
           [goname |-> "In2", exported |-> TRUE, emb |-> "no", tagname |-> "", tagopts |-> "", hasjson |-> FALSE, gomacro |-> "", sub |-> <<>>],
           [goname |-> "in3", exported |-> FALSE, emb |-> "no", tagname |-> "", tagopts |-> "", hasjson |-> FALSE, gomacro |-> "", sub |-> <<>>]>>
Embedded == [goname : {"Base"}, exported : BOOLEAN, emb : {"struct"}, tagname : TagNames, tagopts : {"", ",omitempty"},
             hasjson : BOOLEAN, gomacro : {"", "ignore"}, sub : {Inner}]
WellFormed(f) == (~f.hasjson => (f.tagname = "" /\ f.tagopts = "")) /\ (f.exported \/ f.emb = "struct" \/ TRUE)
Universe == {f \in Plain \cup Embedded : WellFormed(f)}

KnownEmbedded(f) == f.emb = "struct" /\ ((f.hasjson /\ f.tagname # "") \/ f.gomacro = "ignore")

VARIABLES field, done
Init == field \in Universe /\ done = FALSE
Next == ~done /\ done' = TRUE /\ UNCHANGED field
Spec == Init /\ [][Next]_<<field, done>>

Sibling == [goname |-> "Zz", exported |-> TRUE, emb |-> "no", tagname |-> "", tagopts |-> "", hasjson |-> FALSE, gomacro |-> "", sub |-> <<>>]
ModelAgrees == ~KnownEmbedded(field) => GmKeys(<<field, Sibling>>) = ExpectedKeys(<<field, Sibling>>)

ASSUME TLCSet(1, <<>>)
ExportInv == ~done => TLCSet(1, Append(TLCGet(1), [field |-> field]))
ExportPost == ndJsonSerialize(IOEnv.VERIF_EXPORT, TLCGet(1))
=============================================================================
