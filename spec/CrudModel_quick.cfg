SPECIFICATION Spec
CONSTANTS
  OD = "CASCADE"
  MaxRows = 2
  UniqB = FALSE
INVARIANTS IntegrityInv UniqueInv IdsInv
PROPERTIES Atomic DeleteShrinks
