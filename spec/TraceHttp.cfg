SPECIFICATION TraceSpec
POSTCONDITION Post
