SPECIFICATION TraceSpec
POSTCONDITION Post
