SPECIFICATION Spec
CONSTANTS
  NOut = 3
  Tools = {"go", "ts"}
  FormatOf <- F3
INVARIANTS FormatAfterWrite DoneMeansAllFormatted NoDoneAfterFailure CrashOnlyOnFailure ProbeAtMostOnce Mutex CacheTruthful
PROPERTIES Terminates DoneIfNoFailure
