SPECIFICATION TraceSpec
POSTCONDITION Post
