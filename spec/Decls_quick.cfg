SPECIFICATION Spec
CONSTANTS
  MaxLen = 3
  ModelIds = {"a", "aa", "b"}
  ModelContents = {"x", "y"}
INVARIANTS ExactlyOnce ContentFromInput OrderFree ExportInv
POSTCONDITION ExportPost

