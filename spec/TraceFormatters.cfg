SPECIFICATION TraceSpec
CONSTRAINT HWM
INVARIANTS AccessUnderLock MutualExclusion ProbeAtMostOnce CacheTruthful RunOncePerRequestIfPresent RunsBounded MissingIsNoop FailureReported SuccessReported
POSTCONDITION Post
