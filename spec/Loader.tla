------------------------------- MODULE Loader -------------------------------
(* C17 — analysis.LoadSources as a small state machine over an abstract file system.

   Code (analysis/analysis.go): for every file: Stat (error if missing), dir := Dir(Abs(file));
   root := commonPrefix(dirs) -- component-wise since the fix recorded in known_findings.json
   (it was character-wise: siblings foo/foobar gave root .../foo); one packages.Load with
   Dir = root; any package error => error; then every file is matched back to its package.  *)
EXTENDS LoaderDef, Json, IOUtils

CONSTANTS Names,     \* directory names, chosen nasty: some are character-prefixes of others
          MaxDepth,  \* directories nest up to this depth below the module root
          MaxFiles   \* files per request

RECURSIVE PathsUpTo(_)
PathsUpTo(n) == IF n = 0 THEN {<<>>}
                ELSE PathsUpTo(n - 1) \cup {Append(p, x) : p \in {q \in PathsUpTo(n - 1) : Len(q) = n - 1}, x \in Names}
DirsU == PathsUpTo(MaxDepth)

RECURSIVE ReqsUpTo(_)
ReqsUpTo(n) == IF n = 0 THEN {<<>>}
               ELSE ReqsUpTo(n - 1) \cup {Append(r, d) : r \in {q \in ReqsUpTo(n - 1) : Len(q) = n - 1}, d \in DirsU}

VARIABLES request,   \* sequence of directories (one requested file in each; repeats = duplicates)
          phase, dirs, root, pkgs
vars == <<request, phase, dirs, root, pkgs>>

Init == /\ request \in (ReqsUpTo(MaxFiles) \ {<<>>})
        /\ phase = "start" /\ dirs = <<>> /\ root = <<>> /\ pkgs = <<>>

StatAndAbs == /\ phase = "start"
              /\ dirs' = request            \* every file exists in this family (error cases: TraceLoader)
              /\ phase' = "dirs"
              /\ UNCHANGED <<request, root, pkgs>>

ComputeRoot == /\ phase = "dirs"
               /\ root' = CommonRoot(dirs)
               /\ phase' = "root"
               /\ UNCHANGED <<request, dirs, pkgs>>

LoadAndMatch == /\ phase = "root"
                /\ pkgs' = [i \in 1..Len(request) |-> request[i]]   \* a package is identified by its directory
                /\ phase' = "done"
                /\ UNCHANGED <<request, dirs, root>>

Next == StatAndAbs \/ ComputeRoot \/ LoadAndMatch
Spec == Init /\ [][Next]_vars

RootIsCommonAncestor == phase \in {"root", "done"} => \A i \in 1..Len(request) : IsAncestorOrSelf(root, request[i])
(* the root is a directory of the tree whenever every ancestor of a requested directory is one *)
RootIsExistingDir == phase \in {"root", "done"} => \E i \in 1..Len(request) : IsAncestorOrSelf(root, request[i])
RootIsDeepest == phase \in {"root", "done"} =>
                   \A d \in DirsU : (\A i \in 1..Len(request) : IsAncestorOrSelf(d, request[i])) => Len(d) <= Len(root)
PackagesInOrder == phase = "done" => pkgs = request

ASSUME TLCSet(1, <<>>)
ExportInv == (phase = "start") => TLCSet(1, Append(TLCGet(1), [request |-> request]))
ExportPost == ndJsonSerialize(IOEnv.VERIF_EXPORT, TLCGet(1))
=============================================================================
