SPECIFICATION Spec
CONSTANTS
  MaxLen = 2
  ModelIds = {"a", "aa", "b"}
  ModelContents = {"x", "y"}
INVARIANTS ExactlyOnce ContentFromInput OrderFree
PROPERTY Terminates
