SPECIFICATION Spec
CONSTANTS
  NOut = 4
  Tools = {"go", "ts", "psql"}
  FormatOf <- F4
INVARIANTS FormatAfterWrite DoneMeansAllFormatted NoDoneAfterFailure CrashOnlyOnFailure ProbeAtMostOnce Mutex CacheTruthful
