SPECIFICATION Spec
CONSTANTS
  MaxOut = 4
  Tools = {"go", "ts", "psql"}
INVARIANTS FormatAfterWrite DoneMeansAllFormatted NoDoneAfterFailure CrashOnlyOnFailure ProbeAtMostOnce Mutex CacheTruthful ProbeOnlyNeeded
