----------------------------- MODULE DeclsDef -----------------------------
(* C19 — pure definitions shared by the model (Decls) and the trace spec (TraceDecls):
   the ID order, and the order-free definition of what WriteDeclarations must return.   *)
EXTENDS Naturals, Sequences, FiniteSets, TLC, SequencesExt

(* Universe of IDs known to the spec, in Go string order (byte-wise).  TLC cannot compare strings,
   so "increasing ID order" is expressed through the rank in this sequence.  Every ID used by the
   harness is drawn from here (exported to it by the Export run).                              *)
IdOrder == << "", "0", "A", "AA", "Z", "[]p.T", "_", "__date_def", "__header", "__int_def", "__time_def", "a", "aa", "aa__header", "aa_header", "aa_imports", "aaa_Comp", "ab", "ab_p.T", "ac_constraints", "b", "id_array_converter_int64", "map[p.K]p.T", "p.T", "p.T_json", "p.U", "q.T", "zz_f", "zz_x" >>

Rank(id) == CHOOSE i \in 1..Len(IdOrder) : IdOrder[i] = id

RECURSIVE SeqsUpTo(_, _)
SeqsUpTo(S, n) == IF n = 0 THEN {<<>>}
                  ELSE LET shorter == SeqsUpTo(S, n - 1)
                       IN shorter \cup {Append(s, x) : s \in {t \in shorter : Len(t) = n - 1}, x \in S}

SortedById(s) == \A i \in 1..(Len(s) - 1) : Rank(s[i].id) <= Rank(s[i + 1].id)

PermsOf(s) == {[i \in 1..Len(s) |-> s[p[i]]] : p \in Permutations(1..Len(s))}

IsPrio(d) == d.prio
NotPrio(d) == ~d.prio

RECURSIVE FirstOccurrences(_, _)
FirstOccurrences(s, seen) ==
    IF s = <<>> THEN <<>>
    ELSE IF Head(s).id \in seen THEN FirstOccurrences(Tail(s), seen)
         ELSE <<Head(s)>> \o FirstOccurrences(Tail(s), seen \cup {Head(s).id})

RECURSIVE TextOf(_)
TextOf(s) == IF s = <<>> THEN "" ELSE Head(s).content \o "\n" \o TextOf(Tail(s))

-----------------------------------------------------------------------------
(* The order-free definition the property states. *)

IdsOf(ds) == {ds[i].id : i \in 1..Len(ds)}
PrioIds(ds) == {ds[i].id : i \in {j \in 1..Len(ds) : ds[j].prio}}
(* the order is a parameter: IdOrder for the enumerated universe, or the list of the distinct IDs of a real
   generator's declaration list, put in Go string order by the harness (TraceDecls, records marked real) *)
RankIn(ord, id) == CHOOSE i \in 1..Len(ord) : ord[i] = id
SortIdsIn(ord, S) == SortSeq(SetToSeq(S), LAMBDA a, b : RankIn(ord, a) < RankIn(ord, b))
SortIds(S) == SortIdsIn(IdOrder, S)

(* distinct IDs: the priority group in increasing ID order, then the others in increasing ID order *)
CanonicalIdsIn(ord, ds) == SortIdsIn(ord, PrioIds(ds)) \o SortIdsIn(ord, IdsOf(ds) \ PrioIds(ds))
CanonicalIds(ds) == CanonicalIdsIn(IdOrder, ds)

(* contents an ID may legitimately show: those carried by a declaration of the group it is emitted in *)
ContentsFor(ds, id) ==
    IF id \in PrioIds(ds) THEN {ds[i].content : i \in {j \in 1..Len(ds) : ds[j].id = id /\ ds[j].prio}}
    ELSE {ds[i].content : i \in {j \in 1..Len(ds) : ds[j].id = id}}

EqualIdsEqualContent(ds) ==
    \A i, j \in 1..Len(ds) : ds[i].id = ds[j].id => ds[i].content = ds[j].content

RECURSIVE TextsFor(_, _)
TextsFor(ds, ids) ==   \* every text allowed for the canonical ID sequence `ids`
    IF ids = <<>> THEN {""}
    ELSE {c \o "\n" \o rest : c \in ContentsFor(ds, Head(ids)), rest \in TextsFor(ds, Tail(ids))}

AllowedTexts(ds) == TextsFor(ds, CanonicalIds(ds))
AllowedTextsIn(ord, ds) == TextsFor(ds, CanonicalIdsIn(ord, ds))

=============================================================================
