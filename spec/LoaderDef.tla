----------------------------- MODULE LoaderDef -----------------------------
(* C17 — pure definitions: paths are sequences of components; the common root of a set of
   directories is defined on components, never on characters.                            *)
EXTENDS Naturals, Sequences, FiniteSets, TLC, SequencesExt

IsAncestorOrSelf(a, d) == Len(a) <= Len(d) /\ SubSeq(d, 1, Len(a)) = a

(* longest common prefix (component-wise) of a non-empty sequence of directory paths *)
RECURSIVE LcpLen(_, _)
LcpLen(ds, k) ==
    IF \A i \in 1..Len(ds) : Len(ds[i]) > k /\ ds[i][k + 1] = ds[1][k + 1]
    THEN LcpLen(ds, k + 1) ELSE k
CommonRoot(ds) == SubSeq(ds[1], 1, LcpLen(ds, 0))

RECURSIVE JoinWith(_, _)
JoinWith(parts, sep) == IF parts = <<>> THEN ""
                        ELSE IF Len(parts) = 1 THEN parts[1]
                        ELSE parts[1] \o sep \o JoinWith(Tail(parts), sep)

(* import path of the package living in directory `rel` (relative to the module root) *)
PkgPathOf(modpath, rel) == IF rel = <<>> THEN modpath ELSE modpath \o "/" \o JoinWith(rel, "/")

(* What C17 demands of one LoadSources call on existing, well-typed files:
   rec.dirs   : absolute directory (components) of every requested file, in request order
   rec.reldirs: the same relative to the module root
   rec.root   : returned root, as components;  rec.rootIsDir: it exists and is a directory
   rec.pkgs   : PkgPath of the i-th returned package; rec.contains[i]: that package lists file i *)
RootOK(rec) == /\ rec.rootIsDir
               /\ \A i \in 1..Len(rec.dirs) : IsAncestorOrSelf(rec.root, rec.dirs[i])
PackagesOK(rec) == /\ Len(rec.pkgs) = Len(rec.dirs)
                   /\ \A i \in 1..Len(rec.dirs) :
                        /\ rec.pkgs[i] = PkgPathOf(rec.modpath, rec.reldirs[i])
                        /\ rec.contains[i]
=============================================================================
