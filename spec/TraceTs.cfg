SPECIFICATION TraceSpec
POSTCONDITION Post
