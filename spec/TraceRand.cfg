SPECIFICATION TraceSpec
POSTCONDITION Post
