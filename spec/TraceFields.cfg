SPECIFICATION TraceSpec
POSTCONDITION Post
