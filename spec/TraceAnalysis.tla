---------------------------- MODULE TraceAnalysis ----------------------------
(* Conformance for C12.  One trace per analysed source file:
     begin   the type graph as go/types reports it (ids = identity of the Go type objects), roots
     enter / hit / return   the events of hook H1 inside the real handleType, in order
     final   dumps of the result and of the independent go/types walk (see AnalysisDef)

   The spec replays the events twice:
   - on the *observed* stack and memo table rebuilt from the events alone, where the invariants the
     property needs are evaluated at every step (a type that registers early is never re-entered,
     bounded depth: this is "finite", decided before a real stack overflow);
   - in lock-step with the Analysis model.  The model is deterministic, so the first event it
     cannot produce is recorded as MODEL-DRIFT (it says the code no longer walks like the model);
     drift alone is not a violation of C12.
   The final line is judged with AnalysisDef.  Verdict style: every line is consumed.          *)
EXTENDS AnalysisDef, Json, IOUtils

VARIABLES g, roots, memo, stack, todo, last
INSTANCE Analysis

Trace == ndJsonDeserialize(IOEnv.VERIF_TRACE)

VARIABLES l, obsStack, obsMemo, obsWhy, drift, steps
tvars == <<g, roots, memo, stack, todo, last, l, obsStack, obsMemo, obsWhy, drift, steps>>

Ev == Trace[l]
IsEvent(e) == l <= Len(Trace) /\ Ev.ev = e /\ l' = l + 1

GraphOfRec(rec) == [id \in DOMAIN rec.graph |-> rec.graph[id]]

TraceInit == /\ l = 1
             /\ g = <<>> /\ roots = <<>> /\ memo = {} /\ stack = <<>> /\ todo = <<>> /\ last = [ev |-> "none", id |-> ""]
             /\ obsStack = <<>> /\ obsMemo = {} /\ obsWhy = "" /\ drift = "" /\ steps = 0
             /\ TLCSet(1, <<>>)

TBegin == /\ IsEvent("begin")
          /\ g' = GraphOfRec(Ev) /\ roots' = Ev.roots /\ todo' = Ev.roots
          /\ memo' = {} /\ stack' = <<>> /\ last' = [ev |-> "start", id |-> ""]
          /\ obsStack' = <<>> /\ obsMemo' = {} /\ obsWhy' = "" /\ drift' = "" /\ steps' = 0

IsEarly(id) == id \in DOMAIN g /\ g[id].early

ObsUpdate ==
    CASE Ev.ev = "enter" ->
           /\ obsStack' = Append(obsStack, Ev.id)
           /\ obsMemo' = IF IsEarly(Ev.id) THEN obsMemo \cup {Ev.id} ELSE obsMemo
           /\ obsWhy' = IF obsWhy # "" THEN obsWhy
                        ELSE IF IsEarly(Ev.id) /\ \E i \in 1..Len(obsStack) : obsStack[i] = Ev.id
                               THEN "unbounded recursion: " \o Ev.key \o " is entered again while it is being analysed"
                        ELSE IF Cardinality({i \in 1..Len(obsStack) : obsStack[i] = Ev.id}) >= 2
                               THEN "unbounded recursion: " \o Ev.key \o " is on the stack for the third time"
                        ELSE ""
      [] Ev.ev = "return" ->
           /\ obsStack' = IF obsStack = <<>> THEN <<>> ELSE SubSeq(obsStack, 1, Len(obsStack) - 1)
           /\ obsMemo' = obsMemo \cup {Ev.id}
           /\ obsWhy' = IF obsWhy # "" THEN obsWhy
                        ELSE IF obsStack = <<>> \/ obsStack[Len(obsStack)] # Ev.id THEN "harness: return does not match the innermost enter"
                        ELSE ""
      [] OTHER ->
           /\ UNCHANGED <<obsStack, obsMemo>>
           /\ obsWhy' = IF obsWhy # "" THEN obsWhy
                        ELSE IF Ev.id \notin obsMemo THEN "drift: memo hit on " \o Ev.key \o ", a type that was never entered (registered outside the enter / return protocol)" ELSE ""

ModelFollows == Next /\ last' = [ev |-> Ev.ev, id |-> Ev.id]

TEvent == /\ l <= Len(Trace) /\ Ev.ev \in {"enter", "hit", "return"} /\ l' = l + 1
          /\ ObsUpdate
          /\ steps' = steps + 1
          /\ IF drift = "" /\ ENABLED ModelFollows
             THEN ModelFollows /\ UNCHANGED <<g, roots, drift>>
             ELSE /\ drift' = IF drift # "" THEN drift
                              ELSE "event " \o ToString(steps + 1) \o " (" \o Ev.ev \o " " \o Ev.key \o ") is not the step the model takes"
                  /\ UNCHANGED <<g, roots, memo, stack, todo, last>>

TFinal == /\ IsEvent("final")
          /\ LET isDrift == Len(obsWhy) > 6 /\ SubSeq(obsWhy, 1, 6) = "drift:"
                 why == IF Ev.outcome = "fatal" \/ Ev.outcome = "timeout" THEN "analysis does not terminate (" \o Ev.outcome \o "): " \o Ev.msg
                        ELSE IF obsWhy # "" /\ ~isDrift THEN obsWhy
                        ELSE IF Ev.outcome = "runtime" THEN "analysis crashed: " \o Ev.msg
                        ELSE IF Ev.outcome # "ok" THEN "supported input refused: " \o Ev.msg
                        ELSE FinalVerdict(Ev)
                 dr == IF isDrift THEN obsWhy
                       ELSE IF drift # "" THEN drift
                       ELSE IF Ev.outcome = "ok" /\ ~(stack = <<>> /\ todo = <<>>) THEN "the model has steps left when the code is done" ELSE ""
             IN IF why = "" /\ dr = "" THEN TRUE
                ELSE TLCSet(1, Append(TLCGet(1), [case |-> Ev.case, why |-> why, drift |-> dr]))
          /\ UNCHANGED <<g, roots, memo, stack, todo, last, obsStack, obsMemo, obsWhy, drift, steps>>

TraceNext == TBegin \/ TEvent \/ TFinal
TraceSpec == TraceInit /\ [][TraceNext]_tvars

Post == /\ TLCGet("stats").diameter - 1 = Len(Trace)
        /\ ndJsonSerialize(IOEnv.VERIF_OUT, <<[consumed |-> Len(Trace)]>> \o TLCGet(1))
=============================================================================
