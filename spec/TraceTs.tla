------------------------------- MODULE TraceTs -------------------------------
(* Conformance for C03.  Per program: one "tsenv" line with the parsed TypeScript output (or its
   syntax error), then one "doc" line per JSON document that the compiled Go code emitted for a value
   of an analysed type.  The environment is state: TLC carries it from the tsenv line to the
   documents of the same program.  Verdict style: every line is consumed.                    *)
EXTENDS TsSem, Json, IOUtils

Trace == ndJsonDeserialize(IOEnv.VERIF_TRACE)
VARIABLES l, env, envok

One(S) == CHOOSE x \in S : TRUE

TraceInit == l = 1 /\ env = <<>> /\ envok = FALSE /\ TLCSet(1, <<>>)

Report(rec, why) == TLCSet(1, Append(TLCGet(1), [case |-> rec.case, why |-> why]))

TEnv == /\ l <= Len(Trace) /\ Trace[l].ev = "tsenv"
        /\ LET rec == Trace[l] IN
             /\ env' = rec.decls
             /\ envok' = (rec.syntax = "" /\ WellFormedEnv(rec.decls))   \* documents are only judged against a well-formed environment
             /\ IF rec.syntax # "" THEN Report(rec, "TypeScript output is not syntactically valid: " \o rec.syntax)
                ELSE IF Undeclared(rec.decls) # {} THEN Report(rec, "TypeScript output mentions an undeclared name: " \o One(Undeclared(rec.decls))[2])
                ELSE IF DeclaredTwice(rec.decls) # {} THEN Report(rec, "TypeScript output declares a name twice: " \o One(DeclaredTwice(rec.decls)))
                ELSE TRUE
        /\ l' = l + 1

TDoc == /\ l <= Len(Trace) /\ Trace[l].ev = "doc"
        /\ LET rec == Trace[l] IN
             IF ~envok THEN TRUE
             ELSE IF TypeDecls(env, rec.tsname) = {} THEN Report(rec, "no TypeScript declaration for the analysed type " \o rec.tsname)
             ELSE IF Inhabits(env, rec.doc, [t |-> "ref", name |-> rec.tsname]) THEN TRUE
             ELSE Report(rec, "a document Go emits is not an inhabitant of the generated TypeScript type " \o rec.tsname)
        /\ l' = l + 1
        /\ UNCHANGED <<env, envok>>

TraceSpec == TraceInit /\ [][TEnv \/ TDoc]_<<l, env, envok>>
Post == /\ TLCGet("stats").diameter - 1 = Len(Trace)
        /\ ndJsonSerialize(IOEnv.VERIF_OUT, <<[consumed |-> Len(Trace)]>> \o TLCGet(1))
=============================================================================
