SPECIFICATION Spec
CONSTANTS
  MaxConsts = 3
  MaxVal = 2
INVARIANTS ModelExact ExportInv
POSTCONDITION ExportPost
