SPECIFICATION Spec
CONSTANTS
  MaxConsts = 4
  MaxVal = 3
INVARIANTS ModelExact ExportInv
POSTCONDITION ExportPost
