--------------------------- MODULE TracePipeline ---------------------------
(* Conformance of the real command line tool (cmd/gomacro -config ..., built with -race) with
   Pipeline: the tool runs with stand-in formatters on PATH; its standard output and the stand-ins'
   log lines go to ONE O_APPEND file, so the recorded order is the real order of the writes.
   One run = config, then the lines of the run, then exit.

     config  : the configuration given to the tool (files in the order the tool must process them,
               their actions with the observed "output is non empty" bit, dart files) + tool availability.
               The expected output list (order, formatter family) is computed HERE from it (ExpectedOuts).
     written : "Code written to X"      -> Write(i), and X must be the i-th expected output
     probe_* / run_*  (stand-ins)       -> the Formatters steps of the goroutine of that file
     waiting : "Waiting for formatters..." -> WaitStart
     done    : "Done."                  -> Finish
     panic   : "panic: formatting ..."  -> GPanic
     exit    : exit code, and for every output whether the stand-in rewrote it
   GCall, AcquireHit, Release and GReturn are silent.  Every invariant of Pipeline is evaluated in
   every state of the replay.                                                                    *)
EXTENDS Naturals, Sequences, FiniteSets, TLC, Json, IOUtils

MaxOut == 12
Tools == {"go", "dart", "ts", "psql"}
VARIABLES avail, pc, req, nreq, lock, has, probes, runs, ret, touched, phase, written, n, fmtOf
P == INSTANCE Pipeline

Trace == ndJsonDeserialize(IOEnv.VERIF_TRACE)
VARIABLES l, files,     \* next line; [Procs -> output file names of the run] (dart slots are filled as the files appear)
          dartLeft      \* dart files not written yet (the order among them is free: one file per package, map order)
pvars == <<avail, pc, req, nreq, lock, has, probes, runs, ret, touched, phase, written, n, fmtOf>>
tvars == <<pvars, l, files, dartLeft>>
Ev == Trace[l]
IsEvent(e) == l <= Len(Trace) /\ Ev.ev = e /\ l' = l + 1

ToolOf(mode) == CASE mode \in {"go/unions", "go/sqlcrud", "go/randdata"} -> "go"
                  [] mode = "sql" -> "psql"
                  [] mode \in {"typescript/types", "typescript/api"} -> "ts"
                  [] OTHER -> "dart"

\* cmd/gomacro.go: files in sorted order, actions in their order; dart actions are deferred to the
\* end (one file per package); with -dart-only every other action is skipped; an empty text is not written
RECURSIVE Flatten(_)
Flatten(ss) == IF ss = <<>> THEN <<>> ELSE Head(ss) \o Flatten(Tail(ss))
ActionOuts(cfg, acts) ==
    Flatten([k \in 1..Len(acts) |->
        IF acts[k].mode = "dart" \/ cfg.dartonly \/ ~acts[k].nonempty THEN <<>>
        ELSE << [file |-> acts[k].out, tool |-> ToolOf(acts[k].mode)] >>])
HasDart(cfg) == \E i \in 1..Len(cfg.conf) : \E k \in 1..Len(cfg.conf[i].actions) : cfg.conf[i].actions[k].mode = "dart"
ExpectedOuts(cfg) ==
    Flatten([i \in 1..Len(cfg.conf) |-> ActionOuts(cfg, cfg.conf[i].actions)])
    \o (IF HasDart(cfg) THEN [k \in 1..Len(cfg.dartfiles) |-> [file |-> "", tool |-> "dart"]] ELSE <<>>)

Procs == 1..MaxOut
Zero == /\ pc' = [p \in Procs |-> "idle"] /\ req' = [p \in Procs |-> "go"] /\ nreq' = [p \in Procs |-> 0]
        /\ lock' = 0 /\ has' = [t \in Tools |-> "unknown"] /\ probes' = [t \in Tools |-> 0]
        /\ runs' = [p \in Procs |-> 0] /\ ret' = [p \in Procs |-> "pending"] /\ touched' = [p \in Procs |-> FALSE]
        /\ phase' = "saving" /\ written' = {}

TraceInit == /\ l = 1 /\ files = [p \in Procs |-> ""] /\ dartLeft = {}
             /\ avail = [t \in Tools |-> "ok"]
             /\ pc = [p \in Procs |-> "idle"] /\ req = [p \in Procs |-> "go"] /\ nreq = [p \in Procs |-> 0]
             /\ lock = 0 /\ has = [t \in Tools |-> "unknown"] /\ probes = [t \in Tools |-> 0]
             /\ runs = [p \in Procs |-> 0] /\ ret = [p \in Procs |-> "pending"] /\ touched = [p \in Procs |-> FALSE]
             /\ phase = "saving" /\ written = {} /\ n = 0 /\ fmtOf = [p \in Procs |-> "go"]

TConfig == /\ IsEvent("config")
           /\ LET outs == ExpectedOuts(Ev) IN
              /\ Len(outs) <= MaxOut
              /\ n' = Len(outs)
              /\ fmtOf' = [p \in Procs |-> IF p <= Len(outs) THEN outs[p].tool ELSE "go"]
              /\ files' = [p \in Procs |-> IF p <= Len(outs) THEN outs[p].file ELSE ""]
           /\ dartLeft' = IF HasDart(Ev) THEN {Ev.dartfiles[k] : k \in 1..Len(Ev.dartfiles)} ELSE {}
           /\ avail' = [t \in Tools |-> Ev.avail[t]]
           /\ Zero

TWritten == /\ IsEvent("written")
            /\ \E i \in Procs :
                 /\ P!Write(i)                                        \* the next output, in order
                 /\ \/ files[i] = Ev.file /\ Ev.file # "" /\ UNCHANGED <<files, dartLeft>>
                    \/ /\ files[i] = "" /\ fmtOf[i] = "dart" /\ Ev.file \in dartLeft
                       /\ files' = [files EXCEPT ![i] = Ev.file] /\ dartLeft' = dartLeft \ {Ev.file}
TProbeStart == /\ IsEvent("probe_start")
               /\ \E p \in Procs : pc[p] = "want" /\ req[p] = Ev.tool /\ P!Alive /\ P!F!AcquireProbe(p)
               /\ UNCHANGED <<phase, written, n, fmtOf, files, dartLeft>>
TProbeEnd == /\ IsEvent("probe_end")
             /\ \E p \in Procs : req[p] = Ev.tool /\ P!Alive /\ P!F!ProbeEnd(p)
             /\ (Ev.exit = 0) <=> (avail[Ev.tool] # "missing")
             /\ UNCHANGED <<phase, written, n, fmtOf, files, dartLeft>>
TRunStart == /\ IsEvent("run_start")
             /\ \E p \in Procs : files[p] = Ev.file /\ req[p] = Ev.tool /\ P!Alive /\ P!F!RunStart(p)
             /\ UNCHANGED <<phase, written, n, fmtOf, files, dartLeft>>
TRunEnd == /\ IsEvent("run_end")
           /\ \E p \in Procs : files[p] = Ev.file /\ req[p] = Ev.tool /\ P!Alive /\ P!F!RunEnd(p)
           /\ (Ev.exit = 0) <=> (avail[Ev.tool] = "ok")
           /\ UNCHANGED <<phase, written, n, fmtOf, files, dartLeft>>
TWaiting == IsEvent("waiting") /\ P!WaitStart /\ UNCHANGED <<files, dartLeft>>
TDone == IsEvent("done") /\ P!Finish /\ UNCHANGED <<files, dartLeft>>
TPanic == /\ IsEvent("panic")
          /\ \E p \in Procs : files[p] = Ev.file /\ P!GPanic(p)
          /\ UNCHANGED <<files, dartLeft>>
\* the process has ended: exit code and file contents are what the model's final state says
TExit == /\ IsEvent("exit")
         /\ (Ev.code = 0) <=> (phase = "done")
         /\ (Ev.code # 0) => (phase = "crashed")
         /\ LET onDisk == {Ev.outs[k].file : k \in 1..Len(Ev.outs)} IN
            IF phase = "done"
            THEN /\ \A p \in Procs : p <= n => \E k \in 1..Len(Ev.outs) : Ev.outs[k].file = files[p] /\ (Ev.outs[k].formatted <=> touched[p])
                 /\ Len(Ev.outs) = n                                   \* nothing else was written
            \* a crashed run: everything announced as written is on disk (main may have written more
            \* files between the panic and the death of the process, without announcing them)
            ELSE \A p \in written : files[p] \in onDisk
         /\ UNCHANGED pvars /\ UNCHANGED <<files, dartLeft>>

Silent == /\ \E p \in Procs : P!GCall(p) \/ (P!Alive /\ (P!F!AcquireHit(p) \/ P!F!Release(p)) /\ UNCHANGED <<phase, written, n, fmtOf>>) \/ P!GReturn(p)
          /\ UNCHANGED <<l, files, dartLeft>>

TraceNext == TConfig \/ TWritten \/ TProbeStart \/ TProbeEnd \/ TRunStart \/ TRunEnd \/ TWaiting \/ TDone \/ TPanic \/ TExit \/ Silent
TraceSpec == TraceInit /\ [][TraceNext]_tvars

ASSUME TLCSet(2, 1)
\* the high-water mark of consumed lines; once every line is explained the verdict is written and the
\* search stops (depth-first queue: the end of an accepted trace is reached without visiting every interleaving)
HWM == /\ IF l > TLCGet(2) THEN TLCSet(2, l) ELSE TRUE
       /\ IF l = Len(Trace) + 1
          THEN ndJsonSerialize(IOEnv.VERIF_OUT, <<[hwm |-> l, len |-> Len(Trace)]>>) /\ TLCSet("exit", TRUE)
          ELSE TRUE
Post == ndJsonSerialize(IOEnv.VERIF_OUT, <<[hwm |-> TLCGet(2), len |-> Len(Trace)]>>)

FormatAfterWrite == P!FormatAfterWrite
DoneMeansAllFormatted == P!DoneMeansAllFormatted
NoDoneAfterFailure == P!NoDoneAfterFailure
CrashOnlyOnFailure == P!CrashOnlyOnFailure
ProbeAtMostOnce == P!ProbeAtMostOnce
Mutex == P!Mutex
CacheTruthful == P!CacheTruthful
ProbeOnlyNeeded == P!ProbeOnlyNeeded
=============================================================================
