----------------------------- MODULE TraceFields -----------------------------
(* Conformance for C09 (verdict style).  One line = one synthesised struct with
     fields   the abstract fields (FieldsDef)
     encjson  keys of json.Marshal of a value with every field set (the ground truth the property names)
     api      keys gomacro's analysis reports (Exported / JSONName), in field order
     ts, dartFrom, dartTo, sqlKeys, sqlChecks   keys found in the generated TypeScript interface, the
              Dart fromJson / toJson routines and the JSON validator of the struct
     meta     for the pair (program, program + one ignored field): are the three outputs unchanged *)
EXTENDS FieldsDef, Json, IOUtils

Trace == ndJsonDeserialize(IOEnv.VERIF_TRACE)
VARIABLE l

Known(rec) == \E i \in 1..Len(rec.fields) :
                 rec.fields[i].emb = "struct" /\ ((rec.fields[i].hasjson /\ rec.fields[i].tagname # "") \/ rec.fields[i].gomacro = "ignore")

Why(rec) ==
    LET want == ExpectedKeys(rec.fields) IN
    IF rec.outcome # "ok" THEN "generation did not complete: " \o rec.outcome
    ELSE IF EjKeys(rec.fields) # rec.encjson THEN "harness: the specification of encoding/json disagrees with encoding/json"
    ELSE IF rec.api # want THEN "analysis: fields / keys differ from encoding/json"
    ELSE IF rec.ts # want THEN "typescript: properties differ from encoding/json keys"
    ELSE IF rec.dartFrom # want THEN "dart fromJson: keys differ from encoding/json keys"
    ELSE IF rec.dartTo # want THEN "dart toJson: keys differ from encoding/json keys"
    ELSE IF rec.sqlKeys # want THEN "json validator: accepted keys differ from encoding/json keys"
    ELSE IF rec.sqlChecks # want THEN "json validator: checked keys differ from encoding/json keys"
    ELSE IF ~rec.meta.ts THEN "typescript output changes when an ignored field is added"
    ELSE IF ~rec.meta.dart THEN "dart output changes when an ignored field is added"
    ELSE IF ~rec.meta.sql THEN "sql output changes when an ignored field is added"
    ELSE ""

TraceInit == l = 1 /\ TLCSet(1, <<>>)
Consume == /\ l <= Len(Trace)
           /\ LET w == Why(Trace[l]) IN
                IF w = "" THEN TRUE ELSE TLCSet(1, Append(TLCGet(1), [case |-> Trace[l].case, why |-> w, known |-> Known(Trace[l])]))
           /\ l' = l + 1
TraceSpec == TraceInit /\ [][Consume]_l
Post == /\ TLCGet("stats").diameter - 1 = Len(Trace)
        /\ ndJsonSerialize(IOEnv.VERIF_OUT, <<[consumed |-> Len(Trace)]>> \o TLCGet(1))
=============================================================================
