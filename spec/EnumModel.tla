----------------------------- MODULE EnumModel -----------------------------
(* C10 — analysis.fetchPkgEnums + Enum.setIsIota as a state machine over the constants of one
   integer-backed type, checked against EnumDef for every constant block of a small scope.

   Code (analysis/enums.go): the package scope is walked in *name order* (scope.Names() is
   sorted), every typed constant without the opt-out comment is appended to its type's member
   list; then setIsIota: not integer or any negative value -> not iota; the exported values must
   be pairwise distinct (since the fix recorded in known_findings.json) and fill 0..max; then the
   members are sorted by value with an unstable sort and the flag is set.                      *)
EXTENDS EnumDef, SequencesExt, Json, IOUtils

CONSTANTS MaxConsts, MaxVal
Vals == (0 - 1)..MaxVal

(* name of the constant at source position i, by exportedness; NameOrder is Go's string order *)
ExpNames == <<"Zed", "Alpha", "Mu", "Beta">>
UnexpNames == <<"zed", "alpha", "mu", "beta">>
NameOrder == <<"Alpha", "Beta", "Mu", "Zed", "alpha", "beta", "mu", "zed">>
NameRank(n) == CHOOSE i \in 1..Len(NameOrder) : NameOrder[i] = n

Core == [exported : BOOLEAN, ival : Vals]

RECURSIVE SeqsUpTo(_, _)
SeqsUpTo(S, n) == IF n = 0 THEN {<<>>}
                  ELSE LET shorter == SeqsUpTo(S, n - 1)
                       IN shorter \cup {Append(s, x) : s \in {t \in shorter : Len(t) = n - 1}, x \in S}

TyT == [key |-> "p.T", pkg |-> "p", name |-> "T", backing |-> "int"]
ConstOf(core, i) == [pkg |-> "p", name |-> IF core[i].exported THEN ExpNames[i] ELSE UnexpNames[i],
                     type |-> "p.T", val |-> ToString(core[i].ival), ival |-> core[i].ival, isint |-> TRUE,
                     exported |-> core[i].exported, optout |-> FALSE, comment |-> ""]
ConstsOf(core) == [i \in 1..Len(core) |-> ConstOf(core, i)]

VARIABLES core,      \* the constant block (source order)
          todo,      \* constants not yet visited by the scope walk (in name order)
          members,   \* Enum.Members
          iota,      \* Enum.IsIota
          phase
vars == <<core, todo, members, iota, phase>>

Init == /\ core \in (SeqsUpTo(Core, MaxConsts) \ {<<>>})
        /\ todo = SortSeq(ConstsOf(core), LAMBDA a, b : NameRank(a.name) < NameRank(b.name))
        /\ members = <<>> /\ iota = FALSE /\ phase = "walk"

VisitConst == /\ phase = "walk" /\ todo # <<>>
              /\ members' = Append(members, Head(todo))
              /\ todo' = Tail(todo)
              /\ UNCHANGED <<core, iota, phase>>

WalkDone == /\ phase = "walk" /\ todo = <<>>
            /\ phase' = "setiota"
            /\ UNCHANGED <<core, todo, members, iota>>

ExportedVals == {members[i].ival : i \in {j \in 1..Len(members) : members[j].exported}}
NbExported == Cardinality({j \in 1..Len(members) : members[j].exported})
MaxOf(S) == IF S = {} THEN -1 ELSE CHOOSE x \in S : \A y \in S : y <= x

NotIota == /\ phase = "setiota"
           /\ \/ \E i \in 1..Len(members) : members[i].ival < 0
              \/ Cardinality(ExportedVals) # NbExported                 \* duplicates among exported values
              \/ Cardinality(ExportedVals) # MaxOf(ExportedVals) + 1    \* gap
           /\ phase' = "done"
           /\ UNCHANGED <<core, todo, members, iota>>

PermsOf(s) == {[i \in 1..Len(s) |-> s[p[i]]] : p \in Permutations(1..Len(s))}
SortedByVal(s) == \A i \in 1..(Len(s) - 1) : s[i].ival <= s[i + 1].ival

SortAndFlag == /\ phase = "setiota"
               /\ \A i \in 1..Len(members) : members[i].ival >= 0
               /\ Cardinality(ExportedVals) = NbExported
               /\ Cardinality(ExportedVals) = MaxOf(ExportedVals) + 1
               /\ members' \in {s \in PermsOf(members) : SortedByVal(s)}     \* unstable sort: ties in any order
               /\ iota' = TRUE
               /\ phase' = "done"
               /\ UNCHANGED <<core, todo>>

Next == VisitConst \/ WalkDone \/ NotIota \/ SortAndFlag
Spec == Init /\ [][Next]_vars

Observed == [isEnum |-> members # <<>>, iota |-> iota, members |-> members]
ModelExact == phase = "done" => TypeVerdict(TyT, ConstsOf(core), Observed) = ""

ASSUME TLCSet(1, <<>>)
ExportInv == (phase = "walk" /\ members = <<>>) => TLCSet(1, Append(TLCGet(1), [core |-> core]))
ExportPost == ndJsonSerialize(IOEnv.VERIF_EXPORT, TLCGet(1))
=============================================================================
