SPECIFICATION TraceSpec
POSTCONDITION Post
