------------------------------ MODULE RandDef ------------------------------
(* C15 — what a value returned by a generated rand<T>() must look like (WellFormed), stated on the
   value trees of WireJSON, with the registries of the program:
     enums  : Seq([type, exported : Seq(lit)])      exported constants of every enum type
     unions : Seq([iface, members : Seq(name)])     member type names of every union             *)
EXTENDS WireJSON

Range(s) == {s[i] : i \in 1..Len(s)}

ExportedOf(reg, ty) == IF \E e \in Range(reg.enums) : e.type = ty
                       THEN Range((CHOOSE e \in Range(reg.enums) : e.type = ty).exported) ELSE {}
MembersOf(reg, itf) == IF \E u \in Range(reg.unions) : u.iface = itf
                       THEN Range((CHOOSE u \in Range(reg.unions) : u.iface = itf).members) ELSE {}

RECURSIVE IsZero(_)
IsZero(tr) ==
    CASE tr.k = "struct" -> \A i \in 1..Len(tr.fields) : IsZero(tr.fields[i].v)
      [] tr.k = "hidden" -> tr.zero
      [] tr.k = "union"  -> tr.nil
      [] tr.k \in {"int", "float"} -> tr.lit = "0"
      [] tr.k = "enum"   -> tr.lit = "0" \/ tr.lit = ""
      [] tr.k = "bool"   -> ~tr.v
      [] tr.k = "string" -> tr.v = ""
      [] tr.k = "time"   -> tr.v = "0001-01-01T00:00:00Z"
      [] tr.k \in {"slice", "map", "bytes", "ptr"} -> tr.nil
      [] tr.k = "array"  -> \A i \in 1..Len(tr.elems) : IsZero(tr.elems[i])
      [] OTHER -> FALSE

RECURSIVE WF(_, _)
(* "" when well-formed, otherwise what is wrong *)
WF(reg, tr) ==
    CASE tr.k = "struct" ->
            LET bad == {i \in 1..Len(tr.fields) :
                           IF tr.fields[i].data = "ignore" THEN ~IsZero(tr.fields[i].v)
                           ELSE IF tr.fields[i].v.k = "hidden" THEN FALSE
                           ELSE WF(reg, tr.fields[i].v) # ""}
            IN IF bad = {} THEN ""
               ELSE LET i == CHOOSE x \in bad : TRUE IN
                    IF tr.fields[i].data = "ignore" THEN "a field marked to be skipped does not keep its zero value (" \o tr.fields[i].go \o ")"
                    ELSE WF(reg, tr.fields[i].v)
      [] tr.k = "union" ->
            IF tr.nil THEN "union-typed component is nil (" \o tr.iface \o ")"
            ELSE IF tr.dyn \notin MembersOf(reg, tr.iface) THEN "union-typed component holds a non-member (" \o tr.dyn \o ")"
            ELSE WF(reg, tr.v)
      [] tr.k = "enum" ->
            IF tr.lit \in ExportedOf(reg, tr.type) THEN "" ELSE "enum-typed component is not one of the exported constants (" \o tr.type \o " = " \o tr.lit \o ")"
      [] tr.k = "slice" ->
            IF tr.nil \/ tr.elems = <<>> THEN "slice not populated (" \o tr.type \o ")"
            ELSE LET bad == {i \in 1..Len(tr.elems) : WF(reg, tr.elems[i]) # ""} IN
                 IF bad = {} THEN "" ELSE WF(reg, tr.elems[CHOOSE x \in bad : TRUE])
      [] tr.k = "bytes" -> IF tr.nil \/ tr.b64 = "" THEN "slice not populated (" \o tr.type \o ")" ELSE ""
      [] tr.k = "array" ->
            IF Len(tr.elems) # tr.len THEN "fixed array of the wrong length"
            ELSE LET bad == {i \in 1..Len(tr.elems) : WF(reg, tr.elems[i]) # ""} IN
                 IF bad = {} THEN "" ELSE WF(reg, tr.elems[CHOOSE x \in bad : TRUE])
      [] tr.k = "map" ->
            IF tr.nil \/ tr.entries = <<>> THEN "map not populated (" \o tr.type \o ")"
            ELSE LET bad == {i \in 1..Len(tr.entries) : WF(reg, tr.entries[i].kv) # "" \/ WF(reg, tr.entries[i].v) # ""} IN
                 IF bad = {} THEN ""
                 ELSE LET i == CHOOSE x \in bad : TRUE IN
                      IF WF(reg, tr.entries[i].kv) # "" THEN WF(reg, tr.entries[i].kv) ELSE WF(reg, tr.entries[i].v)
      [] tr.k = "ptr" -> IF tr.nil THEN "" ELSE WF(reg, tr.v)
      [] OTHER -> ""

RECURSIVE Varies(_, _)
(* the type admits more than one value (judged on one value of it) *)
Varies(reg, tr) ==
    CASE tr.k = "struct" -> \E i \in 1..Len(tr.fields) : tr.fields[i].data # "ignore" /\ tr.fields[i].v.k # "hidden" /\ Varies(reg, tr.fields[i].v)
      [] tr.k = "union"  -> Cardinality(MembersOf(reg, tr.iface)) > 1 \/ (~tr.nil /\ Varies(reg, tr.v))
      [] tr.k = "enum"   -> Cardinality(ExportedOf(reg, tr.type)) > 1
      [] tr.k \in {"int", "float", "bool", "string", "time", "slice", "map", "bytes"} -> TRUE
      [] tr.k = "array"  -> tr.elems # <<>> /\ Varies(reg, tr.elems[1])
      [] tr.k = "ptr"    -> TRUE          \* nil or not, and whatever it points to
      [] OTHER -> FALSE

(* every component of a struct value comes from its own call of the random function of the component's
   type: over repeated calls each component whose type admits more than one value must vary as well *)
FrozenComponents(reg, values) ==
    LET t1 == values[1].tree IN
    IF t1.k # "struct" \/ Len(values) < 8 THEN {}
    ELSE {i \in 1..Len(t1.fields) :
            /\ t1.fields[i].data # "ignore" /\ t1.fields[i].v.k # "hidden"
            /\ Varies(reg, t1.fields[i].v)
            /\ \A k \in 1..Len(values) : values[k].tree.k = "struct" /\ Len(values[k].tree.fields) = Len(t1.fields)
            /\ Cardinality({values[k].tree.fields[i].v : k \in 1..Len(values)}) < 2}
=============================================================================
