-------------------------- MODULE FormattersSched --------------------------
(* Schedules for the spec -> code direction of C20.  The Formatters machine is extended with a
   history of the steps an outside driver can control (when a request starts, when a probe
   process ends, when a formatter process ends).  `tlc -simulate` walks random behaviours; every
   completed one is exported and replayed through the real generator.Formatters with gated
   stand-in tools.                                                                           *)
EXTENDS Formatters, Json, IOUtils

VARIABLE hist
svars == <<vars, hist>>

Rec(a, p, t) == [a |-> a, p |-> p, tool |-> t]

SInit == Init /\ hist = <<>>

SNext == \E p \in Procs :
          \/ \E t \in Tools : Call(p, t) /\ hist' = Append(hist, Rec("call", p, t))
          \/ AcquireProbe(p) /\ hist' = Append(hist, Rec("probe_start", p, req[p]))
          \/ ProbeEnd(p) /\ hist' = Append(hist, Rec("probe_end", p, req[p]))
          \/ AcquireHit(p) /\ UNCHANGED hist
          \/ Release(p) /\ UNCHANGED hist
          \/ RunStart(p) /\ hist' = Append(hist, Rec("run_start", p, req[p]))
          \/ RunEnd(p) /\ hist' = Append(hist, Rec("run_end", p, req[p]))
          \/ Return(p) /\ hist' = Append(hist, Rec("return", p, req[p]))

SSpec == SInit /\ [][SNext]_svars

AllDone == \A p \in Procs : pc[p] = "done" /\ nreq[p] = MaxReq

ASSUME TLCSet(1, <<>>)
ExportInv == AllDone => TLCSet(1, Append(TLCGet(1), [avail |-> avail, steps |-> hist]))
ExportPost == ndJsonSerialize(IOEnv.VERIF_EXPORT, TLCGet(1))
=============================================================================
