----------------------------- MODULE TraceDecls -----------------------------
(* Conformance for C19 (verdict style): every line of the trace is one real call of
   generator.WriteDeclarations — the list as handed in, the text as returned.  One TLC step
   consumes one call and judges it with the order-free definition of DeclsDef; the verdicts of
   all calls are written out by the postcondition.                                          *)
EXTENDS DeclsDef, Json, IOUtils

Trace == ndJsonDeserialize(IOEnv.VERIF_TRACE)

VARIABLE l

KnownIds(ds) == \A i \in 1..Len(ds) : \E k \in 1..Len(IdOrder) : IdOrder[k] = ds[i].id

(* a declaration list taken from a real generator: its IDs are arbitrary strings, rec.ids lists the distinct ones in
   Go string order.  Real lists do carry different contents under one ID (the Dart helpers of []Label and []string
   share the ID listString): as for the enumerated lists, any content supplied for the ID may then be the one kept. *)
RealVerdict(rec) ==
    LET ds == rec.input  ord == rec.ids IN
    IF \E i \in 1..Len(ds) : ~\E k \in 1..Len(ord) : ord[k] = ds[i].id THEN [case |-> rec.case, ok |-> FALSE, why |-> "harness: id outside the supplied order"]
    ELSE IF rec.output \in AllowedTextsIn(ord, ds)
         THEN [case |-> rec.case, ok |-> TRUE, why |-> ""]
         ELSE [case |-> rec.case, ok |-> FALSE, why |-> "output is not an allowed text (each id once, priority group first, increasing ids)"]

Verdict(rec) ==
    LET ds == rec.input IN
    IF "ids" \in DOMAIN rec THEN RealVerdict(rec)
    ELSE IF ~KnownIds(ds) THEN [case |-> rec.case, ok |-> FALSE, why |-> "harness: id outside IdOrder"]
    ELSE IF EqualIdsEqualContent(ds)
         THEN IF \A t \in AllowedTexts(ds) : rec.output = t
              THEN [case |-> rec.case, ok |-> TRUE, why |-> ""]
              ELSE [case |-> rec.case, ok |-> FALSE, why |-> "output differs from the canonical text"]
         ELSE IF rec.output \in AllowedTexts(ds)
              THEN [case |-> rec.case, ok |-> TRUE, why |-> ""]
              ELSE [case |-> rec.case, ok |-> FALSE, why |-> "output is not an allowed text (each id once, priority group first, increasing ids)"]

TraceInit == l = 1 /\ TLCSet(1, <<>>)

Consume == /\ l <= Len(Trace)
           /\ LET v == Verdict(Trace[l]) IN
                IF v.ok THEN TRUE ELSE TLCSet(1, Append(TLCGet(1), v))
           /\ l' = l + 1

TraceSpec == TraceInit /\ [][Consume]_l

Post == /\ TLCGet("stats").diameter - 1 = Len(Trace)     \* every line consumed
        /\ ndJsonSerialize(IOEnv.VERIF_OUT, <<[consumed |-> Len(Trace)]>> \o TLCGet(1))
=============================================================================
