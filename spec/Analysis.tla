------------------------------ MODULE Analysis ------------------------------
(* C12 — Analysis.handleType / createType as a stack machine over a type graph g.

   g : [ids -> [kind, children, early, regAs]]
       children : the types the code recurses into, in order (struct: field types; named: the
                  underlying type; array/slice: element; map: key, element; pointer: element;
                  union: members; alias: the type it denotes, whose node it shares)
       early    : createType registers an incomplete node before recursing (struct, array, slice, map)
       regAs    : the id that early registration uses (the type itself)
   One action per step of the real recursion; these are the events hook H1 emits:
       Enter(t)  handleType(t) misses the memo table and starts createType(t)
       Hit(t)    handleType(t) finds t in the memo table (complete or not)
       Return(t) createType(t) is done; t is registered
   The termination argument of the code is the invariant NoReenter: everything a legal cycle must
   pass through (struct, slice, array, map) registers early, so it is never entered while it is
   still on the stack.                                                                       *)
EXTENDS Integers, Sequences, FiniteSets, TLC

VARIABLES g, roots, memo, stack, todo, last
avars == <<g, roots, memo, stack, todo, last>>

Ids == DOMAIN g

Frame(id) == [id |-> id, next |-> 1]

(* handleType(c) seen from the caller *)
CallEffect(c, stk) ==
    IF c \in memo
    THEN /\ stack' = stk /\ memo' = memo /\ last' = [ev |-> "hit", id |-> c]
    ELSE /\ stack' = Append(stk, Frame(c))
         /\ memo' = IF g[c].early THEN memo \cup {g[c].regAs} ELSE memo
         /\ last' = [ev |-> "enter", id |-> c]

StartRoot == /\ stack = <<>> /\ todo # <<>>
             /\ CallEffect(Head(todo), <<>>)
             /\ todo' = Tail(todo)
             /\ UNCHANGED <<g, roots>>

Top == stack[Len(stack)]

Descend == /\ stack # <<>> /\ Top.next <= Len(g[Top.id].children)
           /\ LET c == g[Top.id].children[Top.next]
                  advanced == [stack EXCEPT ![Len(stack)].next = @ + 1]
              IN CallEffect(c, advanced)
           /\ UNCHANGED <<g, roots, todo>>

Return == /\ stack # <<>> /\ Top.next > Len(g[Top.id].children)
          /\ memo' = memo \cup {Top.id}
          /\ stack' = SubSeq(stack, 1, Len(stack) - 1)
          /\ last' = [ev |-> "return", id |-> Top.id]
          /\ UNCHANGED <<g, roots, todo>>

Done == stack = <<>> /\ todo = <<>>
Next == StartRoot \/ Descend \/ Return

OnStack == {stack[i].id : i \in 1..Len(stack)}
(* a type that registers early is never entered while it is on the stack; a named type over a
   container (type N []N) may be entered once more before the container's early registration cuts
   the recursion, never a third time *)
NoReenter == /\ \A i, j \in 1..Len(stack) : (i # j /\ g[stack[i].id].early) => stack[i].id # stack[j].id
             /\ \A id \in Ids : Cardinality({i \in 1..Len(stack) : stack[i].id = id}) <= 2
StackBounded == Len(stack) <= 2 * Cardinality(Ids)
EarlyRegistration == \A i \in 1..Len(stack) : g[stack[i].id].early => g[stack[i].id].regAs \in memo

RECURSIVE ReachFrom(_, _)
ReachFrom(frontier, seen) ==
    IF frontier \subseteq seen THEN seen
    ELSE LET new == frontier \ seen
         IN ReachFrom(UNION {{g[x].children[i] : i \in 1..Len(g[x].children)} : x \in new}, seen \cup new)
Reachable == ReachFrom({roots[i] : i \in 1..Len(roots)}, {})
ClosedAtDone == Done => Reachable \subseteq memo
=============================================================================
