----------------------------- MODULE Formatters -----------------------------
(* C20 — generator.Formatters: a mutex-guarded lazy probe cache shared by goroutines.

   Code (generator/formatters.go), per request FormatFile(format, file):
       has<Tool>():  lock; if has == nil { probe := run(<probe command>); has = (probe ok) }; unlock
       if has { return run(<format command> file) }      -- outside the lock
       return nil

   One action per critical section / external process boundary:
     Call          the goroutine enters FormatFile
     AcquireProbe  lock taken, cache empty: the probe process is started      (event probe_start)
     ProbeEnd      probe process ended; cache written; still inside the lock   (event probe_end)
     AcquireHit    lock taken, cache filled: nothing to do                     (silent)
     Release       unlock; decides between running the formatter and returning (silent)
     RunStart      formatter process started                                   (event run_start)
     RunEnd        formatter process ended                                     (event run_end)
     Return        FormatFile returns                                          (event return)
*)
EXTENDS Naturals, Sequences, FiniteSets, TLC

CONSTANTS Procs,     \* goroutines
          Tools,     \* subset of {"go","dart","ts","psql"}
          MaxReq     \* requests per goroutine

None == 0   \* Procs are positive integers
AvailDom == {"ok", "missing", "runfail"}

VARIABLES avail,    \* [Tools -> AvailDom]         environment: what the external tools do
          pc,       \* [Procs -> program counter]
          req,      \* [Procs -> Tools]            tool of the current request
          nreq,     \* [Procs -> Nat]              requests issued so far
          lock,     \* Procs \cup {None}           Formatters.lock
          has,      \* [Tools -> {"unknown","yes","no"}]   Formatters.has*Fmt
          probes,   \* [Tools -> Nat]              probe processes started so far
          runs,     \* [Procs -> Nat]              formatter processes started for the current request
          ret,      \* [Procs -> {"pending","nil","err"}]
          touched   \* [Procs -> BOOLEAN]          the file of the current request was rewritten

vars == <<avail, pc, req, nreq, lock, has, probes, runs, ret, touched>>

Init == /\ avail \in [Tools -> AvailDom]
        /\ pc = [p \in Procs |-> "idle"]
        /\ req \in [Procs -> Tools]
        /\ nreq = [p \in Procs |-> 0]
        /\ lock = None
        /\ has = [t \in Tools |-> "unknown"]
        /\ probes = [t \in Tools |-> 0]
        /\ runs = [p \in Procs |-> 0]
        /\ ret = [p \in Procs |-> "pending"]
        /\ touched = [p \in Procs |-> FALSE]

Call(p, t) == /\ pc[p] \in {"idle", "done"} /\ nreq[p] < MaxReq
              /\ pc' = [pc EXCEPT ![p] = "want"]
              /\ req' = [req EXCEPT ![p] = t]
              /\ nreq' = [nreq EXCEPT ![p] = @ + 1]
              /\ runs' = [runs EXCEPT ![p] = 0]
              /\ ret' = [ret EXCEPT ![p] = "pending"]
              /\ touched' = [touched EXCEPT ![p] = FALSE]
              /\ UNCHANGED <<avail, lock, has, probes>>

AcquireProbe(p) == /\ pc[p] = "want" /\ lock = None /\ has[req[p]] = "unknown"
                   /\ lock' = p
                   /\ pc' = [pc EXCEPT ![p] = "probing"]
                   /\ probes' = [probes EXCEPT ![req[p]] = @ + 1]
                   /\ UNCHANGED <<avail, req, nreq, has, runs, ret, touched>>

ProbeEnd(p) == /\ pc[p] = "probing" /\ lock = p
               /\ has' = [has EXCEPT ![req[p]] = IF avail[req[p]] = "missing" THEN "no" ELSE "yes"]
               /\ pc' = [pc EXCEPT ![p] = "decided"]
               /\ UNCHANGED <<avail, req, nreq, lock, probes, runs, ret, touched>>

AcquireHit(p) == /\ pc[p] = "want" /\ lock = None /\ has[req[p]] # "unknown"
                 /\ lock' = p
                 /\ pc' = [pc EXCEPT ![p] = "decided"]
                 /\ UNCHANGED <<avail, req, nreq, has, probes, runs, ret, touched>>

Release(p) == /\ pc[p] = "decided" /\ lock = p
              /\ lock' = None
              /\ pc' = [pc EXCEPT ![p] = IF has[req[p]] = "yes" THEN "torun" ELSE "toreturn"]
              /\ ret' = [ret EXCEPT ![p] = IF has[req[p]] = "yes" THEN "pending" ELSE "nil"]
              /\ UNCHANGED <<avail, req, nreq, has, probes, runs, touched>>

RunStart(p) == /\ pc[p] = "torun"
               /\ pc' = [pc EXCEPT ![p] = "running"]
               /\ runs' = [runs EXCEPT ![p] = @ + 1]
               /\ UNCHANGED <<avail, req, nreq, lock, has, probes, ret, touched>>

RunEnd(p) == /\ pc[p] = "running"
             /\ ret' = [ret EXCEPT ![p] = IF avail[req[p]] = "runfail" THEN "err" ELSE "nil"]
             /\ touched' = [touched EXCEPT ![p] = (avail[req[p]] = "ok")]
             /\ pc' = [pc EXCEPT ![p] = "toreturn"]
             /\ UNCHANGED <<avail, req, nreq, lock, has, probes, runs>>

Return(p) == /\ pc[p] = "toreturn"
             /\ pc' = [pc EXCEPT ![p] = "done"]
             /\ UNCHANGED <<avail, req, nreq, lock, has, probes, runs, ret, touched>>

Next == \E p \in Procs :
          \/ \E t \in Tools : Call(p, t)
          \/ AcquireProbe(p) \/ ProbeEnd(p) \/ AcquireHit(p) \/ Release(p)
          \/ RunStart(p) \/ RunEnd(p) \/ Return(p)

Fairness == \A p \in Procs : /\ WF_vars(AcquireProbe(p) \/ AcquireHit(p)) /\ WF_vars(ProbeEnd(p))
                             /\ WF_vars(Release(p)) /\ WF_vars(RunStart(p)) /\ WF_vars(RunEnd(p))
                             /\ WF_vars(Return(p))
Spec == Init /\ [][Next]_vars /\ Fairness

-----------------------------------------------------------------------------
TypeOK == /\ lock \in Procs \cup {None}
          /\ \A t \in Tools : has[t] \in {"unknown", "yes", "no"}

(* every read or write of the cache happens while holding the lock: the design-level counterpart
   of "no data race" (memory-level races are left to the Go race detector on the real runs) *)
AccessUnderLock == \A p \in Procs : pc[p] \in {"probing", "decided"} => lock = p
MutualExclusion == Cardinality({p \in Procs : pc[p] \in {"probing", "decided"}}) <= 1

ProbeAtMostOnce == \A t \in Tools : probes[t] <= 1
CacheTruthful == \A t \in Tools : has[t] # "unknown" => has[t] = (IF avail[t] = "missing" THEN "no" ELSE "yes")

AtReturn(p) == pc[p] \in {"toreturn", "done"}
RunOncePerRequestIfPresent == \A p \in Procs : AtReturn(p) => runs[p] = (IF avail[req[p]] = "missing" THEN 0 ELSE 1)
RunsBounded == \A p \in Procs : runs[p] <= 1
MissingIsNoop == \A p \in Procs : AtReturn(p) /\ avail[req[p]] = "missing" => ret[p] = "nil" /\ ~touched[p]
FailureReported == \A p \in Procs : AtReturn(p) /\ avail[req[p]] = "runfail" => ret[p] = "err"
SuccessReported == \A p \in Procs : AtReturn(p) /\ avail[req[p]] = "ok" => ret[p] = "nil" /\ touched[p]

(* the probe of a tool is never started once the cache knows the tool *)
NoProbeAfterKnown == [][\A t \in Tools : has[t] # "unknown" => probes'[t] = probes[t]]_vars

EveryCallReturns == \A p \in Procs : (pc[p] = "want") ~> (pc[p] = "done")
=============================================================================
