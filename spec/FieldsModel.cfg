SPECIFICATION Spec
INVARIANTS ModelAgrees ExportInv
POSTCONDITION ExportPost
