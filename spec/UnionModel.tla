----------------------------- MODULE UnionModel -----------------------------
(* C11 — analysis.fetchPkgUnions and Struct.setImplements as a state machine over one package,
   checked against UnionDef for every assignment of marker methods in a small scope.

   Code: candidates := all named types of the package in name order; for every interface among
   them: members := candidates that are not interfaces and implement it (types.Implements on the
   value type); interfaces without member are dropped.  After the walk, every analysed struct
   ranges over the unions *map* (arbitrary order) and collects the analysed unions listing it,
   then sorts them by name.  Map iteration order is explicit nondeterminism here.            *)
EXTENDS UnionDef, SequencesExt, Json, IOUtils

CONSTANTS NIfaces, NTypes, Methods

IfaceNames == <<"Animal", "Shape">>            \* in Go string order
TypeNames == <<"Box", "Cat", "Zebra">>        \* in Go string order
Kinds == <<"struct", "basic", "struct">>

Recv == {"none", "value", "pointer"}
(* one core = which methods each interface demands, and with which receiver each type declares them *)
CoreSpace == [need : [1..NIfaces -> SUBSET Methods], recv : [1..NTypes -> [Methods -> Recv]]]

IfaceOf(core, i) == [key |-> "p." \o IfaceNames[i], pkg |-> "p", name |-> IfaceNames[i], nrank |-> i,
                     methods |-> SetToSeq(core.need[i])]
TypeOf(core, j) == [key |-> "p." \o TypeNames[j], pkg |-> "p", name |-> TypeNames[j], nrank |-> j, kind |-> Kinds[j],
                    vmethods |-> SetToSeq({m \in Methods : core.recv[j][m] = "value"}),
                    pmethods |-> SetToSeq({m \in Methods : core.recv[j][m] = "pointer"})]
IfacesOf(core) == [i \in 1..NIfaces |-> IfaceOf(core, i)]
TypesOf(core) == [j \in 1..NTypes |-> TypeOf(core, j)]

VARIABLES core, phase,
          nextIface,   \* index of the next interface visited by fetchPkgUnions
          unions,      \* function: iface key -> sequence of member keys (the unionsMap)
          pending,     \* per struct: union keys not yet visited by the range over the map
          collected,   \* per struct: unions collected so far, in visiting order
          impl         \* per struct: Struct.Implements
vars == <<core, phase, nextIface, unions, pending, collected, impl>>

StructKeys == {TypeOf(core, j).key : j \in {k \in 1..NTypes : Kinds[k] = "struct"}}

Init == /\ core \in CoreSpace
        /\ phase = "fetch" /\ nextIface = 1
        /\ unions = <<>>  (* empty function *)
        /\ pending = <<>> /\ collected = <<>> /\ impl = <<>>

MembersOf(i) == SelectSeq([j \in 1..NTypes |-> TypeOf(core, j)], LAMBDA t : Implements(t, IfaceOf(core, i)))

FetchIface == /\ phase = "fetch" /\ nextIface <= NIfaces
              /\ LET ms == MembersOf(nextIface) IN
                   unions' = IF ms = <<>> THEN unions
                             ELSE [k \in (DOMAIN unions) \cup {IfaceOf(core, nextIface).key} |->
                                     IF k = IfaceOf(core, nextIface).key THEN [x \in 1..Len(ms) |-> ms[x].key] ELSE unions[k]]
              /\ nextIface' = nextIface + 1
              /\ UNCHANGED <<core, phase, pending, collected, impl>>

FetchDone == /\ phase = "fetch" /\ nextIface > NIfaces
             /\ phase' = "implements"
             /\ pending' = [s \in StructKeys |-> DOMAIN unions]
             /\ collected' = [s \in StructKeys |-> <<>>]
             /\ UNCHANGED <<core, nextIface, unions, impl>>

(* one iteration of `for unionName, v := range unions` for struct s: any not yet visited key *)
RangeMapStep(s) == /\ phase = "implements" /\ pending[s] # {}
                   /\ \E u \in pending[s] :
                        /\ pending' = [pending EXCEPT ![s] = @ \ {u}]
                        /\ collected' = [collected EXCEPT ![s] = IF s \in Range(unions[u]) THEN Append(@, u) ELSE @]
                   /\ UNCHANGED <<core, phase, nextIface, unions, impl>>

IfaceRank(k) == RankOfIface(k, IfacesOf(core))
SortImplements == /\ phase = "implements" /\ \A s \in StructKeys : pending[s] = {}
                  /\ impl' = [s \in StructKeys |-> SortSeq(collected[s], LAMBDA a, b : IfaceRank(a) < IfaceRank(b))]
                  /\ phase' = "done"
                  /\ UNCHANGED <<core, nextIface, unions, pending, collected>>

Next == FetchIface \/ FetchDone \/ (\E s \in StructKeys : RangeMapStep(s)) \/ SortImplements
Spec == Init /\ [][Next]_vars

ObservedUnion(i) == LET k == IfaceOf(core, i).key IN
                    IF k \in DOMAIN unions THEN [iface |-> k, outcome |-> "union", members |-> unions[k]]
                    ELSE [iface |-> k, outcome |-> "refused", members |-> <<>>]

ModelUnionsExact == phase = "done" =>
    \A i \in 1..NIfaces : UnionVerdict(IfaceOf(core, i), TypesOf(core), ObservedUnion(i)) = ""
ModelImplementsExact == phase = "done" =>
    \A s \in StructKeys : StructVerdict([key |-> s, implements |-> impl[s]], IfacesOf(core), TypesOf(core), DOMAIN unions) = ""

ASSUME TLCSet(1, <<>>)
ExportInv == (phase = "fetch" /\ nextIface = 1) =>
    TLCSet(1, Append(TLCGet(1), [ifaces |-> IfacesOf(core), types |-> TypesOf(core)]))
ExportPost == ndJsonSerialize(IOEnv.VERIF_EXPORT, TLCGet(1))
=============================================================================
