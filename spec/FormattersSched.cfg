SPECIFICATION SSpec
CONSTANTS
  Procs = {1, 2, 3}
  Tools = {"go", "dart", "ts", "psql"}
  MaxReq = 2
INVARIANTS ExportInv AccessUnderLock ProbeAtMostOnce
POSTCONDITION ExportPost
