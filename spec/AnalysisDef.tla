---------------------------- MODULE AnalysisDef ----------------------------
(* C12 — "the analysed type graph is closed, faithful and finite", stated on two dumps of the same
   source file:

   oracle : what go/types reports — one record per Go type reachable from the source declarations
            through fields (embedded structs flattened), elements, keys, underlying types and union
            members:  [key, canon, reg, kind, len, basic, date, children (keys), fnames]
            (canon = key of the type once aliases are resolved; reg = expected as a key of the
             result: everything except the predefined Time / Date reached under a named time type)
   the analysis result:
     types  : one record per entry of Analysis.Types: [key, node (id), identical]
              identical = go/types says Type(node) is identical to the type it is registered under
              (time and date: reported as the predefined Time / Date)
     nodes  : one record per node object reachable from the result: [id, tkey, kind, len, basic, date, children (ids), fnames]
     source / obsSource : expected and reported top-level declarations of the file, in order

   kinds: basic | time | array | slice | map | pointer | named | enum | struct | union          *)
EXTENDS Integers, Sequences, FiniteSets, TLC

Range(s) == {s[i] : i \in 1..Len(s)}

OracleOf(rec, key) == CHOOSE o \in Range(rec.oracle) : o.key = key
InOracle(rec, key) == \E o \in Range(rec.oracle) : o.key = key
NodeOf(rec, id) == CHOOSE n \in Range(rec.nodes) : n.id = id
HasNode(rec, id) == \E n \in Range(rec.nodes) : n.id = id

IsNamedKind(k) == k \in {"named", "enum", "struct", "union"}

(* a node describes the Go type o, looking one level deep *)
Shallow(n, o) == /\ n.kind = o.kind /\ n.len = o.len /\ n.basic = o.basic /\ n.date = o.date
                 /\ (IsNamedKind(o.kind) => n.tkey = o.canon)

Matches(rec, n, o) ==
    /\ Shallow(n, o)
    /\ n.fnames = o.fnames
    /\ Len(n.children) = Len(o.children)
    /\ \A i \in 1..Len(o.children) :
          /\ HasNode(rec, n.children[i])                               \* no nil link
          /\ InOracle(rec, o.children[i])
          /\ Shallow(NodeOf(rec, n.children[i]), OracleOf(rec, o.children[i]))

Closed(rec) == \A o \in Range(rec.oracle) : o.reg => \E t \in Range(rec.types) : t.key = o.key
Faithful(rec) == \A t \in Range(rec.types) :
                    InOracle(rec, t.key) => (HasNode(rec, t.node) /\ Matches(rec, NodeOf(rec, t.node), OracleOf(rec, t.key)))
RoundTrip(rec) == \A t \in Range(rec.types) : t.identical
(* every node reachable by following links describes the Go type at that position: the shallow
   check of Matches applied at every reachable node, plus its own description by its own type *)
LinksConsistent(rec) == \A n \in Range(rec.nodes) :
                           InOracle(rec, n.tkey) => Matches(rec, n, OracleOf(rec, n.tkey))
SourceOrder(rec) == rec.obsSource = rec.source

(* the same, by POSITION: starting from every registered (node, type) pair and following the links of the node and of
   the Go type in parallel, every pair met on the way must match - also when the node cannot say itself which type
   it stands for (a placeholder left in a cycle has no key and no element: its own Type() fails)                    *)
Step(rec, S) ==
    S \cup UNION {
        LET n == NodeOf(rec, p[1])  o == OracleOf(rec, p[2]) IN
        IF Len(n.children) # Len(o.children) THEN {}
        ELSE {<<n.children[i], o.children[i]>> : i \in 1..Len(o.children)}
      : p \in {q \in S : HasNode(rec, q[1]) /\ InOracle(rec, q[2])} }
RECURSIVE Reach(_, _)
Reach(rec, S) == LET T == Step(rec, S) IN IF T = S THEN S ELSE Reach(rec, T)
Positions(rec) == Reach(rec, {<<t.node, t.key>> : t \in {x \in Range(rec.types) : InOracle(rec, x.key)}})
BadPositions(rec) == {p \in Positions(rec) : ~(HasNode(rec, p[1]) /\ InOracle(rec, p[2]) /\ Matches(rec, NodeOf(rec, p[1]), OracleOf(rec, p[2])))}
PositionsConsistent(rec) == BadPositions(rec) = {}

Missing(rec) == {o.key : o \in {x \in Range(rec.oracle) : x.reg /\ ~\E t \in Range(rec.types) : t.key = x.key}}
Unfaithful(rec) == {t.key : t \in {x \in Range(rec.types) :
                       InOracle(rec, x.key) /\ ~(HasNode(rec, x.node) /\ Matches(rec, NodeOf(rec, x.node), OracleOf(rec, x.key)))}}
NotIdentical(rec) == {t.key : t \in {x \in Range(rec.types) : ~x.identical}}
BadLinks(rec) == {n.tkey : n \in {x \in Range(rec.nodes) : InOracle(rec, x.tkey) /\ ~Matches(rec, x, OracleOf(rec, x.tkey))}}
One(S) == CHOOSE x \in S : TRUE

FinalVerdict(rec) ==
    IF ~Closed(rec) THEN "a reachable type is missing from the analysis result: " \o One(Missing(rec))
    ELSE IF ~Faithful(rec) THEN "a registered node does not describe the Go type it is registered for (kind, length, key/element, basic kind, fields): " \o One(Unfaithful(rec))
    ELSE IF ~RoundTrip(rec) THEN "converting a node back to a Go type does not give the type it was built from: " \o One(NotIdentical(rec))
    ELSE IF ~LinksConsistent(rec) THEN "a node reached through links does not describe the Go type at that position: " \o One(BadLinks(rec))
    ELSE IF ~PositionsConsistent(rec) THEN "a node reached through links does not describe the Go type at that position: " \o One(BadPositions(rec))[2]
    ELSE IF ~SourceOrder(rec) THEN "source declarations not reported in source order"
    ELSE ""
=============================================================================
