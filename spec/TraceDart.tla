------------------------------ MODULE TraceDart ------------------------------
(* Conformance for C06 (verdict style): one line = one analysed source set with the projection of
   every generated Dart file and the expectations derived from go/types.  No Dart SDK is available:
   the routines are interpreted abstractly (keys read / written, dispatch tables, value tables). *)
EXTENDS DartSem, Json, IOUtils

Trace == ndJsonDeserialize(IOEnv.VERIF_TRACE)
VARIABLE l

FirstNonEmpty(s) == IF \E i \in 1..Len(s) : s[i] # "" THEN s[CHOOSE i \in 1..Len(s) : s[i] # "" /\ \A j \in 1..(i - 1) : s[j] = ""] ELSE ""

Why(rec) ==
    IF rec.outcome # "ok" THEN "the Dart generator did not complete: " \o rec.outcome
    ELSE IF rec.syntax # "" THEN "harness: Dart output not understood: " \o rec.syntax
    ELSE LET fs == rec.files IN
    FirstNonEmpty(<<LinkWhy(fs), PlacementWhy(fs, rec)>>
                  \o [i \in 1..Len(rec.structs) |-> StructWhy(fs, rec.structs[i])]
                  \o [i \in 1..Len(rec.unions) |-> UnionWhy(fs, rec.unions[i])]
                  \o [i \in 1..Len(rec.enums) |-> EnumWhy(fs, rec.enums[i])]
                  \o [i \in 1..Len(rec.structs) |-> NullWhy(fs, rec.structs[i])]
                  \o [i \in 1..Len(rec.structs) |-> KeyWhy(fs, rec.structs[i])])

TraceInit == l = 1 /\ TLCSet(1, <<>>)
Consume == /\ l <= Len(Trace)
           /\ LET w == Why(Trace[l]) IN
                IF w = "" THEN TRUE ELSE TLCSet(1, Append(TLCGet(1), [case |-> Trace[l].case, why |-> w]))
           /\ l' = l + 1
TraceSpec == TraceInit /\ [][Consume]_l
Post == /\ TLCGet("stats").diameter - 1 = Len(Trace)
        /\ ndJsonSerialize(IOEnv.VERIF_OUT, <<[consumed |-> Len(Trace)]>> \o TLCGet(1))
=============================================================================
