SPECIFICATION TraceSpec
POSTCONDITION Post
