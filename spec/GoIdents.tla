------------------------------ MODULE GoIdents ------------------------------
(* C01, design level — the top-level identifiers the gounions generator defines, as functions of
   the unions of a package, and the invariant a Go package needs: no identifier defined twice.

   gounions (jsonForUnion): for a union U it declares the type U+"Wrapper" and, for every member M,
   the constant  M + U[0:2] + "Kind"   (since the fix: the whole name when it is shorter than 2).
   Two unions whose names share their first two letters and that share a member therefore declare
   the same constant twice: the recorded finding KnownClash carves exactly that class out, so TLC
   shows every other assignment of members to be clash-free.                                  *)
EXTENDS Naturals, Sequences, FiniteSets, TLC

CONSTANTS UnionNames, MemberNames

Prefix2(n) == IF Len(n) > 2 THEN SubSeq(n, 1, 2) ELSE n
Defines(u, members) == {u \o "Wrapper"} \cup {m \o Prefix2(u) \o "Kind" : m \in members}

VARIABLES unions, done     \* unions : [UnionNames -> SUBSET MemberNames]
Init == unions \in [UnionNames -> SUBSET MemberNames] /\ done = FALSE
Next == ~done /\ done' = TRUE /\ UNCHANGED unions
Spec == Init /\ [][Next]_<<unions, done>>

Live == {u \in UnionNames : unions[u] # {}}
KnownClash == \E u1, u2 \in Live : u1 # u2 /\ Prefix2(u1) = Prefix2(u2) /\ unions[u1] \cap unions[u2] # {}
NoDuplicateIdent == ~KnownClash =>
    \A u1, u2 \in Live : u1 # u2 => Defines(u1, unions[u1]) \cap Defines(u2, unions[u2]) = {}
NoClashWithTypes == \A u \in Live : Defines(u, unions[u]) \cap (UnionNames \cup MemberNames) = {}
=============================================================================
