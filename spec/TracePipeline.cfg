SPECIFICATION TraceSpec
CONSTRAINT HWM
INVARIANTS FormatAfterWrite DoneMeansAllFormatted NoDoneAfterFailure CrashOnlyOnFailure ProbeAtMostOnce Mutex CacheTruthful ProbeOnlyNeeded
POSTCONDITION Post
