----------------------------- MODULE PgDDLModel -----------------------------
(* Design-level run and input universe for C08 (and the model files of C16 / C05 / C01).

   Env0 is the fixed set of type declarations the columns refer to (the harness renders it to Go:
   it is the single source of truth for both sides); Universe is the set of column specifications:
   every column kind the analysis recognises, plus guard and foreign-key variants.  TLC checks that
   the documented mapping (PgDDL!ColumnOf) is total and internally consistent on it, and exports it. *)
EXTENDS PgDDL, Json, IOUtils

B(n) == [k |-> "basic", name |-> n]
R(key) == [k |-> "ref", key |-> key]
Sl(e) == [k |-> "slice", elem |-> e]
Ar(n, e) == [k |-> "array", len |-> n, elem |-> e]
TimeTE == [k |-> "time"]
NoTE == [k |-> "none"]

D(key, kind, local, islocal, under, date, values, names, fields) ==
    [key |-> key, k |-> kind, local |-> local, islocal |-> islocal, under |-> under, date |-> date, values |-> values, names |-> names, fields |-> fields]
F(n, te) == [name |-> n, te |-> te]

Env0 == <<
    D("Label", "named", "Label", TRUE, B("string"), FALSE, <<>>, <<>>, <<>>),
    D("Count", "named", "Count", TRUE, B("int"), FALSE, <<>>, <<>>, <<>>),
    D("Small", "named", "Small", TRUE, B("uint8"), FALSE, <<>>, <<>>, <<>>),
    D("IdOther", "named", "IdOther", TRUE, B("int64"), FALSE, <<>>, <<>>, <<>>),
    D("ParentId", "named", "ParentId", TRUE, B("int64"), FALSE, <<>>, <<>>, <<>>),
    D("IdHTTPOwner", "named", "IdHTTPOwner", TRUE, B("int64"), FALSE, <<>>, <<>>, <<>>),   \* its table struct lives in ANOTHER file of the package
    D("MyDate", "named", "MyDate", TRUE, TimeTE, TRUE, <<>>, <<>>, <<>>),
    D("Stamp", "named", "Stamp", TRUE, TimeTE, FALSE, <<>>, <<>>, <<>>),
    D("RawBytes", "named", "RawBytes", TRUE, Sl(B("byte")), FALSE, <<>>, <<>>, <<>>),
    D("Digest", "named", "Digest", TRUE, Sl(B("uint8")), FALSE, <<>>, <<>>, <<>>),
    D("IntList", "named", "IntList", TRUE, Sl(B("int")), FALSE, <<>>, <<>>, <<>>),
    D("Names", "named", "Names", TRUE, Sl(B("string")), FALSE, <<>>, <<>>, <<>>),
    D("Triple", "named", "Triple", TRUE, Ar(3, B("int32")), FALSE, <<>>, <<>>, <<>>),
    D("Flags", "named", "Flags", TRUE, [k |-> "map"], FALSE, <<>>, <<>>, <<>>),
    D("Kinds", "named", "Kinds", TRUE, Sl(R("Kind")), FALSE, <<>>, <<>>, <<>>),
    D("Kind", "enum", "Kind", TRUE, B("int"), FALSE, <<"0", "1", "2">>, <<"KA", "KB", "kc">>, <<>>),
    D("Color", "enum", "Color", TRUE, B("string"), FALSE, <<"'red'", "'blue'">>, <<"Red", "Blue">>, <<>>),
    \* values that need care in an SQL literal: a quote (doubled), a double quote, a backslash (literal in standard SQL strings)
    D("Sep", "enum", "Sep", TRUE, B("string"), FALSE, <<"'a'", "'it''s'", "'say \"hi\"'", "'C:\\temp'">>, <<"SepA", "SepTick", "SepQuote", "SepBack">>, <<>>),
    D("Tiny", "enum", "Tiny", TRUE, B("uint8"), FALSE, <<"0", "1">>, <<"T0", "T1">>, <<>>),
    D("Rank", "enum", "Rank", TRUE, B("int32"), FALSE, <<"1", "2">>, <<"R1", "R2">>, <<>>),
    D("Prio", "enum", "Prio", TRUE, B("int64"), FALSE, <<"0", "5">>, <<"P0", "P5">>, <<>>),
    D("Ranks", "named", "Ranks", TRUE, Sl(R("Rank")), FALSE, <<>>, <<>>, <<>>),
    D("Prios", "named", "Prios", TRUE, Ar(2, R("Prio")), FALSE, <<>>, <<>>, <<>>),
    D("OptId", "struct", "OptId", TRUE, NoTE, FALSE, <<>>, <<>>, <<F("Valid", B("bool")), F("ID", R("IdOther"))>>),
    D("OptRev", "struct", "OptRev", TRUE, NoTE, FALSE, <<>>, <<>>, <<F("N", B("int64")), F("Valid", B("bool"))>>),
    D("OptDate", "struct", "OptDate", TRUE, NoTE, FALSE, <<>>, <<>>, <<F("Valid", B("bool")), F("D", R("MyDate"))>>),
    D("OptList", "struct", "OptList", TRUE, NoTE, FALSE, <<>>, <<>>, <<F("Valid", B("bool")), F("L", Sl(B("string")))>>),
    D("Comp", "struct", "Comp", TRUE, NoTE, FALSE, <<>>, <<>>, <<F("A", B("int")), F("B", B("uint8")), F("C", R("Kind"))>>),
    D("Wide", "struct", "Wide", TRUE, NoTE, FALSE, <<>>, <<>>, <<F("X", B("int64")), F("Y", B("int16"))>>),
    D("Data", "struct", "Data", TRUE, NoTE, FALSE, <<>>, <<>>, <<F("S", B("string")), F("N", B("int"))>>),
    D("Mixed", "struct", "Mixed", TRUE, NoTE, FALSE, <<>>, <<>>, <<F("A", B("int")), F("C", R("Count"))>>),
    D("sql.NullInt64", "struct", "NullInt64", FALSE, NoTE, FALSE, <<>>, <<>>, <<F("Int64", B("int64")), F("Valid", B("bool"))>>),
    D("sql.NullString", "struct", "NullString", FALSE, NoTE, FALSE, <<>>, <<>>, <<F("String", B("string")), F("Valid", B("bool"))>>),
    D("sql.NullTime", "struct", "NullTime", FALSE, NoTE, FALSE, <<>>, <<>>, <<F("Time", TimeTE), F("Valid", B("bool"))>>),
    D("time.Duration", "named", "Duration", FALSE, B("int64"), FALSE, <<>>, <<>>, <<>>),
    D("sub.Level", "enum", "Level", FALSE, B("int"), FALSE, <<"0", "1">>, <<"Low", "High">>, <<>>),
    D("sub.Pair", "struct", "Pair", FALSE, NoTE, FALSE, <<>>, <<>>, <<F("X", B("int")), F("Y", B("int"))>>)
>>

Basics == {B(n) : n \in {"bool", "int", "int8", "int16", "int32", "int64", "uint8", "uint16", "uint", "float64", "float32", "string"}}
Refs == {R(Env0[i].key) : i \in 1..Len(Env0)}
Containers == {Sl(e) : e \in {B("int"), B("string"), B("bool"), B("float64"), B("int16"), B("byte"), B("uint8"), R("Kind"), R("Color"), R("Data"), R("Label")}}
              \cup {Ar(2, B("bool")), Ar(4, B("int")), Ar(2, R("Kind"))}
              \cup {[k |-> "map"], [k |-> "union"], TimeTE, Sl(Sl(B("int")))}
KindsU == Basics \cup Refs \cup Containers

NoGuard == [k |-> "none"]
Spec0(te) == [te |-> te, exported |-> TRUE, guard |-> NoGuard, foreign |-> "", ondelete |-> "", jsondash |-> FALSE]
Universe ==
    {Spec0(te) : te \in KindsU}
    \cup {[Spec0(B("int")) EXCEPT !.jsondash = TRUE]}
    \cup {[Spec0(te) EXCEPT !.exported = e, !.guard = g] : te \in {B("int")}, e \in BOOLEAN, g \in {[k |-> "lit", v |-> "1"]}}
    \cup {[Spec0(R("Kind")) EXCEPT !.exported = e, !.guard = [k |-> "enum", type |-> "Kind", const |-> "KB"]] : e \in BOOLEAN}
    \cup {[Spec0(te) EXCEPT !.foreign = "Other", !.ondelete = od] : te \in {B("int64"), R("sql.NullInt64"), R("OptId")}, od \in {"", "CASCADE", "SET NULL"}}
    \cup {[Spec0(R("IdOther")) EXCEPT !.ondelete = od] : od \in {"", "CASCADE"}}
    \cup {[Spec0(B("int64")) EXCEPT !.foreign = "HTTPOwner", !.ondelete = "CASCADE"]}   \* (keys to a table declared in another file)

VARIABLES spec, done
Init == spec \in Universe /\ done = FALSE
Next == ~done /\ done' = TRUE /\ UNCHANGED spec
Spec == Init /\ [][Next]_<<spec, done>>

Col == ColumnOf(Env0, spec.te)
Total == SubSeq(Col.type, 1, 1) # "?"
JsonIffChecked == (Col.type = "jsonb") <=> (Col.check.k = "json")
NullableOnlyWhenDocumented ==
    ~Col.notnull => (IsNullXXX(Env0, Resolve(Env0, spec.te)) \/ Resolve(Env0, spec.te).k = "slice")
EnumCarriesCheck == IsEnum(Env0, spec.te) => Col.check.k = "in" /\ Col.check.vals # <<>>

ASSUME TLCSet(1, <<>>)
ExportInv == ~done => TLCSet(1, Append(TLCGet(1), [spec |-> spec]))
ExportPost == ndJsonSerialize(IOEnv.VERIF_EXPORT, <<[env |-> Env0]>> \o TLCGet(1))
=============================================================================
