SPECIFICATION TraceSpec
POSTCONDITION Post
