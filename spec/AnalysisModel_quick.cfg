SPECIFICATION MSpec
CONSTANTS
  MaxFields = 1
INVARIANTS NoReenter StackBounded EarlyRegistration ClosedAtDone ExportInv
POSTCONDITION ExportPost
