SPECIFICATION Spec
CONSTANTS
  NTypes = 5
INVARIANT Deterministic
