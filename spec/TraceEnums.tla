----------------------------- MODULE TraceEnums -----------------------------
(* Conformance for C10 (verdict style): one line = one synthesised package tree (abstract types
   and constants, as rendered to Go by the harness) + what the real analysis reported for each of
   its named basic types.                                                                  *)
EXTENDS EnumDef, Json, IOUtils

Trace == ndJsonDeserialize(IOEnv.VERIF_TRACE)
VARIABLE l

ObsFor(rec, key) == CHOOSE o \in Range(rec.observed) : o.type = key

CaseVerdicts(rec) ==
    IF rec.outcome # "ok" THEN <<[case |-> rec.case, type |-> "", why |-> "analysis did not complete: " \o rec.outcome \o " " \o rec.msg]>>
    ELSE LET bad == SelectSeq(rec.types, LAMBDA ty :
                      (\E o \in Range(rec.observed) : o.type = ty.key)
                      /\ TypeVerdict(ty, rec.consts, ObsFor(rec, ty.key)) # "")
             missing == SelectSeq(rec.types, LAMBDA ty : ~\E o \in Range(rec.observed) : o.type = ty.key)
         IN [i \in 1..Len(bad) |-> [case |-> rec.case, type |-> bad[i].key,
                                    why |-> TypeVerdict(bad[i], rec.consts, ObsFor(rec, bad[i].key))]]
            \o [i \in 1..Len(missing) |-> [case |-> rec.case, type |-> missing[i].key, why |-> "harness: type not observed"]]

TraceInit == l = 1 /\ TLCSet(1, <<>>)
Consume == /\ l <= Len(Trace)
           /\ LET v == CaseVerdicts(Trace[l]) IN IF v = <<>> THEN TRUE ELSE TLCSet(1, TLCGet(1) \o v)
           /\ l' = l + 1
TraceSpec == TraceInit /\ [][Consume]_l
Post == /\ TLCGet("stats").diameter - 1 = Len(Trace)
        /\ ndJsonSerialize(IOEnv.VERIF_OUT, <<[consumed |-> Len(Trace)]>> \o TLCGet(1))
=============================================================================
