------------------------------ MODULE UnionDef ------------------------------
(* C11 — what "union detection and membership are exact" means over an abstract package tree.

   ifaces : sequence of [key, pkg, name, nrank, methods]     named interfaces (methods: sequence of names)
   types  : sequence of [key, pkg, name, nrank, kind, vmethods, pmethods]   named non-interface types;
            vmethods / pmethods: methods declared with a value / pointer receiver
   nrank is the rank of the local name in Go string order (only used to state "in name order").
   The method set of a named type T (not *T) holds the value-receiver methods only.           *)
EXTENDS Integers, Sequences, FiniteSets, TLC

Range(s) == {s[i] : i \in 1..Len(s)}

Implements(ty, itf) == Range(itf.methods) \subseteq Range(ty.vmethods)

(* members: the non-interface named types of the interface's own package whose method set implements it *)
ExpectedMemberKeys(itf, types) == {ty.key : ty \in {t \in Range(types) : t.pkg = itf.pkg /\ Implements(t, itf)}}
ExpectedIsUnion(itf, types) == ExpectedMemberKeys(itf, types) # {}

RankOfType(key, types) == (CHOOSE t \in Range(types) : t.key = key).nrank
RankOfIface(key, ifaces) == (CHOOSE i \in Range(ifaces) : i.key = key).nrank

StrictlyIncreasing(ranks) == \A i \in 1..(Len(ranks) - 1) : ranks[i] < ranks[i + 1]

(* observed union: o = [iface, outcome \in {"union","refused","crash"}, members : sequence of keys] *)
UnionVerdict(itf, types, o) ==
    IF o.outcome = "crash" THEN "analysis of the interface crashed"
    ELSE IF ExpectedIsUnion(itf, types) /\ o.outcome # "union" THEN "interface with implementers in its package is not a union"
    ELSE IF ~ExpectedIsUnion(itf, types) /\ o.outcome = "union" THEN "interface without implementer in its own package is a union"
    ELSE IF o.outcome # "union" THEN ""
    ELSE IF Range(o.members) # ExpectedMemberKeys(itf, types) THEN "members are not exactly the implementing types of the package"
    ELSE IF \E k \in Range(o.members) : ~\E t \in Range(types) : t.key = k THEN "harness: unknown member"
    ELSE IF ~StrictlyIncreasing([i \in 1..Len(o.members) |-> RankOfType(o.members[i], types)]) THEN "members not once each in name order"
    ELSE ""

(* observed struct node: s = [key, implements : sequence of iface keys]; analysed = keys of the unions
   present in the analysis result *)
ExpectedImplements(skey, ifaces, types, analysed) ==
    {i.key : i \in {j \in Range(ifaces) : j.key \in analysed /\ skey \in ExpectedMemberKeys(j, types)}}

StructVerdict(s, ifaces, types, analysed) ==
    IF Range(s.implements) # ExpectedImplements(s.key, ifaces, types, analysed)
      THEN "struct does not report exactly the analysed unions that list it"
    ELSE IF ~StrictlyIncreasing([i \in 1..Len(s.implements) |-> RankOfIface(s.implements[i], ifaces)])
      THEN "implemented unions not once each in name order"
    ELSE ""
=============================================================================
