----------------------------- MODULE TraceCrud -----------------------------
(* Conformance for C05: histories of calls of the REAL generated CRUD functions, executed against a
   database implementing exactly the generated schema (harness/internal/pgmini, loaded from the SQL
   generator's output), are replayed on the map model of CrudDef.  One line = one event:
     reset : a fresh database; carries the table descriptions (meta)
     call  : one generated function, with canonical arguments, returned rows / ids, error class.
   The model state (db, next) is carried by TLC; every call is judged against the model's
   prediction, and the model then takes the step it predicts.  After a mismatch the rest of the
   session is skipped (the two sides may have diverged) — the next reset resumes judging.        *)
EXTENDS CrudDef, Json, IOUtils

Trace == ndJsonDeserialize(IOEnv.VERIF_TRACE)
VARIABLES l, meta, db, next, dead

Row(e) == [id |-> e.id, c |-> e.c]
OutRows(ev) == [i \in 1..Len(ev.out) |-> Row(ev.out[i])]
SeqSet(s) == {s[i] : i \in 1..Len(s)}

\* the verdict and the successor state of one call: [why, db, next]
Judge(ev) ==
    LET t == Tbl(meta, ev.table)
        n == ev.table
        same == [why |-> "", db |-> db, next |-> next]
        Bad(w) == [why |-> ev.op \o " on " \o n \o ": " \o w, db |-> db, next |-> next]
        base == ev.op
        ExpectRows(pos) == IF ev.err # "" THEN Bad("SQL error on a legal call: " \o ev.err \o " " \o ev.msg)
                           ELSE IF ~SameBag(OutRows(ev), RowsAt(db, t, pos)) THEN Bad("returns " \o ToString(Len(ev.out)) \o " rows that are not the " \o ToString(Cardinality(pos)) \o " rows of the model")
                           ELSE same
        ExpectDelete(pos, byIds) ==
            LET res == DeleteAt(meta, db, t, pos) IN
            IF ~res.ok THEN (IF ev.err \in res.errs THEN same ELSE Bad("the model refuses the delete (a NO ACTION reference remains, or SET NULL on a NOT NULL column) but the call returned " \o (IF ev.err = "" THEN "no error" ELSE ev.err)))
            ELSE IF ev.err # "" THEN Bad("SQL error on a legal call: " \o ev.err \o " " \o ev.msg)
            ELSE IF byIds /\ SeqSet(ev.outids) # {db[n][i].id : i \in pos} THEN Bad("returned ids differ from the deleted rows of the model")
            ELSE IF byIds /\ Len(ev.outids) # Cardinality(pos) THEN Bad("returned ids are not distinct")
            ELSE IF ~byIds /\ ~SameBag(OutRows(ev), RowsAt(db, t, pos)) THEN Bad("returned rows differ from the deleted rows of the model")
            ELSE [why |-> "", db |-> res.db, next |-> next]
    IN
    IF ev.err = "other" THEN [why |-> "SQL error: " \o ev.msg \o " (in " \o ev.op \o " on " \o n \o ")", db |-> db, next |-> next] ELSE
    CASE base = "Insert" ->
            LET r == [id |-> IF t.primary THEN next[n] ELSE 0, c |-> ev.row]
                errs == WriteErrors(db, t, r, 0) IN
            IF errs # {} THEN (IF ev.err \in errs THEN same ELSE Bad("the model expects an error in " \o ToString(errs) \o ", the call returned " \o (IF ev.err = "" THEN "no error" ELSE ev.err \o " " \o ev.msg)))
            ELSE IF ev.err # "" THEN Bad("SQL error on a legal call: " \o ev.err \o " " \o ev.msg)
            ELSE IF t.primary /\ (Len(ev.out) # 1 \/ OutRows(ev)[1].c # ev.row) THEN Bad("the returned row differs from the inserted one")
            ELSE IF t.primary /\ (ev.out[1].id < next[n] \/ \E i \in 1..Len(db[n]) : db[n][i].id = ev.out[1].id) THEN Bad("the returned id is not fresh")
            ELSE [why |-> "", db |-> [db EXCEPT ![n] = Append(@, IF t.primary THEN [r EXCEPT !.id = ev.out[1].id] ELSE r)],
                  next |-> IF t.primary THEN [next EXCEPT ![n] = ev.out[1].id + 1] ELSE next]
      [] base = "InsertMany" ->
            LET Step[j \in 0..Len(ev.rows)] ==   \* [errs, db]
                    IF j = 0 THEN [errs |-> {}, db |-> db]
                    ELSE LET p == Step[j - 1] r == [id |-> 0, c |-> ev.rows[j]] IN
                         IF p.errs # {} THEN p
                         ELSE IF WriteErrors(p.db, t, r, 0) # {} THEN [errs |-> WriteErrors(p.db, t, r, 0), db |-> p.db]
                         ELSE [errs |-> {}, db |-> [p.db EXCEPT ![n] = Append(@, r)]]
                fin == Step[Len(ev.rows)] IN
            IF fin.errs # {} THEN (IF ev.err \in fin.errs THEN same ELSE Bad("the model expects an error in " \o ToString(fin.errs) \o ", the call returned " \o (IF ev.err = "" THEN "no error" ELSE ev.err \o " " \o ev.msg)))
            ELSE IF ev.err # "" THEN Bad("SQL error on a legal call: " \o ev.err \o " " \o ev.msg)
            ELSE [why |-> "", db |-> fin.db, next |-> next]
      [] base = "Update" ->
            LET pos == PosByIds(db, t, {ev.id}) IN
            IF pos = {} THEN (IF ev.err = "norows" THEN same ELSE Bad("no row has this id: sql.ErrNoRows expected, got " \o (IF ev.err = "" THEN "no error" ELSE ev.err)))
            ELSE LET i == CHOOSE i \in pos : TRUE
                     r == [id |-> ev.id, c |-> ev.row]
                     errs == WriteErrors(db, t, r, i) IN
                 IF errs # {} THEN (IF ev.err \in errs THEN same ELSE Bad("the model expects an error in " \o ToString(errs) \o ", the call returned " \o (IF ev.err = "" THEN "no error" ELSE ev.err \o " " \o ev.msg)))
                 ELSE IF ev.err # "" THEN Bad("SQL error on a legal call: " \o ev.err \o " " \o ev.msg)
                 ELSE IF Len(ev.out) # 1 \/ OutRows(ev)[1] # r THEN Bad("the returned row differs from the updated one")
                 ELSE [why |-> "", db |-> [db EXCEPT ![n][i] = r], next |-> next]
      [] base = "Select" ->
            LET pos == PosByIds(db, t, {ev.id}) IN
            IF pos = {} THEN (IF ev.err = "norows" THEN same ELSE Bad("no row has this id: sql.ErrNoRows expected, got " \o (IF ev.err = "" THEN "a row" ELSE ev.err)))
            ELSE ExpectRows(pos)
      [] base = "SelectMany" -> ExpectRows(PosByIds(db, t, SeqSet(ev.ids)))
      [] base = "SelectAll" -> ExpectRows(1..Len(db[n]))
      [] base = "DeleteById" ->
            LET pos == PosByIds(db, t, {ev.id}) IN
            IF pos = {} THEN (IF ev.err = "norows" THEN same ELSE Bad("no row has this id: sql.ErrNoRows expected, got " \o (IF ev.err = "" THEN "a row" ELSE ev.err)))
            ELSE ExpectDelete(pos, FALSE)
      [] base = "DeleteByIDs" -> ExpectDelete(PosByIds(db, t, SeqSet(ev.ids)), TRUE)
      [] base = "SelectByFK" -> ExpectRows(PosByField(db, t, ev.cols[1], IdsStr(ev.ids)))
      [] base = "DeleteByFK" -> ExpectDelete(PosByField(db, t, ev.cols[1], IdsStr(ev.ids)), t.primary)
      [] base = "SelectByUniqueFK" ->
            LET pos == PosByField(db, t, ev.cols[1], {IdStr(ev.id)}) IN
            IF ev.err # "" THEN Bad("SQL error on a legal call: " \o ev.err \o " " \o ev.msg)
            ELSE IF ev.found # (pos # {}) THEN Bad("found = " \o ToString(ev.found) \o " but the model has " \o ToString(Cardinality(pos)) \o " matching rows")
            ELSE IF pos # {} THEN ExpectRows(pos) ELSE same
      [] base = "SelectByUnique" ->
            LET pos == PosByFields(db, t, ev.cols, ev.vals) IN
            IF ev.err # "" THEN Bad("SQL error on a legal call: " \o ev.err \o " " \o ev.msg)
            ELSE IF ev.found # (pos # {}) THEN Bad("found = " \o ToString(ev.found) \o " but the model has " \o ToString(Cardinality(pos)) \o " matching rows")
            ELSE IF pos # {} THEN ExpectRows(pos) ELSE same
      [] base = "SelectByKeys" -> ExpectRows(PosByFields(db, t, ev.cols, ev.vals))
      [] base = "DeleteByKeys" -> ExpectDelete(PosByFields(db, t, ev.cols, ev.vals), FALSE)
      [] base = "Query" ->   \* custom query  UPDATE t SET cols[1] = vals[1] WHERE cols[2] = vals[2]
            LET pos == PosByFields(db, t, <<ev.cols[2]>>, <<ev.vals[2]>>)
                k == Idx(t, ev.cols[1])
                newrows == [i \in 1..Len(db[n]) |-> IF i \in pos THEN [db[n][i] EXCEPT !.c = [j \in 1..Len(@) |-> IF j = k THEN ev.vals[1] ELSE @[j]]] ELSE db[n][i]]
                newdb == [db EXCEPT ![n] = newrows]
                errs == (IF \A i \in pos : UniqueOK(t, newrows, newrows[i], i) THEN {} ELSE {"unique"})
                        \cup (IF \A i \in pos : FKOK(newdb, t, newrows[i]) THEN {} ELSE {"fk"}) IN
            IF errs # {} THEN (IF ev.err \in errs THEN same ELSE Bad("the model expects an error in " \o ToString(errs) \o ", the call returned " \o (IF ev.err = "" THEN "no error" ELSE ev.err \o " " \o ev.msg)))
            ELSE IF ev.err # "" THEN Bad("SQL error on a legal call: " \o ev.err \o " " \o ev.msg)
            ELSE [why |-> "", db |-> newdb, next |-> next]
      [] base = "Delete" ->
            LET pos == PosByLinkKeys(db, t, [id |-> 0, c |-> ev.row])
                res == DeleteAt(meta, db, t, pos) IN
            IF ev.err # "" THEN Bad("SQL error on a legal call: " \o ev.err \o " " \o ev.msg)
            ELSE [why |-> "", db |-> res.db, next |-> next]
      [] OTHER -> [why |-> "harness: unknown operation " \o ev.op, db |-> db, next |-> next]

TraceInit == l = 1 /\ meta = <<>> /\ db = <<>> /\ next = <<>> /\ dead = FALSE /\ TLCSet(1, <<>>)

Reset == /\ l <= Len(Trace) /\ Trace[l].ev = "reset"
         /\ meta' = Trace[l].meta
         /\ db' = [n \in {Trace[l].meta[i].go : i \in 1..Len(Trace[l].meta)} |-> <<>>]
         /\ next' = [n \in {Trace[l].meta[i].go : i \in 1..Len(Trace[l].meta)} |-> 1]
         /\ dead' = FALSE /\ l' = l + 1

Call == /\ l <= Len(Trace) /\ Trace[l].ev = "call"
        /\ IF dead THEN UNCHANGED <<db, next, dead>>
           ELSE LET j == Judge(Trace[l]) IN
                /\ db' = j.db /\ next' = j.next /\ dead' = (j.why # "")
                /\ (j.why # "" => TLCSet(1, Append(TLCGet(1), [case |-> Trace[l].case, seed |-> Trace[l].seed, line |-> l, why |-> j.why])))
        /\ UNCHANGED meta /\ l' = l + 1

TraceSpec == TraceInit /\ [][Reset \/ Call]_<<l, meta, db, next, dead>>
\* the carried model state always satisfies the design-level invariants of CrudModel
ModelIntegrity == meta = <<>> \/ (Integrity(meta, db) /\ AllUnique(meta, db) /\ NotNullOK(meta, db))
Post == /\ TLCGet("stats").diameter - 1 = Len(Trace)
        /\ ndJsonSerialize(IOEnv.VERIF_OUT, <<[consumed |-> Len(Trace)]>> \o TLCGet(1))
=============================================================================
