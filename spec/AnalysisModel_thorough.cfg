SPECIFICATION MSpec
CONSTANTS
  MaxFields = 2
INVARIANTS NoReenter StackBounded EarlyRegistration ClosedAtDone ExportInv
POSTCONDITION ExportPost
