SPECIFICATION Spec
CONSTANTS
  Procs = {1, 2}
  Tools = {"go", "dart"}
  MaxReq = 2
INVARIANTS TypeOK AccessUnderLock
PROPERTY EveryCallReturns
