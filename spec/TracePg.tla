------------------------------- MODULE TracePg -------------------------------
(* Conformance for C04.  Per program: one "script" line with the parsed SQL output (validation
   functions and CHECK constraints as ASTs), then one "doc" line per document:
     expect = "pass"   a document the compiled Go code emitted for the column's type
     expect = "reject" such a document with one corruption of the five listed classes
   The script is state carried from its line to the documents of the same program.          *)
EXTENDS PgSem, Json, IOUtils

Trace == ndJsonDeserialize(IOEnv.VERIF_TRACE)
VARIABLES l, script, ok

One(S) == CHOOSE x \in S : TRUE
Report(rec, why) == TLCSet(1, Append(TLCGet(1), [case |-> rec.case, why |-> why]))

TraceInit == l = 1 /\ script = [funcs |-> <<>>, checks |-> <<>>] /\ ok = FALSE /\ TLCSet(1, <<>>)

TScript == /\ l <= Len(Trace) /\ Trace[l].ev = "script"
           /\ LET rec == Trace[l] IN
                /\ script' = [funcs |-> rec.funcs, checks |-> rec.checks]
                /\ ok' = (rec.syntax = "")
                /\ IF rec.syntax = "unterminated string" THEN Report(rec, "the SQL script is not lexically valid: a string literal never ends (a quote inside a literal is not doubled)")
                   ELSE IF rec.syntax # "" THEN Report(rec, "harness: SQL output not understood: " \o rec.syntax)
                   ELSE IF UndefinedCalls([funcs |-> rec.funcs, checks |-> rec.checks]) # {}
                        THEN Report(rec, "a validation function is called but not defined in the script: " \o One(UndefinedCalls([funcs |-> rec.funcs, checks |-> rec.checks])))
                   ELSE TRUE
           /\ l' = l + 1

TDoc == /\ l <= Len(Trace) /\ Trace[l].ev = "doc"
        /\ LET rec == Trace[l] IN
             IF ~ok THEN TRUE
             ELSE IF ~\E c \in Range(script.checks) : c.col = rec.col /\ c.table = rec.table
                  THEN Report(rec, "no CHECK constraint for the jsonb column " \o rec.table \o "." \o rec.col)
             ELSE LET c == CHOOSE x \in Range(script.checks) : x.col = rec.col /\ x.table = rec.table
                      out == CheckOutcome(script, c.fn, rec.doc) IN
                  IF rec.expect = "pass" /\ out # "pass"
                    THEN Report(rec, "the CHECK of " \o rec.table \o "." \o rec.col \o " does not admit a document Go emits (" \o out \o ")")
                  ELSE IF rec.expect = "reject" /\ out = "pass"
                    THEN Report(rec, "the CHECK of " \o rec.table \o "." \o rec.col \o " admits a corrupted document (" \o rec.corruption \o ")")
                  ELSE TRUE
        /\ l' = l + 1
        /\ UNCHANGED <<script, ok>>

TraceSpec == TraceInit /\ [][TScript \/ TDoc]_<<l, script, ok>>
Post == /\ TLCGet("stats").diameter - 1 = Len(Trace)
        /\ ndJsonSerialize(IOEnv.VERIF_OUT, <<[consumed |-> Len(Trace)]>> \o TLCGet(1))
=============================================================================
