---------------------------- MODULE TraceGoIdents ----------------------------
(* Conformance for C01 (verdict style): one line = one (source package, Go generator, generate-sets)
   with: accepted (the generator returned) or refused (explicit diagnostic), the type errors go/types
   reports for the package with the generated file in it (after the import fixing pass), and the
   top-level identifiers of the generated file and of the source package.
   Go's typing judgment is go/types'; the specification contributes the acceptance rule and the
   identifier-level invariants that explain a failure.                                        *)
EXTENDS Naturals, Sequences, FiniteSets, TLC, Json, IOUtils

Trace == ndJsonDeserialize(IOEnv.VERIF_TRACE)
VARIABLE l

Range(s) == {s[i] : i \in 1..Len(s)}
Dups(s) == {s[i] : i \in {j \in 1..Len(s) : \E k \in 1..Len(s) : k # j /\ s[k] = s[j]}}
One(S) == CHOOSE x \in S : TRUE

Why(rec) ==
    IF rec.outcome = "refused" THEN ""                                   \* refusing input is allowed (C18 judges how)
    ELSE IF rec.outcome # "accepted" THEN "generator crashed: " \o rec.msg
    ELSE IF rec.syntax # "" THEN "generated Go code has a syntax error: " \o rec.syntax
    ELSE IF Dups(rec.defines) # {} THEN "generated Go code declares an identifier twice: " \o One(Dups(rec.defines))
    ELSE IF Range(rec.defines) \cap Range(rec.srcdefines) # {} THEN "generated Go code redeclares an identifier of the package: " \o One(Range(rec.defines) \cap Range(rec.srcdefines))
    ELSE IF rec.errors # <<>> THEN "generated Go code does not type-check: " \o rec.errors[1]
    ELSE ""

TraceInit == l = 1 /\ TLCSet(1, <<>>)
Consume == /\ l <= Len(Trace)
           /\ LET w == Why(Trace[l]) IN
                IF w = "" THEN TRUE ELSE TLCSet(1, Append(TLCGet(1), [case |-> Trace[l].case, why |-> w]))
           /\ l' = l + 1
TraceSpec == TraceInit /\ [][Consume]_l
Post == /\ TLCGet("stats").diameter - 1 = Len(Trace)
        /\ ndJsonSerialize(IOEnv.VERIF_OUT, <<[consumed |-> Len(Trace)]>> \o TLCGet(1))
=============================================================================
