SPECIFICATION Spec
CONSTANTS
  MaxLen = 4
  ModelIds = {"a", "aa", "b"}
  ModelContents = {"x", "y"}
INVARIANTS ExactlyOnce ContentFromInput OrderFree ExportInv
POSTCONDITION ExportPost

