SPECIFICATION TraceSpec
POSTCONDITION Post
