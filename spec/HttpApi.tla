------------------------------ MODULE HttpApi ------------------------------
(* C13 — what the endpoint extractor must return for an Echo-style route file.

   A registration (abstract):
     [verb, path : Seq(path atom), handler, input, query : Seq(query atom), form, ret]
     verb     "GET" | "POST" | "PUT" | "DELETE" | "Static" (a two-argument method that is not a verb)
     path     atoms: "lit:/x" | "local" | "pkg" | "imported" | "shadow" (a local constant hiding a package-level
              constant of the same name and another value), concatenated with +
     handler  "method" | "ptrmethod" | "func" | "importedfunc" | "importedmethod" | "literal" | "localtwin" (a local function
              called TopLevel like the imported one: handlers are told apart by what they ARE, not by their short name)
     input    "none" | "int" | "struct" | "slice" | "ptr"      (c.Bind(&in) / c.Bind(in) with in a pointer)
     query    atoms: "plain:<name>" (c.QueryParam) | "bool:<name>" | "int64:<name>" (typed helpers) | "generic:<name>" (QueryParamInt[IdDossier]) | "pkggeneric:<name>" (inner.QueryParamInt[IdDossier])
                    | "late:<name>" (c.QueryParam read AFTER a nested block that answers early: every later read still is an input)
     form     [values : Seq(name), file : name or "", json : name or "", jsonkind : "" | "struct" | "string"]
     ret      "none" | "json" | "jsonlit" | "pretty" | "blob"
     where    "stmt" | "closure" | "block": where the registration call stands in routes() (a statement, inside a function
              literal handed to a method call, inside an if block); it changes nothing to what is expected
   Types are written as Go type strings with PKG standing for the package of the route file.      *)
EXTENDS Naturals, Sequences, FiniteSets, TLC

Range(s) == {s[i] : i \in 1..Len(s)}

Verbs == {"GET", "POST", "PUT", "DELETE"}

ConstLocal == "/local_const"
ConstPkg == "/pkg_const/"
ConstImported == "/imported_const/"
ConstShadow == "/shadow_local"        \* the package-level constant of the same name is "/shadow_pkg"

AtomText(a) == CASE a = "local" -> ConstLocal [] a = "pkg" -> ConstPkg [] a = "imported" -> ConstImported [] a = "shadow" -> ConstShadow
                 [] OTHER -> SubSeq(a, 5, Len(a))            \* "lit:<text>"
RECURSIVE FoldPath(_)
FoldPath(p) == IF p = <<>> THEN "" ELSE AtomText(Head(p)) \o FoldPath(Tail(p))

InputType(i) == CASE i = "int" -> "int" [] i = "struct" -> "PKG.Payload" [] i = "slice" -> "[]int64" [] i = "ptr" -> "*PKG.Payload" [] OTHER -> ""
ReturnType(r) == CASE r = "json" -> "PKG.Result" [] r = "jsonlit" -> "PKG.Result" [] r = "pretty" -> "map[string][]int" [] r = "blob" -> "[]byte" [] OTHER -> ""

(* position of the first ':' of a query atom *)
RECURSIVE ColonAt(_, _)
ColonAt(s, i) == IF SubSeq(s, i, i) = ":" THEN i ELSE ColonAt(s, i + 1)
QKind(a) == SubSeq(a, 1, ColonAt(a, 1) - 1)
QName(a) == SubSeq(a, ColonAt(a, 1) + 1, Len(a))
QType(a) == CASE QKind(a) = "plain" -> "string" [] QKind(a) = "late" -> "string" [] QKind(a) = "bool" -> "bool" [] QKind(a) = "int64" -> "int64" [] OTHER -> "PKG.IdDossier"

HandlerName(r, idx) == CASE r.handler \in {"method", "ptrmethod"} -> "handle" \o ToString(idx)
                         [] r.handler = "func" -> "plain" \o ToString(idx)
                         [] r.handler \in {"importedfunc", "localtwin"} -> "TopLevel"   \* localtwin: a function of the route file named like the imported one, with a body of its own
                         [] r.handler = "importedmethod" -> "HandleExt"
                         [] OTHER -> "Anonymous"                 \* followed by a source position

(* handlers living in the imported package have a fixed body there *)
Imported(r) == r.handler \in {"importedfunc", "importedmethod"}

ExpectedEndpoint(r, idx) ==
    IF r.handler = "importedfunc"
    THEN [method |-> r.verb, url |-> FoldPath(r.path), name |-> "TopLevel", input |-> "", ret |-> "", blob |-> FALSE,
          query |-> <<>>, values |-> <<>>, file |-> "", json |-> "", jsontype |-> ""]
    ELSE IF r.handler = "importedmethod"
    THEN [method |-> r.verb, url |-> FoldPath(r.path), name |-> "HandleExt", input |-> "[]int64", ret |-> "map[string][]int", blob |-> FALSE,
          query |-> <<[name |-> "query1", type |-> "string"], [name |-> "query2", type |-> "string"]>>, values |-> <<>>, file |-> "", json |-> "", jsontype |-> ""]
    ELSE [method |-> r.verb, url |-> FoldPath(r.path), name |-> HandlerName(r, idx),
          input |-> InputType(r.input), ret |-> ReturnType(r.ret), blob |-> r.ret = "blob",
          query |-> [i \in 1..Len(r.query) |-> [name |-> QName(r.query[i]), type |-> QType(r.query[i])]],
          values |-> r.form.values, file |-> r.form.file, json |-> r.form.json,
          jsontype |-> IF r.form.json = "" THEN "" ELSE IF r.form.jsonkind = "string" THEN "string" ELSE "PKG.Extra"]

HasPrefix(s, p) == Len(p) <= Len(s) /\ SubSeq(s, 1, Len(p)) = p

(* one entry per verb registration whose URL has the prefix, in source order *)
RECURSIVE ExpectedFrom(_, _, _)
ExpectedFrom(regs, prefix, idx) ==
    IF idx > Len(regs) THEN <<>>
    ELSE IF regs[idx].verb \in Verbs /\ HasPrefix(FoldPath(regs[idx].path), prefix)
         THEN <<ExpectedEndpoint(regs[idx], idx)>> \o ExpectedFrom(regs, prefix, idx + 1)
    ELSE ExpectedFrom(regs, prefix, idx + 1)
ExpectedEndpoints(regs, prefix) == ExpectedFrom(regs, prefix, 1)

(* observed and expected entries agree; a literal handler's name carries a position *)
SameEndpoint(o, e) ==
    /\ o.method = e.method /\ o.url = e.url
    /\ (IF e.name = "Anonymous" THEN HasPrefix(o.name, "Anonymous") ELSE o.name = e.name)
    /\ o.input = e.input /\ o.ret = e.ret /\ o.blob = e.blob
    /\ o.query = e.query /\ o.values = e.values /\ o.file = e.file /\ o.json = e.json /\ o.jsontype = e.jsontype
=============================================================================
