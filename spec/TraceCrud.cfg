SPECIFICATION TraceSpec
INVARIANT ModelIntegrity
POSTCONDITION Post
