#!/bin/sh
# tools/try_mutant.sh <patch.diff> <Cxx> [tier]  — applies a patch to /repo, runs the check, reverts.
set -u
PATCH=$1; PROP=$2; TIER=${3:-quick}
cd /repo || exit 9
if ! git diff --quiet; then echo "REPO DIRTY"; exit 9; fi
if ! git apply --3way "$PATCH" 2>/tmp/apply.err && ! git apply "$PATCH" 2>>/tmp/apply.err; then echo "PATCH DOES NOT APPLY"; cat /tmp/apply.err; git reset -q --hard HEAD; exit 8; fi
cd /verif && bin/check "$PROP" "$TIER" > /tmp/try_mutant.out 2>&1; code=$?
cd /repo && git reset -q --hard HEAD && git clean -fdq
grep -c '^VIOLATION' /tmp/try_mutant.out | sed "s/^/violations: /"
grep -m3 'key=\|^OK\|^INCONCL' /tmp/try_mutant.out | cut -c1-260
echo "exit=$code"
