#!/bin/sh
# tools/mut_try.sh <Cxx>...   — runs each property's quick check against /tmp/mut/<Cxx>-out/patch.diff
for P in "$@"; do
  echo "=== $P"
  /verif/tools/try_mutant.sh /tmp/mut/$P-out/patch.diff $P 2>&1 | head -2 | cut -c1-220
done
