#!/usr/bin/env python3
"""Runs the registered checks against every seeded change under /verif/seeded:
   apply patch to /repo, run `bin/check <prop> <tier>` (and extra properties given in meta 'also'),
   revert, record in meta.json which checks raise a VIOLATION.   usage: tools/seeded.py [name-filter] [tier]"""
import json, os, subprocess, sys, glob
flt = sys.argv[1] if len(sys.argv) > 1 else ""
tier = sys.argv[2] if len(sys.argv) > 2 else "quick"
assert subprocess.run(["git","-C","/repo","diff","--quiet"]).returncode == 0, "/repo is dirty"
rows=[]
for d in sorted(glob.glob("/verif/seeded/*/")):
    name=os.path.basename(d.rstrip("/"))
    if flt and flt not in name: continue
    meta=json.load(open(d+"meta.json"))
    props=[meta["property"]]+meta.get("also",[])
    if meta.get("obsolete"):
        rows.append((name,"OBSOLETE (see meta.json)")); continue
    if subprocess.run(["git","-C","/repo","apply",d+"patch.diff"]).returncode!=0:
        rows.append((name,"PATCH DOES NOT APPLY")); continue
    det=[]
    try:
        for p in props:
            r=subprocess.run(["bin/check",p,tier],cwd="/verif",capture_output=True,text=True,errors="replace")
            viol=[l for l in r.stdout.splitlines() if l.startswith("VIOLATION")]
            keys=[l.strip() for l in r.stdout.splitlines() if l.strip().startswith("key=")]
            if r.returncode==1 and viol:
                det.append({"check":p,"tier":tier,"first_key":keys[0][:200] if keys else ""})
            elif r.returncode not in (0,1):
                det.append({"check":p,"tier":tier,"first_key":"INCONCLUSIVE exit %d"%r.returncode})
    finally:
        subprocess.run(["git","-C","/repo","reset","-q","--hard","HEAD"]); subprocess.run(["git","-C","/repo","clean","-fdq"])
    meta["detected_by"]=[x for x in meta.get("detected_by",[]) if x.get("tier")!=tier]+det
    json.dump(meta,open(d+"meta.json","w"),indent=1)
    rows.append((name, ", ".join(x["check"]+":"+("DETECTED" if not x["first_key"].startswith("INCONCL") else "inconclusive") for x in det) or "MISSED"))
for n,r in rows: print("%-45s %s"%(n,r))
