#!/usr/bin/env python3
"""Regenerates /verif/MANIFEST.json from the table below (one source of truth)."""
import json, os
ROOT = os.path.dirname(os.path.dirname(os.path.abspath(__file__)))

CHECKS = {
 "C19": dict(cat="model_checking", design="DESIGN.md §4 C19",
   text="TLC checks the three-step model of WriteDeclarations (unstable sort as nondeterminism) against the order-free definition exhaustively in a small scope, exports every explored list, and then judges every real call of generator.WriteDeclarations (exported lists, plus seeded random lists of length<=40 with shuffles) against that definition in a trace run.",
   note="Trusted: TLC, the Json/IOUtils community modules, Go's string order matching IdOrder (asserted every run). Exhaustive only up to MaxLen over 3 IDs x 2 contents x 2 priorities; beyond that random.",
   tech="TLA+ model (Decls.tla) checked by TLC + trace validation of real WriteDeclarations calls (TraceDecls.tla)"),
}
CHECKS["C20"] = dict(cat="model_checking", design="DESIGN.md §4 C20, Appendix A.1",
   text="TLC checks the Formatters state machine (one action per critical section / process boundary) exhaustively for 3 goroutines: cache accessed only under the lock, each tool probed at most once, formatter run once per request iff present, missing tool = no-op, failing run reported. The real generator.Formatters is then driven by concurrent goroutines with stand-in tools on PATH (all 81 tool configurations, free-running, with gated probes held inside the critical section, and following schedules produced by tlc -simulate); every recorded trace must be a behaviour of the spec (trace validation with inferred lock hand-over, all invariants evaluated in every state). The worker is built with -race; a reported data race is a violation.",
   note="Trusted: TLC; the stand-in executables and O_APPEND log order; the Go race detector for memory-level races (TLA+ cannot see unsynchronised accesses). Exhaustive design-level scope: 3 goroutines, 2-3 tools, 1-2 requests each; real executions are sampled schedules, not all interleavings.",
   tech="TLA+ model (Formatters.tla) checked by TLC + trace validation (TraceFormatters.tla) of real concurrent executions, schedules from tlc -simulate replayed through gates, Go race detector")
CHECKS["C17"] = dict(cat="model_checking", design="DESIGN.md §4 C17",
   text="TLC checks the Loader model (stat, component-wise common root, load, match back) against 'root is the deepest existing common ancestor, packages in request order' for every request of <=3 files over directories of depth<=2 with names that are character-prefixes of each other, and exports the requests. A seeded sample of them plus fixed witnesses is materialised in scratch modules and handed to the real analysis.LoadSources (absolute and relative paths, duplicates, missing / non-Go / ill-typed files); TLC judges every recorded call.",
   note="Trusted: TLC; go/packages as the source of 'the package that contains the file'; import path = module path + directory. Real calls are a sample (70 quick / 1200 thorough) of the 9723 enumerated requests.",
   tech="TLA+ model (Loader.tla) checked by TLC + verdict-style trace validation (TraceLoader.tla) of real LoadSources calls on TLC-enumerated layouts")
CHECKS["C10"] = dict(cat="model_checking", design="DESIGN.md §4 C10",
   text="EnumDef.tla states exactness of enum detection over an abstract package tree (which types are enums, member sets with exact values and comments, two-sided iota rule). EnumModel.tla models the scope walk in name order and setIsIota (unstable sort as nondeterminism) and TLC checks it against EnumDef for every block of <=3/4 constants over values -1..3, exporting the blocks. Each block is rendered as real Go (random style: iota, offsets, blanks, single-line, multi-name), decorated with a same-named type in a sub-package, string/bool/float enums, opt-outs, labels and foreign-typed constants; the real analysis runs on it and TLC judges what it reported against EnumDef.",
   note="Trusted: TLC; the synthesiser (its rendering is re-checked against go/types for every constant on every run). Universe: the analysed package tree; exhaustive over the integer core of one type up to MaxConsts, decorations are random.",
   tech="TLA+ definition + model (EnumDef/EnumModel.tla) checked by TLC, TLC-enumerated constant blocks rendered to Go, verdict-style trace validation (TraceEnums.tla) of the real analysis")
CHECKS["C11"] = dict(cat="model_checking", design="DESIGN.md §4 C11",
   text="UnionDef.tla states exactness of union detection (an interface is a union iff a non-interface named type of its own package has a value-receiver method set implementing it; members and Implements lists exact and in name order). UnionModel.tla models fetchPkgUnions and setImplements with the range over the unions map as explicit nondeterminism; TLC checks it against UnionDef for every assignment of marker methods and receivers in scope and exports the cores. Each core becomes a real package tree (same names in a sub-package, cross-package implementer, unions reached as field / element / map value / alias / named slice / top-level only); TLC judges what the real analysis reported for every interface and every reachable struct node.",
   note="Trusted: TLC; the synthesiser (method sets re-checked against go/types every run). Scope: 2 interfaces x subsets of 2 marker methods, 2-3 types; reach positions and sub-package content are random decorations.",
   tech="TLA+ definition + model (UnionDef/UnionModel.tla) checked by TLC, TLC-enumerated cores rendered to Go, verdict-style trace validation (TraceUnions.tla) of the real analysis")
CHECKS["C12"] = dict(cat="model_checking", design="DESIGN.md §4 C12, Appendix A.3",
   text="Analysis.tla models handleType/createType as a stack machine (Enter / Hit / Return, early registration) over a type graph; TLC checks termination-critical invariants (no re-entry of an early-registering type, bounded stack, closure at the end) on every legal program of two named types over {int, N, []N, [2]N, map[string]N} and exports the programs. They and seeded random full-feature packages are analysed by the real code with hook H1 recording enter/hit/return; TraceAnalysis.tla rebuilds the observed stack and memo table from the events, evaluates the invariants at every step (unbounded recursion is decided from the trace, before the runtime dies), follows the model in lock-step (divergence = MODEL-DRIFT, not a violation) and judges the final dump against an independent go/types walk with AnalysisDef.tla: closed, faithful (kind, length, key/element, basic kind, flattened fields), round trip of Type(), consistent links, source order.",
   note="Trusted: TLC; go/types as oracle of kinds and identity; the oracle walk of the harness (enum/union classification by C10/C11's definitions); hook H1 (add-only, build tag verif). Exhaustive for the two-type universe; the rich forms are random.",
   tech="TLA+ model of the recursive walk (Analysis/AnalysisModel.tla) checked by TLC + trace validation of hook events and final dumps from the real analysis (TraceAnalysis.tla, AnalysisDef.tla)")
CHECKS["C18"] = dict(cat="model_checking", design="DESIGN.md §4 C18",
   text="Refusal.tla gives every phase of the pipeline exactly two ways out (ok, refuse) and enumerates the input classes the property quantifies over: 19 unsupported or borderline forms x 11 positions (restricted to well-typed combinations) and 17 legal but unusual spellings. Every class is rendered as a well-typed package (checked by the real loader), plus seeded random full-feature packages; the real analysis and all 8 generator entry points run on it in isolated processes (panics classified, stack overflows and hangs survive as 'fatal' / 'timeout'); TraceOutcome.tla requires every recorded phase outcome to be ok or a diagnostic. The model's predicted analysis outcome only feeds MODEL-DRIFT.",
   note="The specification contributes the input space, the outcome vocabulary and the acceptance; whether a panic is a diagnostic (string / non-runtime error) or a crash (runtime.Error, process death, timeout) is observed on the real process. One representative rendering per class; typescript/api is run on files without routes here (route files: C13/C14).",
   tech="TLA+ enumeration of input classes and outcome model (Refusal.tla) + verdict-style trace validation (TraceOutcome.tla) of outcome classes observed on the real analysis and generators in isolated processes")
CHECKS["C09"] = dict(cat="model_checking", design="DESIGN.md §4 C09",
   text="FieldsDef.tla transcribes encoding/json's field rule (unexported / '-' skipped, name part of the tag, '-,' , embedded structs flattened unless named) and gomacro's rule; TLC checks that they agree on every field of the universe (exported? x json tag shapes x options x gomacro ignore, plain and embedded) and exports it. Each field, alone and in random combinations, becomes a real struct reached as a jsonb column; TraceFields.tla compares, per struct: the keys json.Marshal really writes (binary compiled from the synthesised package; also validates the spec's transcription), the keys reported by the analysis, the property names of the generated TypeScript interface, the keys read / written by the Dart routines and the keys accepted / checked by the JSON validator; plus the metamorphic half (adding an ignored field leaves the three outputs byte-identical).",
   note="Trusted: TLC; encoding/json as ground truth; the TypeScript parser and the token-level extractors for Dart routines and PL/pgSQL validators (harness/internal/tsparse, proj). omitempty/string options are exercised for naming only; the duplicate-key rule of encoding/json is out of scope.",
   tech="TLA+ transcription of encoding/json's field rule checked against the model of gomacro by TLC + verdict-style trace validation (TraceFields.tla) against real json.Marshal output and parsed generator outputs")
CHECKS["C07"] = dict(cat="model_checking", design="DESIGN.md §4 C07",
   text="MapOrder.tla makes every range over a Go map an action that picks an arbitrary permutation (visit order of the analysed types, Cache.Imports) and states determinism as refinement to an order-free canonical output; TLC explores all orders. Binding to the code is by repetition, since Go's map order cannot be dictated: seeded full-feature packages (>=3 imported packages per Go header, several unions per struct, several Dart files, a table struct) are analysed and generated for all 8 generator entry points R times per process in P processes, and cmd/gomacro -config runs end to end twice; TraceDeterminism.tla requires one outcome, one file set and one hash per (program, target, file).",
   note="A surviving order dependence at a site with >=3 entries is missed with probability <= (1/3)^(R*P-1) per site (R*P = 24 quick, 200 thorough). Trusted: TLC, sha256.",
   tech="TLA+ model with map iteration order as nondeterminism (MapOrder.tla) checked by TLC + verdict-style trace validation (TraceDeterminism.tla) of repeated real runs in and across processes")
CHECKS["C02"] = dict(cat="model_checking", design="DESIGN.md §4 C02",
   text="WireJSON.tla defines Enc, the document C02 demands for a Go value (Kind/Data objects for union-typed components, otherwise exactly encoding/json: tag names, flattened embedded structs, nil slices/maps null, []byte base64, sorted map keys). Seeded random packages with unions in every listed position are compiled together with the wrappers gomacro generated (after the import fixing pass) into a binary that builds values by reflection from member values, marshals and unmarshals them; TraceWire.tla lets TLC compare every produced document with Enc of the value tree (objects as member sets, null = empty for empty containers) and require the round trip.",
   note="Trusted: TLC; the in-binary engine (reflection builder, value-tree printer); encoding/json for scalar literals (number / string / time text) inside trees. Values and programs are random (seeded); the wire format itself is decided by the TLA+ definition, not by a second Go implementation.",
   tech="TLA+ definition of the wire format (WireJSON.tla) + verdict-style trace validation (TraceWire.tla) of values marshalled by a binary compiled with the generated wrappers")
CHECKS["C15"] = dict(cat="model_checking", design="DESIGN.md §4 C15",
   text="RandModel.tla models the generated rand functions as a recursive process over the type graph and TLC shows, for every legal two-type program, that the call stack grows without bound only for types from which a type-graph cycle is reachable and that every other function returns (liveness under weak fairness). RandDef.tla states well-formedness of returned values (enum components among the exported constants, union components non-nil members, containers populated, skipped fields zero), variation, and the C02 wire format. The generated functions of seeded random packages are compiled and called K times per type under a stack limit and a timeout; TraceRand.tla judges every returned value tree.",
   note="Trusted: TLC; the in-binary engine; OS-level stack limit / timeout for termination. Types from which a cycle is reachable never return (recorded finding, class computed from the analysed graph and cross-checked against the model's prediction); a few are executed in one witness program per run, the others are not called.",
   tech="TLA+ model of the generated recursion (RandModel.tla) checked by TLC incl. liveness + verdict-style trace validation (TraceRand.tla, RandDef.tla) of values returned by the compiled generated code")
CHECKS["C03"] = dict(cat="model_checking", design="DESIGN.md §4 C03",
   text="TsSem.tla gives the generated TypeScript declarations a structural semantics (Inhabits: exact property sets, primitive kinds, null only where admitted, tuple lengths, literal sets through the const-object idiom, Kind/Data alternatives, brands, Record key spaces) and well-formedness of the environment (every mentioned name declared exactly once). The real TypeScript output of seeded random packages is parsed by a declaration parser (a syntax error is a violation), and TLC judges every JSON document that the compiled Go code emits for reflection-built values of every top-level type against the parsed declaration of that type.",
   note="Trusted: TLC; the TypeScript parser of the harness (no tsc here); the in-binary engine. Reading choices are listed in DESIGN.md §4 C03 (brands inhabited by their base, Record keys inside the key space, enum components hold members, omitempty/string options excluded). Two recorded findings are exercised by fixed witnesses.",
   tech="TLA+ semantics of the TypeScript type language (TsSem.tla) + trace validation (TraceTs.tla, environment carried as state) of real generator output against documents emitted by compiled Go code")
CHECKS["C04"] = dict(cat="model_checking", design="DESIGN.md §4 C04, Appendix A.4",
   text="PgSem.tla is the PostgreSQL semantics the property asks for, written as a TLA+ interpreter: three-valued logic, NULL propagation, jsonb_typeof, ->, ->>, #>>'{}', ::int, jsonb_array_length, bool_and over jsonb_each / jsonb_array_elements, IF / CASE / RETURN / := / DECLARE, calls between functions with fuel, CHECK passes unless FALSE. The real SQL output of seeded random packages (one jsonb column per top-level type) is parsed into ASTs by a PL/pgSQL parser; TLC runs the real validators, under that semantics, on the documents the compiled Go code emits for values of the column types (must pass), on single-point corruptions of them from the five listed classes built from the typed value tree (must not pass), and checks that every called validation function is defined.",
   note="Trusted: TLC; PgSem.tla as the model of PostgreSQL (no server is installed; evaluation-order assumption recorded in the evidence); the PL/pgSQL parser and the corruptor of the harness (a corruption is only built when the harness re-encodes the emitted document exactly). An ERROR on a corrupted document counts as rejection.",
   tech="TLA+ interpreter of the PL/pgSQL / jsonb fragment (PgSem.tla) run by TLC on the parsed real validators (TracePg.tla) against documents emitted by compiled Go code and their typed corruptions")
CHECKS["C08"] = dict(cat="model_checking", design="DESIGN.md §4 C08",
   text="PgDDL.tla is the documented Go-to-SQL mapping as a total function over abstract table structs (column selection, SQL type, nullability, serial primary key, enum / length / jsonb CHECKs, guards with default and equality check, foreign keys from ID types or tags with ON DELETE, snake-case-plural names, composite declarations). PgDDLModel.tla fixes the type declarations Env0 and the universe of column specifications; TLC checks totality and internal consistency on it and exports it. The harness renders Env0 and model files covering every specification, runs the real SQL generator, parses its output into descriptors, and TraceDDL.tla requires descriptor equality with PgDDL's expectation.",
   note="Trusted: TLC; the SQL DDL parser of the harness. Exactness property: the expected value is defined by the property and transcribed in PgDDL.tla (ambiguous points — which integer kinds are smallint, Go-exported json:\"-\" fields being columns, the snake-case rule — are listed as assumptions in the evidence).",
   tech="TLA+ definition of the Go-to-SQL mapping (PgDDL.tla) with a TLC-checked, TLC-exported universe (PgDDLModel.tla) + verdict-style trace validation (TraceDDL.tla) of the parsed real SQL output")
CHECKS["C16"] = dict(cat="model_checking", design="DESIGN.md §4 C16",
   text="Directives.tla defines the expansion of comment directives on token sequences (enum placeholders to SQL literals, REFERENCES, whole-word table names, ALTER TABLE owner prefix, select keys dropped, query placeholders numbered by first occurrence with arguments typed like the compared field). DirectivesModel.tla enumerates model files (constraint and query templates x owner struct x single / grouped declaration), TLC checks that the expansion leaves no placeholder and exports the cases; each is rendered as a real model file, the real SQL and CRUD generators run, their custom statements (SQL lexer) and query functions (go/ast) are extracted as token sequences and TraceDirectives.tla requires bag equality with the expansion.",
   note="Trusted: TLC; the SQL lexer shared by both sides; go/ast. Exactness property: the expected token sequences are the property's own definition. Templates are a fixed set (10 constraints, 3 queries); occurrences of a table name inside a string literal are left out as ambiguous.",
   tech="TLA+ token-level definition of the directive expansion (Directives.tla), TLC-enumerated model files (DirectivesModel.tla) + verdict-style trace validation (TraceDirectives.tla) of the parsed real SQL / CRUD output")
CHECKS["C01"] = dict(cat="model_checking", design="DESIGN.md §4 C01",
   text="Seeded random full-feature packages, single-field-kind packages, SQL model files covering the TLC-exported column universe of PgDDLModel.tla and fixed witnesses are run through the three real Go generators (sqlcrud with generate-sets off and on); every accepted output goes through the import fixing pass and is type-checked by go/types inside its source package (lib/pq resolved to a stand-in with the same API). TraceGoIdents.tla applies the acceptance rule (refusal with a diagnostic is allowed, a crash is not) and the identifier-level invariants (no identifier declared twice, none clashing with the package) before the type errors. GoIdents.tla models the identifiers gounions derives and TLC shows them clash-free outside the recorded class.",
   note="The typing judgment is go/types' and the import fixing is x/tools/imports: TLA+ contributes the input universe (column kinds), the acceptance bookkeeping and the identifier model, not a Go type checker. Inputs are sampled; each accepted (package, generator) pair reports its first error only.",
   tech="go/types type-checking of real generator output inside TLC-exported / seeded source packages, judged by a TLA+ trace spec (TraceGoIdents.tla); TLA+ model of derived identifiers (GoIdents.tla) checked by TLC")
CHECKS["C13"] = dict(cat="model_checking", design="DESIGN.md §4 C13",
   text="HttpApi.tla defines the endpoint list expected for an abstract route file: one entry per verb registration in source order, URL by constant folding of the path expression, and the contract read from the handler body (bound input, JSON / pretty / blob return, plain, typed and generic query parameters with their types, form values, form file, JSON form field), for handlers given as methods on value or pointer variables, functions, imported functions and methods, and function literals, with the prefix filter. HttpApiModel.tla fixes the dimension value sets; TLC checks the definition is well-formed on them and exports them; the harness renders seeded route files from them and TraceHttp.tla requires the real extractor's result to equal the expectation entry by entry.",
   note="Trusted: TLC; the renderer of route files (type-checked by the real loader before use). Exactness property: the expectation is the property's own definition. Only the documented handler idioms are generated (assignment forms).",
   tech="TLA+ definition of the expected endpoint list (HttpApi.tla) with TLC-exported dimensions (HttpApiModel.tla) + verdict-style trace validation (TraceHttp.tla) of the real extractor on synthesised route files")
CHECKS["C14"] = dict(cat="model_checking", design="DESIGN.md §4 C14",
   text="AxiosSem.tla defines, from an extracted endpoint and argument values, the request the client method must issue (verb, base + URL, JSON body / form data with exactly the declared file, value and JSON fields in order / null for body-less POST and PUT / nothing, query parameters converted to strings, arraybuffer for blobs) and what it must return (data, blob + decoded file name, true). Route files from the TLC-exported dimensions go through the real extractor and the real client generator; the client is parsed (declarations and method signatures: one method per endpoint named after its handler, every mentioned type declared once), its type syntax is stripped and Node executes every method twice against a recording stand-in for axios; TraceAxios.tla compares every recorded call and return value with the definition.",
   note="Trusted: TLC; the TypeScript parser / stripper of the harness and Node 20 (no tsc here); the positional convention for the body argument (whether real axios honours a data argument on get / delete is not judged). Contradictory contracts (same handler registered twice) are outside the universe.",
   tech="TLA+ definition of the expected request (AxiosSem.tla) + trace validation (TraceAxios.tla) of calls recorded while Node executes the real generated client against a stand-in axios")
NOT_APPLICABLE = {}
ALL = ["C%02d" % i for i in range(1, 21)]

def main():
    checks = []
    for pid in ALL:
        if pid not in CHECKS:
            continue
        c = CHECKS[pid]
        checks.append({
            "property_id": pid,
            "quick_cmd": f"bin/check {pid} quick",
            "thorough_cmd": f"bin/check {pid} thorough",
            "evidence_file": f"evidence/{pid}.json",
            "replay_cmd_template": f"bin/check {pid} quick --replay {{path}}",
            "engine": "tlc+go-harness",
            "level_claimed": {"category": c["cat"], "text": c["text"], "design_ref": c["design"]},
            "level_note": c["note"],
            "technique": c["tech"],
        })
    na = [{"property_id": p, "reason": NOT_APPLICABLE.get(p, "check not built yet in this round (planned, see DESIGN.md §9); not claimed")}
          for p in ALL if p not in CHECKS]
    hooks_commits = []
    hc = os.path.join(ROOT, "hooks_commits.txt")
    if os.path.exists(hc):
        hooks_commits = [l.strip() for l in open(hc) if l.strip()]
    m = {
        "version": 1,
        "setup_cmd": "bin/setup",
        "hooks": {
            "guard": "verif",
            "enable": "go build -tags verif (bin/check builds the harness, which imports /repo through a replace directive, with -tags verif)",
            "baseline_off_cmd": "bin/baseline_off",
            "source_commits": hooks_commits,
            "add_only": True,
        },
        "engines": [
            {"name": "tlc+go-harness", "path": "harness/cmd/verif", "serves_properties": [c["property_id"] for c in checks],
             "kind_free_text": "TLA+ specifications under spec/ checked with TLC; Go harness replays TLC-exported inputs through the real code built from /repo and hands recorded observations back to TLC trace specifications"},
        ],
        "checks": checks,
        "not_applicable": na,
        "notes": "Exit codes: 0 property held on everything explored, 1 VIOLATION (fresh), 2 inconclusive (never a verdict). Known findings: known_findings.json.",
    }
    json.dump(m, open(os.path.join(ROOT, "MANIFEST.json"), "w"), indent=1)
    print("MANIFEST.json:", len(checks), "checks,", len(na), "not claimed")

if __name__ == "__main__":
    main()
