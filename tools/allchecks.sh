#!/bin/sh
# tools/allchecks.sh <tier> <seed>...   — runs every registered check sequentially for each seed, prints one line per run
TIER=$1; shift
cd "$(dirname "$0")/.."
# FROZEN=1 (only in a snapshot tree, e.g. under `vp run`): work against a private copy of /repo taken now, so
# that seeded changes applied to /repo meanwhile cannot leak into this sweep
if [ "${FROZEN:-0}" = 1 ] && [ "$(pwd)" != /verif ]; then
  rsync -a --delete --exclude .git /repo/ "$(pwd)/.repo-frozen/"
  sed -i "s|=> /repo\$|=> $(pwd)/.repo-frozen|" harness/go.mod
fi
for s in "$@"; do
  for i in 01 02 03 04 05 06 07 08 09 10 11 12 13 14 15 16 17 18 19 20; do
    out=$(VERIF_SEED=$s bin/check C$i $TIER 2>&1); code=$?
    line=$(printf '%s\n' "$out" | grep -m1 '^OK\|^INCONCL' | cut -c1-200)
    nv=$(printf '%s\n' "$out" | grep -c '^VIOLATION')
    echo "seed=$s C$i exit=$code violations=$nv $line"
    if [ $code -ne 0 ]; then printf '%s\n' "$out" | grep -m4 'key=\|INCONCL' | cut -c1-400; fi
  done
done
