import json,sys
pid=sys.argv[1]
extra=sys.argv[2] if len(sys.argv)>2 else ""
p=[json.loads(l) for l in open('/verif/properties.jsonl') if json.loads(l)['id']==pid][0]
txt=f"""You are helping evaluate a verification effort by playing the role of a developer who introduces a subtle regression.

Repository: a Go code generator (benoitkugler/gomacro: analyses Go type declarations and emits TypeScript, Dart, Postgres SQL and Go boilerplate). Your private scratch checkout (a git worktree) is /tmp/mut/{pid}. Work ONLY inside /tmp/mut/{pid} and /tmp/mut/{pid}-out. Do not read or touch /verif or /repo. There is no network. In every shell call first run: export GOFLAGS=-mod=mod GOPROXY=off GOSUMDB=off GOTOOLCHAIN=local

The semantic property at stake ({pid}): "{p['title']}"
Statement: {p['statement']}
Quantified over: {p['quantifier']['text']}
Code it is anchored in: {', '.join(p['anchors']['files'])}

Task: make ONE small, realistic change to the non-test source code of the repository (the kind of slip or 'optimisation' a maintainer could plausibly commit, 1-15 lines) such that
  1. the module still compiles (go build ./... and go vet of the touched packages are clean),
  2. the repository's existing test suite still passes: run  PATH=/tmp/mutbin:$PATH go test -vet=off -count=1 ./...  (first: mkdir -p /tmp/mutbin; printf '#!/bin/sh\\nexit 127\\n' > /tmp/mutbin/npx; chmod +x /tmp/mutbin/npx  -- this avoids a 70 s network probe). The test TestSQL in analysis/sql is known to be flaky when packages run in parallel (it passes when ./analysis/sql/ is run alone): ignore that one. The suite rewrites some tracked fixture files: restore them afterwards with git checkout -- <files> so that git status shows only your change,
  3. the property above is now violated for SOME inputs, but NOT for the ordinary inputs of the repository's fixtures: the change must need something specific to manifest (a particular kind of type, tag, name, combination or order). Prefer a change whose effect is semantic (wrong behaviour of the generated artefact) over one that crashes the generator.
{extra}
Then write a small Go test file (the 'demo') that PASSES on the original code and FAILS with your change, showing the violation on a concrete input (it may create a temporary Go module in t.TempDir() with its own go.mod 'module example.test/org/...' and source files, load it with the repository's own packages, run the generator and inspect the output). Verify both directions yourself: with your change the demo fails; after `git diff > /tmp/mut/{pid}-out/patch.diff` and `git apply -R /tmp/mut/{pid}-out/patch.diff` it passes; then re-apply the patch. NEVER use git stash (the stash is shared between worktrees), never commit, and remove the demo file from the worktree at the end.

Deliverables in /tmp/mut/{pid}-out/ (create the directory):
  - patch.diff  : output of `git diff` (only your source change, no fixture changes, no demo file)
  - the demo test file (name ending in _test.go)
  - meta.json   : {{"property": "{pid}", "summary": "<what was changed and why it breaks the property>", "needs": "<what an input must contain to expose it>", "demo": "<where to place the demo file relative to the repository root and the exact go test command to run it>"}}
Finish by reporting, in a few lines, the change, the trigger, and the demo placement + command."""
open(f'/tmp/mut/{pid}.prompt.txt','w').write(txt)
print(len(txt))
