#!/bin/sh
# tools/mut_prepare.sh <hints-file>   — hints file: lines "Cxx|hint text".  Creates /tmp/mut/<Cxx> worktrees of /repo HEAD and
# /tmp/mut/<Cxx>.prompt.txt (property text + hint only; nothing from /verif beyond the property statement itself).
mkdir -p /tmp/mut
rm -rf /tmp/mut/C*-out /tmp/mut/C*.prompt.txt
while IFS='|' read -r p hint; do
  [ -z "$p" ] && continue
  git -C /repo worktree remove --force /tmp/mut/$p 2>/dev/null
  git -C /repo worktree add -q --detach /tmp/mut/$p HEAD
  python3 /verif/tools/mkprompt.py "$p" "$hint" > /dev/null
  echo "prepared $p"
done < "$1"
