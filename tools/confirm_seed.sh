#!/bin/sh
# tools/confirm_seed.sh <Cxx> <seedname> <demo file> <dest dir rel to worktree> <go test args...>
# Confirms a seeded change in a fresh scratch worktree of /repo: (1) demo fails with the patch,
# (2) demo passes without, (3) the repository suite's stable tests pass with the patch; then stores
# it under /verif/seeded/<seedname>/ and removes the worktree.
set -u
PROP=$1; NAME=$2; DEMO=$3; DEST=$4; shift 4
export GOFLAGS=-mod=mod GOPROXY=off GOSUMDB=off GOTOOLCHAIN=local
SRC=$(dirname "$DEMO")
W=/var/tmp/seedwt-$NAME
git -C /repo worktree remove --force "$W" 2>/dev/null; rm -rf "$W"
git -C /repo worktree add -q --detach "$W" HEAD || exit 9
cd "$W"
mkdir -p "$DEST"; cp "$DEMO" "$DEST/"
go test -vet=off -count=1 "$@" > /tmp/seed_orig.out 2>&1; orig=$?
if ! git apply "$SRC/patch.diff"; then echo "patch does not apply"; exit 8; fi
go test -vet=off -count=1 "$@" > /tmp/seed_mut.out 2>&1; mut=$?
rm -f "$DEST/$(basename "$DEMO")"
mkdir -p /tmp/mutbin; printf '#!/bin/sh\nexit 127\n' > /tmp/mutbin/npx; chmod +x /tmp/mutbin/npx
PATH=/tmp/mutbin:$PATH go test -json -vet=off -count=1 ./... > /tmp/seed_suite.json 2>/dev/null
suite=$(python3 - <<'PY'
import json
res={}
for line in open('/tmp/seed_suite.json'):
    try: e=json.loads(line)
    except Exception: continue
    if e.get("Test") and e.get("Action") in ("pass","fail") and "/" not in e["Test"]:
        res[e["Package"]+"::"+e["Test"]]=e["Action"]
stable=json.load(open("/root/.vp/BASELINE.json"))["stable_pass"]
bad=[t for t in stable if res.get(t)!="pass"]
print("suite: %d/%d stable pass%s" % (len(stable)-len(bad), len(stable), (" NOT PASSING: "+",".join(bad)) if bad else ""))
PY
)
echo "$NAME: demo on original exit=$orig (want 0), with patch exit=$mut (want !=0); $suite"
cd /verif
git -C /repo worktree remove --force "$W"; rm -rf "$W"
if [ "$orig" = 0 ] && [ "$mut" != 0 ] && echo "$suite" | grep -q "36/36"; then
  mkdir -p /verif/seeded/$NAME
  cp "$SRC/patch.diff" "$DEMO" /verif/seeded/$NAME/
  python3 - "$SRC/meta.json" "$PROP" "$NAME" "$DEST" "$*" <<'PY'
import json,sys
m=json.load(open(sys.argv[1]))
out={"property":sys.argv[2],"name":sys.argv[3],"summary":m.get("summary",""),"needs":m.get("needs",""),
     "demo":{"place_in":sys.argv[4],"run":"go test -vet=off -count=1 "+sys.argv[5]},
     "confirmed":["demo passes on the unchanged tree, fails with the patch (fresh scratch worktree of /repo HEAD)","repository suite: 36/36 stable tests pass with the patch (guard off)"],
     "detected_by":[]}
json.dump(out,open("/verif/seeded/%s/meta.json"%sys.argv[3],"w"),indent=1)
PY
  echo "stored /verif/seeded/$NAME"
else
  echo "NOT CONFIRMED (see /tmp/seed_orig.out /tmp/seed_mut.out)"
fi
