#!/bin/sh
# Stand-in for which / goimports / dart / npx / pg_format (C20).  Logs one line per process
# boundary into $VERIF_FMT_DIR/log (O_APPEND), blocks on a gate file while it exists, and exits
# as configured in $VERIF_FMT_DIR/avail.<tool> (ok | missing | runfail).
D="$VERIF_FMT_DIR"
name="${0##*/}"
kind=run
case "$name" in
  which)     tool=go;   kind=probe ;;
  goimports) tool=go;   file="$2" ;;
  dart)      tool=dart; if [ "$2" = "--help" ]; then kind=probe; else file="$2"; fi ;;
  npx)       tool=ts;   if [ "$2" = "-v" ]; then kind=probe; else file="$3"; fi ;;
  pg_format) tool=psql; if [ "$1" = "-v" ]; then kind=probe; else file="$2"; fi ;;
  *) exit 99 ;;
esac
read avail < "$D/avail.$tool"
if [ "$kind" = probe ]; then
  echo "{\"ev\":\"probe_start\",\"tool\":\"$tool\"}" >> "$D/log"
  while [ -e "$D/gate.probe.$tool" ]; do /bin/sleep 0.003; done
  code=0; [ "$avail" = missing ] && code=1
  echo "{\"ev\":\"probe_end\",\"tool\":\"$tool\",\"exit\":$code}" >> "$D/log"
  exit $code
fi
base="${file##*/}"
echo "{\"ev\":\"run_start\",\"tool\":\"$tool\",\"file\":\"$base\"}" >> "$D/log"
while [ -e "$D/gate.run.$base" ]; do /bin/sleep 0.003; done
code=0
case "$avail" in
  ok) echo "// formatted by $name" >> "$file"
      # a successful run may well talk: a summary on stdout, a notice on stderr (exit status 0 is what counts)
      echo "$base 12ms"
      echo "$name notice: a new version is available" >&2 ;;
  runfail) code=1 ;;
  missing) code=127 ;;
esac
echo "{\"ev\":\"run_end\",\"tool\":\"$tool\",\"file\":\"$base\",\"exit\":$code}" >> "$D/log"
exit $code
