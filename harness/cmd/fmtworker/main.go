// Command fmtworker drives the real generator.Formatters (C20) with stand-in tools on PATH and
// records traces.  It is built with -race; a detected data race makes the process exit 66.
//
//	fmtworker <jobs.json> <trace-out.ndjson> <workdir>
package main

import (
	"bytes"
	_ "embed"
	"encoding/json"
	"fmt"
	"os"
	"path/filepath"
	"strings"
	"sync"
	"time"

	"github.com/benoitkugler/gomacro/generator"
)

//go:embed tool.sh
var toolScript []byte

type Step struct {
	A    string `json:"a"`
	P    int    `json:"p"`
	Tool string `json:"tool"`
}

type Job struct {
	ID    int               `json:"id"`
	Mode  string            `json:"mode"` // free | gated | sched
	Avail map[string]string `json:"avail"`
	Reqs  map[string][]string `json:"reqs"` // proc -> tools requested in sequence (free, gated)
	Steps []Step            `json:"steps"` // sched
}

var formats = map[string]generator.Format{"go": generator.Go, "dart": generator.Dart, "ts": generator.TypeScript, "psql": generator.Psql}
var exts = map[string]string{"go": ".go", "dart": ".dart", "ts": ".ts", "psql": ".sql"}

type runner struct {
	dir  string
	log  *os.File
	fmts *generator.Formatters
	mu   sync.Mutex
	cnt  map[int]int
}

func (r *runner) emit(v any) {
	b, _ := json.Marshal(v)
	r.log.Write(append(b, '\n'))
}

// request issues one real FormatFile call for goroutine p.
func (r *runner) request(p int, tool string, gateRun bool) {
	r.mu.Lock()
	r.cnt[p]++
	k := r.cnt[p]
	r.mu.Unlock()
	ext := exts[tool]
	if (p+k)%3 == 0 {
		// the formatter is chosen by the Format argument, not by the name of the file
		ext = map[string]string{"go": ".go.tmpl", "dart": "", "ts": ".tsx", "psql": ".pgsql"}[tool]
	}
	base := fmt.Sprintf("p%dr%d%s", p, k, ext)
	file := filepath.Join(r.dir, base)
	before := []byte("package x // original content\n")
	os.WriteFile(file, before, 0o644)
	if gateRun {
		os.WriteFile(filepath.Join(r.dir, "gate.run."+base), nil, 0o644)
	}
	r.emit(map[string]any{"ev": "call", "p": p, "tool": tool, "file": base})
	err := r.fmts.FormatFile(formats[tool], file)
	after, _ := os.ReadFile(file)
	r.emit(map[string]any{"ev": "return", "p": p, "err": err != nil, "changed": !bytes.Equal(before, after)})
}

func (r *runner) logHas(substr string, count int) bool {
	b, _ := os.ReadFile(filepath.Join(r.dir, "log"))
	return strings.Count(string(b), substr) >= count
}

func (r *runner) waitLog(substr string, count int, d time.Duration) bool {
	deadline := time.Now().Add(d)
	for time.Now().Before(deadline) {
		if r.logHas(substr, count) {
			return true
		}
		time.Sleep(time.Millisecond)
	}
	return false
}

func runJob(job Job, work string) (lines []string, note string) {
	dir := filepath.Join(work, fmt.Sprintf("job%d", job.ID))
	os.MkdirAll(dir, 0o755)
	defer os.RemoveAll(dir)
	for t, a := range job.Avail {
		os.WriteFile(filepath.Join(dir, "avail."+t), []byte(a+"\n"), 0o644)
	}
	os.Setenv("VERIF_FMT_DIR", dir)
	lf, err := os.OpenFile(filepath.Join(dir, "log"), os.O_CREATE|os.O_WRONLY|os.O_APPEND, 0o644)
	if err != nil {
		panic(err)
	}
	r := &runner{dir: dir, log: lf, fmts: &generator.Formatters{}, cnt: map[int]int{}}
	var wg sync.WaitGroup
	releaseAll := func() {
		gs, _ := filepath.Glob(filepath.Join(dir, "gate.*"))
		for _, g := range gs {
			os.Remove(g)
		}
	}
	switch job.Mode {
	case "free", "gated":
		if job.Mode == "gated" {
			for t := range job.Avail {
				os.WriteFile(filepath.Join(dir, "gate.probe."+t), nil, 0o644)
			}
		}
		for ps, tools := range job.Reqs {
			var p int
			fmt.Sscan(ps, &p)
			wg.Add(1)
			go func(p int, tools []string) {
				defer wg.Done()
				for _, t := range tools {
					r.request(p, t, false)
				}
			}(p, tools)
		}
		if job.Mode == "gated" {
			// the first probe of each tool is held inside the critical section while the other
			// goroutines arrive at the mutex
			time.Sleep(25 * time.Millisecond)
			releaseAll()
		}
	case "sched":
		type procState struct {
			ch   chan string
			done chan bool
		}
		procs := map[int]*procState{}
		for _, s := range job.Steps {
			if procs[s.P] == nil {
				ps := &procState{ch: make(chan string, 64), done: make(chan bool, 64)}
				procs[s.P] = ps
				wg.Add(1)
				go func(p int, ps *procState) {
					defer wg.Done()
					for t := range ps.ch {
						r.request(p, t, true)
						ps.done <- true
					}
				}(s.P, ps)
			}
		}
		for t := range job.Avail {
			os.WriteFile(filepath.Join(dir, "gate.probe."+t), nil, 0o644)
		}
		reqNo := map[int]int{}
		probeStarts := map[string]int{}
		const wait = 40 * time.Millisecond // soft: the real lock hand-over order may differ from the schedule
		followed := true
		for _, s := range job.Steps {
			switch s.A {
			case "call":
				reqNo[s.P]++
				procs[s.P].ch <- s.Tool
				time.Sleep(2 * time.Millisecond) // let it reach the mutex (or the probe)
			case "probe_start":
				probeStarts[s.Tool]++
				if !r.waitLog(fmt.Sprintf(`"probe_start","tool":%q`, s.Tool), probeStarts[s.Tool], wait) {
					followed = false
				}
			case "probe_end":
				os.Remove(filepath.Join(dir, "gate.probe."+s.Tool))
				if !r.waitLog(fmt.Sprintf(`"probe_end","tool":%q`, s.Tool), probeStarts[s.Tool], wait) {
					followed = false
				}
			case "run_start":
				base := fmt.Sprintf("p%dr%d%s", s.P, reqNo[s.P], exts[s.Tool])
				if !r.waitLog(fmt.Sprintf(`"run_start","tool":%q,"file":%q`, s.Tool, base), 1, wait) {
					followed = false
				}
			case "run_end":
				base := fmt.Sprintf("p%dr%d%s", s.P, reqNo[s.P], exts[s.Tool])
				os.Remove(filepath.Join(dir, "gate.run."+base))
			case "return":
				select {
				case <-procs[s.P].done:
				case <-time.After(wait):
					followed = false
				}
			}
		}
		if !followed {
			note = "schedule followed loosely (lock hand-over order differed)"
		}
		// every controlled step has been issued: open whatever is still closed
		go func() {
			for i := 0; i < 5000; i++ {
				releaseAll()
				time.Sleep(2 * time.Millisecond)
			}
		}()
		for _, ps := range procs {
			close(ps.ch)
		}
	}
	finished := make(chan bool)
	go func() { wg.Wait(); close(finished) }()
	select {
	case <-finished:
	case <-time.After(10 * time.Second):
		note = "deadlock: a request never returned"
		releaseAll()
	}
	lf.Close()
	b, _ := os.ReadFile(filepath.Join(dir, "log"))
	for _, ln := range strings.Split(strings.TrimSpace(string(b)), "\n") {
		if ln != "" {
			lines = append(lines, ln)
		}
	}
	return lines, note
}

func main() {
	if len(os.Args) < 4 {
		fmt.Fprintln(os.Stderr, "usage: fmtworker jobs.json out.ndjson workdir")
		os.Exit(2)
	}
	var jobs []Job
	b, err := os.ReadFile(os.Args[1])
	if err != nil {
		panic(err)
	}
	if err := json.Unmarshal(b, &jobs); err != nil {
		panic(err)
	}
	work, _ := filepath.Abs(os.Args[3])
	bin := filepath.Join(work, "bin")
	os.MkdirAll(bin, 0o755)
	os.WriteFile(filepath.Join(bin, "tool.sh"), toolScript, 0o755)
	for _, n := range []string{"which", "goimports", "dart", "npx", "pg_format"} {
		os.Remove(filepath.Join(bin, n))
		if err := os.Symlink("tool.sh", filepath.Join(bin, n)); err != nil {
			panic(err)
		}
	}
	os.Setenv("PATH", bin) // nothing but the stand-ins: no real formatter can ever be reached
	out, err := os.Create(os.Args[2])
	if err != nil {
		panic(err)
	}
	defer out.Close()
	for _, job := range jobs {
		lines, note := runJob(job, work)
		cfg, _ := json.Marshal(map[string]any{"ev": "config", "job": job.ID, "avail": job.Avail, "note": note})
		fmt.Fprintf(out, "%s\n", cfg)
		for _, ln := range lines {
			fmt.Fprintf(out, "%s\n", ln)
		}
	}
}
