// Command dbg runs the analysis and every generator on one Go file, printing each phase's outcome
// (debugging aid for replays: dbg <file.go>).
package main

import (
	"fmt"
	"os"
	"path/filepath"

	"github.com/benoitkugler/gomacro/analysis"

	"verif/harness/internal/gens"
	"verif/harness/internal/synth"
)

func main() {
	file, _ := filepath.Abs(os.Args[1])
	pkgs, root, err := analysis.LoadSources([]string{file})
	if err != nil {
		fmt.Println("load:", err)
		os.Exit(1)
	}
	var ana *analysis.Analysis
	class, msg := synth.Guard(func() { ana = analysis.NewAnalysisFromFile(pkgs[0], file) })
	fmt.Println("analysis:", class, msg)
	if class != synth.OutOK {
		return
	}
	for _, t := range gens.Targets {
		fmt.Println("->", t)
		o := gens.Run(t, pkgs[0], file, ana, root)
		fmt.Println("  ", o.Class, o.Msg)
		if len(os.Args) > 2 && os.Args[2] == t {
			fmt.Println(o.Text)
			for n, f := range o.Files {
				fmt.Println("=====", n)
				fmt.Println(f)
			}
		}
	}
}
