// Command verif is the driver of the verification framework:
//
//	verif <Cxx> <quick|thorough> [--replay file]
//
// It builds inputs from the TLA+ specification (TLC exports), runs the real gomacro code
// built from /repo's working tree, lets TLC judge the recorded observations against the
// specification, and writes evidence/<id>.json.
package main

import (
	"fmt"
	"io"
	"log"
	"os"
	"runtime"
	"strconv"
	"time"

	"verif/harness/internal/core"
)

type checkFn func(c *core.Ctx, replay string) (*core.Result, error)

var checks = map[string]checkFn{}

var workers = map[string]func(args []string){}

func main() {
	log.SetOutput(io.Discard) // gomacro logs through the standard logger
	if len(os.Args) >= 3 && os.Args[1] == "__worker" {
		w, ok := workers[os.Args[2]]
		if !ok {
			fmt.Fprintln(os.Stderr, "unknown worker", os.Args[2])
			os.Exit(2)
		}
		w(os.Args[3:])
		return
	}
	if len(os.Args) < 3 {
		fmt.Fprintln(os.Stderr, "usage: verif <Cxx> <quick|thorough> [--replay file]")
		os.Exit(2)
	}
	prop, tier := os.Args[1], os.Args[2]
	if env := os.Getenv("VERIF_TIER"); env == "quick" || env == "thorough" {
		_ = env // the tier given on the command line wins: MANIFEST registers one command per tier
	}
	replay := ""
	for i := 3; i < len(os.Args); i++ {
		if os.Args[i] == "--replay" && i+1 < len(os.Args) {
			replay = os.Args[i+1]
		}
	}
	fn, ok := checks[prop]
	if !ok {
		fmt.Fprintf(os.Stderr, "unknown property %s\n", prop)
		os.Exit(2)
	}
	seed := int64(1)
	if s := os.Getenv("VERIF_SEED"); s != "" {
		if v, err := strconv.ParseInt(s, 10, 64); err == nil {
			seed = v
		}
	}
	scratch, err := os.MkdirTemp("", "verif-"+prop+"-")
	if err != nil {
		fmt.Println("INCONCLUSIVE cannot create scratch:", err)
		os.Exit(2)
	}
	ctx := &core.Ctx{Prop: prop, Tier: tier, Seed: seed, Scratch: scratch, Start: time.Now(), Workers: runtime.NumCPU()}
	var (
		res    *core.Result
		runErr error
	)
	func() {
		defer func() {
			if r := recover(); r != nil {
				buf := make([]byte, 1<<14)
				n := runtime.Stack(buf, false)
				runErr = core.Inconcl("harness panic: %v\n%s", r, buf[:n])
			}
		}()
		res, runErr = fn(ctx, replay)
	}()
	code := 2
	if replay != "" && runErr == nil {
		code = core.FinishReplay(ctx, res)
	} else {
		code = core.Finish(ctx, res, runErr)
	}
	if os.Getenv("VERIF_KEEP") == "" {
		os.RemoveAll(scratch)
	} else {
		fmt.Fprintln(os.Stderr, "scratch kept:", scratch)
	}
	os.Exit(code)
}
