package main

import (
	"verif/harness/internal/c01"
	"verif/harness/internal/c02"
	"verif/harness/internal/c03"
	"verif/harness/internal/c04"
	"verif/harness/internal/c05"
	"verif/harness/internal/c06"
	"verif/harness/internal/c07"
	"verif/harness/internal/c08"
	"verif/harness/internal/c09"
	"verif/harness/internal/c10"
	"verif/harness/internal/c11"
	"verif/harness/internal/c12"
	"verif/harness/internal/c13"
	"verif/harness/internal/c14"
	"verif/harness/internal/c15"
	"verif/harness/internal/c16"
	"verif/harness/internal/c17"
	"verif/harness/internal/c18"
	"verif/harness/internal/c19"
	"verif/harness/internal/c20"
)

func init() {
	checks["C05"] = c05.Run
	workers["c05"] = c05.Worker
	checks["C06"] = c06.Run
	workers["c06"] = c06.Worker
	checks["C14"] = c14.Run
	workers["c14"] = c14.Worker
	checks["C13"] = c13.Run
	workers["c13"] = c13.Worker
	checks["C01"] = c01.Run
	workers["c01"] = c01.Worker
	checks["C16"] = c16.Run
	workers["c16"] = c16.Worker
	checks["C08"] = c08.Run
	workers["c08"] = c08.Worker
	checks["C04"] = c04.Run
	checks["C03"] = c03.Run
	checks["C15"] = c15.Run
	checks["C02"] = c02.Run
	checks["C07"] = c07.Run
	workers["c07"] = c07.Worker
	checks["C09"] = c09.Run
	workers["c09"] = c09.Worker
	checks["C18"] = c18.Run
	workers["c18"] = c18.Worker
	checks["C12"] = c12.Run
	workers["c12"] = c12.Worker
	checks["C11"] = c11.Run
	workers["c11"] = c11.Worker
	checks["C10"] = c10.Run
	workers["c10"] = c10.Worker
	checks["C17"] = c17.Run
	workers["c17"] = c17.Worker
	checks["C19"] = c19.Run
	workers["c19"] = c19.Worker
	checks["C20"] = c20.Run
}
