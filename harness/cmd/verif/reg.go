package main

import (
	"verif/harness/internal/c19"
)

func init() {
	checks["C19"] = c19.Run
}
