// Package gens runs the real generators of gomacro on an analysis, one guarded call per target.
package gens

import (
	"path/filepath"
	"sort"

	"github.com/benoitkugler/gomacro/analysis"
	"github.com/benoitkugler/gomacro/analysis/httpapi"
	"github.com/benoitkugler/gomacro/generator"
	"github.com/benoitkugler/gomacro/generator/dart"
	"github.com/benoitkugler/gomacro/generator/go/gounions"
	"github.com/benoitkugler/gomacro/generator/go/randdata"
	"github.com/benoitkugler/gomacro/generator/go/sqlcrud"
	gensql "github.com/benoitkugler/gomacro/generator/sql"
	"github.com/benoitkugler/gomacro/generator/typescript"
	"golang.org/x/tools/go/packages"

	"verif/harness/internal/synth"
)

// Targets in the vocabulary of cmd/gomacro (sqlcrud twice: generate-sets off / on).
var Targets = []string{"go/unions", "go/sqlcrud", "go/sqlcrud+sets", "go/randdata", "sql", "typescript/types", "typescript/api", "dart"}

type Out struct {
	Target string            `json:"target"`
	Class  string            `json:"class"` // ok | diag | runtime
	Msg    string            `json:"msg"`
	Text   string            `json:"text,omitempty"`  // single-file targets
	Files  map[string]string `json:"files,omitempty"` // dart: file name -> text
}

// Run generates one target the way cmd/gomacro does.
func Run(target string, pkg *packages.Package, file string, ana *analysis.Analysis, rootDir string) Out {
	o := Out{Target: target}
	o.Class, o.Msg = synth.Guard(func() {
		switch target {
		case "go/unions":
			o.Text = generator.WriteDeclarations(gounions.Generate(ana))
		case "go/sqlcrud":
			o.Text = generator.WriteDeclarations(sqlcrud.Generate(ana, false))
		case "go/sqlcrud+sets":
			o.Text = generator.WriteDeclarations(sqlcrud.Generate(ana, true))
		case "go/randdata":
			o.Text = generator.WriteDeclarations(randdata.Generate(ana))
		case "sql":
			o.Text = generator.WriteDeclarations(gensql.Generate(ana))
		case "typescript/types":
			o.Text = generator.WriteDeclarations(typescript.Generate(ana))
		case "typescript/api":
			abs, _ := filepath.Abs(file)
			api := httpapi.ParseEcho(ana.Pkg, abs, "")
			o.Text = typescript.GenerateAxios(api)
		case "dart":
			o.Files = map[string]string{}
			outs := dart.Generate(rootDir, []*analysis.Analysis{ana})
			sort.Slice(outs, func(i, j int) bool { return outs[i].Filename < outs[j].Filename })
			for _, f := range outs {
				o.Files[f.Filename] = generator.WriteDeclarations(f.Content)
			}
		default:
			panic("unknown target " + target)
		}
	})
	if o.Class != synth.OutOK {
		o.Text, o.Files = "", nil
	}
	return o
}

// All runs every target.
func All(pkg *packages.Package, file string, ana *analysis.Analysis, rootDir string) []Out {
	outs := make([]Out, 0, len(Targets))
	for _, t := range Targets {
		outs = append(outs, Run(t, pkg, file, ana, rootDir))
	}
	return outs
}

// Decls returns the declaration lists a target hands to generator.WriteDeclarations (per output file: "" for the
// single-file targets), as the generator supplied them.
func Decls(target string, ana *analysis.Analysis, rootDir string) (lists map[string][]generator.Declaration, class, msg string) {
	lists = map[string][]generator.Declaration{}
	class, msg = synth.Guard(func() {
		switch target {
		case "go/unions":
			lists[""] = gounions.Generate(ana)
		case "go/sqlcrud":
			lists[""] = sqlcrud.Generate(ana, false)
		case "go/sqlcrud+sets":
			lists[""] = sqlcrud.Generate(ana, true)
		case "go/randdata":
			lists[""] = randdata.Generate(ana)
		case "sql":
			lists[""] = gensql.Generate(ana)
		case "typescript/types":
			lists[""] = typescript.Generate(ana)
		case "dart":
			for _, f := range dart.Generate(rootDir, []*analysis.Analysis{ana}) {
				lists[f.Filename] = f.Content
			}
		}
	})
	return lists, class, msg
}
