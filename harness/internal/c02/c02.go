// Package c02 checks property C02 (union values survive the JSON round trip in the Kind/Data format)
// — spec/WireJSON.tla, TraceWire.tla.
package c02

import (
	"encoding/json"
	"fmt"
	"math/rand"
	"strings"
	"time"

	"verif/harness/internal/absprog"
	"verif/harness/internal/core"
	"verif/harness/internal/wire"
)

// Programs builds the seeded programs of the wire family (shared with C03, C04, C15).
func Programs(seed int64, n int, tweak func(o *absprog.Opts, rng *rand.Rand)) []*absprog.Prog {
	rng := rand.New(rand.NewSource(seed))
	var progs []*absprog.Prog
	for k := 0; k < n; k++ {
		o := absprog.Full()
		o.NStructs = 2 + rng.Intn(5)
		o.MaxFields = 6
		o.DashTags = true
		if tweak != nil {
			tweak(&o, rng)
		}
		progs = append(progs, absprog.Random(k+1, rng, o))
	}
	return progs
}

// foreignUnion: struct fields typed by an exported union of the sub package (alone, in a slice, next to a local
// union): they travel as Kind / Data objects like any union value, through the wrapper generated for that package.
func foreignUnion(id int) *absprog.Prog {
	return &absprog.Prog{ID: id, Decls: []absprog.Decl{
		{K: "iface", Name: "Figure", Pkg: "sub", IMethods: []string{"isFigure"}},
		{K: "struct", Name: "Disc", Pkg: "sub", Fields: []absprog.Field{{Name: "R", Type: absprog.Basic("int")}}, Methods: []absprog.Method{{Name: "isFigure"}}},
		{K: "struct", Name: "Bar", Pkg: "sub", Fields: []absprog.Field{{Name: "W", Type: absprog.Basic("int")}, {Name: "Label", Type: absprog.Basic("string"), Tag: `json:"label"`}}, Methods: []absprog.Method{{Name: "isFigure"}}},
		{K: "iface", Name: "Shape", IMethods: []string{"isShape"}},
		{K: "struct", Name: "Circle", Fields: []absprog.Field{{Name: "R", Type: absprog.Basic("int")}}, Methods: []absprog.Method{{Name: "isShape"}}},
		{K: "struct", Name: "Drawing", Fields: []absprog.Field{{Name: "Title", Type: absprog.Basic("string")}, {Name: "Main", Type: absprog.Ref("sub", "Figure")}}},
		{K: "struct", Name: "Mixed", Fields: []absprog.Field{{Name: "Local", Type: absprog.Ref("", "Shape")}, {Name: "Far", Type: absprog.Ref("sub", "Figure"), Tag: `json:"far"`}, {Name: "N", Type: absprog.Basic("int")}}},
	}}
}

type replayCase struct {
	Prog absprog.Prog `json:"prog"`
	Type string       `json:"type"`
	Seed int64        `json:"seed"`
}

func Run(c *core.Ctx, replay string) (*core.Result, error) {
	res := &core.Result{Level: "model_checking"}
	res.Assumptions = []string{
		"values are built by reflection from member values (unions never nil, enums from declared constants); tag options that change presence or encoding (omitempty, string) are outside the universe",
		"generated wrappers are compiled after the import fixing pass (golang.org/x/tools/imports, the library behind goimports)",
	}
	nProg, nVals := 8, 25
	if c.Thorough() {
		nProg, nVals = 60, 120
	}
	var progs []*absprog.Prog
	seed := c.Seed
	if replay != "" {
		var rc replayCase
		if err := core.LoadReplay(replay, &rc); err != nil {
			return nil, err
		}
		progs = []*absprog.Prog{&rc.Prog}
		seed = rc.Seed
	} else {
		progs = Programs(c.Seed, nProg, func(o *absprog.Opts, rng *rand.Rand) { o.TagOptions = true; o.Pointers = rng.Intn(2) == 0 })
		progs = append(progs, foreignUnion(len(progs)+1))
	}
	s, err := wire.Prepare(c.Sub("wire"), progs, false)
	if err != nil {
		return nil, core.Inconcl("%v", err)
	}
	var recs []any
	type ref struct {
		prog *absprog.Prog
		typ  string
	}
	refs := map[int]ref{}
	skipped := 0
	id := 0
	kinds := map[string]bool{}
	for _, pb := range s.Progs {
		if pb.Skipped != "" {
			skipped++
			res.Drift = append(res.Drift, fmt.Sprintf("program %d left out: %s", pb.Prog.ID, pb.Skipped))
			continue
		}
		out, died, err := s.RunProg(pb.Prog.ID, seed, nVals, 0, nil, 2*time.Minute)
		if err != nil || died != "" {
			return nil, core.Inconcl("wire binary on program %d: %v %s", pb.Prog.ID, err, died)
		}
		for _, r := range out {
			if r["ev"] == "error" {
				return nil, core.Inconcl("engine error: %v", r["msg"])
			}
			if r["ev"] != "value" {
				continue
			}
			id++
			r["case"] = id
			refs[id] = ref{pb.Prog, r["type"].(string)}
			recs = append(recs, r)
			b, _ := json.Marshal(r["doc"])
			kinds[fmt.Sprint(pb.Prog.ID, r["type"], string(b))] = true
			if id%211 == 5 {
				res.Sample(map[string]any{"type": r["type"], "doc": r["doc"], "roundtrip": r["roundtrip"]})
			}
		}
	}
	if len(recs) == 0 {
		return nil, core.Inconcl("no value was produced (%d programs skipped)", skipped)
	}
	bad, err := c.JudgeTrace(res, "TraceWire", recs)
	if err != nil {
		return nil, err
	}
	for _, v := range bad {
		rf := refs[core.Int(v, "case")]
		why := core.Str(v, "why")
		key := why
		if i := strings.Index(why, ": "); i > 0 {
			key = why[:i] + ": " + firstWords(why[i+2:], 5)
		}
		rec := recs[core.Int(v, "case")-1].(wire.Record)
		db, _ := json.Marshal(rec["doc"])
		if d, ok := rec["rtdiff"].(string); ok {
			why += " [" + d + "]"
		}
		res.Violations = append(res.Violations, core.Violation{Key: key, What: fmt.Sprintf("%s; type %s of program %d; bytes (tagged) %.400s", why, rf.typ, rf.prog.ID, db),
			Replay: replayCase{Prog: *rf.prog, Type: rf.typ, Seed: seed}})
	}
	res.Evaluations = len(recs)
	res.TracesVsImpl = len(recs)
	res.Nontrivial = len(kinds)
	// coverage guard: a generator refusing (or breaking on) most packages would silently empty the check
	if replay == "" && skipped*3 > len(progs) {
		return nil, core.Inconcl("%d of %d packages were left out (generator refusal or generated code that does not compile): the check no longer covers its universe", skipped, len(progs))
	}
	res.Rule = fmt.Sprintf("%d seeded random packages (unions as struct fields, in named slices and named maps, nested structs, struct / named basic / named slice members, members shared by two unions, json-tagged / json:\"-\" / unexported siblings, enums, time, generics, sub-package and std-lib types), %d reflection-built values per top-level type (nil and empty slices and maps, zero values, unicode strings), each marshalled and unmarshalled by a binary compiled with the generated wrappers; distinct = distinct (type, document)", len(progs)-skipped, nVals)
	res.Extra = map[string]any{"programs_left_out": skipped}
	return res, nil
}

func firstWords(s string, n int) string {
	f := strings.Fields(s)
	if len(f) > n {
		f = f[:n]
	}
	return strings.Join(f, " ")
}
