// Package c03 checks property C03 (Go's JSON inhabits the generated TypeScript types) — spec/TsSem.tla, TraceTs.tla.
package c03

import (
	"encoding/json"
	"fmt"
	"math/rand"
	"strings"
	"time"

	"verif/harness/internal/absprog"
	"verif/harness/internal/c02"
	"verif/harness/internal/core"
	"verif/harness/internal/gens"
	"verif/harness/internal/synth"
	"verif/harness/internal/tsparse"
	"verif/harness/internal/wire"
)

const bytesKey = "[]byte is typed as a nullable number array but Go writes a base64 string"
const dupKey = "same local type name in two packages: one TypeScript name declared twice"

type replayCase struct {
	Prog absprog.Prog `json:"prog"`
	Type string       `json:"type"`
	Seed int64        `json:"seed"`
}

// Witnesses of the recorded findings (kept visible on every run).
func witnessBytes(id int) *absprog.Prog {
	u8 := absprog.Basic("uint8")
	return &absprog.Prog{ID: id, Decls: []absprog.Decl{
		{K: "named", Name: "Tiny", Under: &u8, Iota: true, Consts: []absprog.Const{{Name: "T0"}, {Name: "T1"}}},
		{K: "struct", Name: "Blob", Fields: []absprog.Field{{Name: "Raw", Type: absprog.Slice(absprog.Basic("byte"))}, {Name: "N", Type: absprog.Basic("int")}}},
		// a slice of a named uint8 (enum) is a byte slice for encoding/json as well
		{K: "struct", Name: "Tinies", Fields: []absprog.Field{{Name: "Ks", Type: absprog.Slice(absprog.Ref("", "Tiny"))}, {Name: "N", Type: absprog.Basic("int")}}},
	}}
}

func witnessDup(id int) *absprog.Prog {
	u := absprog.Basic("int")
	s := absprog.Basic("string")
	return &absprog.Prog{ID: id, Decls: []absprog.Decl{
		{K: "named", Name: "Kind", Pkg: "sub", Under: &u, Iota: true, Consts: []absprog.Const{{Name: "K0"}, {Name: "K1"}}},
		{K: "named", Name: "Kind", Under: &s, Consts: []absprog.Const{{Name: "Ka", Val: `"a"`}, {Name: "Kb", Val: `"b"`}}},
		{K: "struct", Name: "Item", Fields: []absprog.Field{{Name: "K", Type: absprog.Ref("", "Kind")}, {Name: "SK", Type: absprog.Ref("sub", "Kind")}}},
	}}
}

func Run(c *core.Ctx, replay string) (*core.Result, error) {
	res := &core.Result{Level: "model_checking"}
	res.Assumptions = []string{
		"reading choices of DESIGN.md §4 C03: brands are inhabited by their base type; Record<K,V> demands keys inside K's key space and values in V; enum-typed components hold member values; omitempty/string options are outside the universe",
		"no TypeScript compiler is installed: syntax is judged by the declaration parser of the harness (harness/internal/tsparse)",
	}
	nProg, nVals := 8, 20
	if c.Thorough() {
		nProg, nVals = 60, 100
	}
	var progs []*absprog.Prog
	seed := c.Seed
	nWitness := 0
	if replay != "" {
		var rc replayCase
		if err := core.LoadReplay(replay, &rc); err != nil {
			return nil, err
		}
		progs = []*absprog.Prog{&rc.Prog}
		seed = rc.Seed
	} else {
		progs = c02.Programs(c.Seed, nProg, func(o *absprog.Opts, rng *rand.Rand) { o.OddEnumValues = true; o.DigitKeys = true })
		// every field kind alone in its file: nothing it needs can come from a neighbour
		for _, te := range absprog.MinimalKinds() {
			progs = append(progs, absprog.Minimal(len(progs)+1, te))
		}
		// local named types spelled like the generator's own brands / aliases (Time, Date_, Int), alone in their file
		tt := absprog.Time()
		i64 := absprog.Basic("int64")
		progs = append(progs, &absprog.Prog{ID: len(progs) + 1, Decls: []absprog.Decl{
			{K: "named", Name: "Time", Under: &tt, Extra: "func (d Time) MarshalJSON() ([]byte, error) { return time.Time(d).MarshalJSON() }\nfunc (d *Time) UnmarshalJSON(b []byte) error { return (*time.Time)(d).UnmarshalJSON(b) }"},
			{K: "struct", Name: "Agenda", Fields: []absprog.Field{{Name: "At", Type: absprog.Ref("", "Time")}, {Name: "Title", Type: absprog.Basic("string")}}}}})
		progs = append(progs, &absprog.Prog{ID: len(progs) + 1, Decls: []absprog.Decl{
			{K: "named", Name: "Int", Under: &i64},
			{K: "struct", Name: "Counter", Fields: []absprog.Field{{Name: "N", Type: absprog.Ref("", "Int")}, {Name: "Label", Type: absprog.Basic("string")}}}}})
		progs = append(progs, witnessBytes(len(progs)+1), witnessDup(len(progs)+2))
		nWitness = 2
	}
	s, err := wire.Prepare(c.Sub("wire"), progs, false)
	if err != nil {
		return nil, core.Inconcl("%v", err)
	}
	var recs []any
	type ref struct {
		prog *absprog.Prog
		typ  string
	}
	refs := map[int]ref{}
	id := 0
	skipped := 0
	distinct := map[string]bool{}
	for i, pb := range s.Progs {
		if pb.Skipped != "" {
			skipped++
			res.Drift = append(res.Drift, fmt.Sprintf("program %d left out: %s", pb.Prog.ID, pb.Skipped))
			continue
		}
		ts := gens.Run("typescript/types", s.Pkgs[i], s.Mod.Abs(fmt.Sprintf("p%d/defs.go", pb.Prog.ID)), s.Anas[i], s.Root)
		if ts.Class != synth.OutOK {
			// refusing supported input is C18's / C01's business; nothing to judge here
			res.Drift = append(res.Drift, fmt.Sprintf("program %d: typescript generator %s: %s", pb.Prog.ID, ts.Class, ts.Msg))
			continue
		}
		id++
		envRec := map[string]any{"ev": "tsenv", "case": id, "prog": pb.Prog.ID, "syntax": "", "decls": []any{}}
		f, perr := tsparse.Parse(ts.Text)
		if perr != nil {
			envRec["syntax"] = perr.Error()
		} else {
			f.Normalize()
			envRec["decls"] = f.Decls
		}
		recs = append(recs, envRec)
		refs[id] = ref{pb.Prog, ""}
		out, died, err := s.RunProg(pb.Prog.ID, seed, nVals, 0, nil, 2*time.Minute)
		if err != nil || died != "" {
			return nil, core.Inconcl("wire binary on program %d: %v %s", pb.Prog.ID, err, died)
		}
		for _, r := range out {
			if r["ev"] != "value" || fmt.Sprint(r["err"]) != "" {
				continue
			}
			id++
			recs = append(recs, map[string]any{"ev": "doc", "case": id, "prog": pb.Prog.ID, "tsname": r["type"], "doc": r["doc"]})
			refs[id] = ref{pb.Prog, r["type"].(string)}
			b, _ := json.Marshal(r["doc"])
			distinct[fmt.Sprint(pb.Prog.ID, r["type"], string(b))] = true
			if id%307 == 11 {
				res.Sample(map[string]any{"type": r["type"], "doc": r["doc"]})
			}
		}
		if i == 0 {
			res.Sample(map[string]any{"typescript_output_of_program_1": firstLines(ts.Text, 40)})
		}
	}
	bad, err := c.JudgeTrace(res, "TraceTs", recs)
	if err != nil {
		return nil, err
	}
	for _, v := range bad {
		rf := refs[core.Int(v, "case")]
		why := core.Str(v, "why")
		key := why
		for _, pre := range []string{"TypeScript output is not syntactically valid", "TypeScript output mentions an undeclared name", "TypeScript output declares a name twice", "no TypeScript declaration for the analysed type", "a document Go emits is not an inhabitant"} {
			if strings.HasPrefix(why, pre) {
				key = pre
			}
		}
		isWitness := replay == "" && rf.prog.ID > len(progs)-nWitness
		if isWitness && rf.prog.ID == len(progs)-1 && key == "a document Go emits is not an inhabitant" {
			key = bytesKey
		}
		if isWitness && rf.prog.ID == len(progs) && key == "TypeScript output declares a name twice" {
			key = dupKey
		}
		detail := ""
		if rf.typ != "" {
			rec := recs[core.Int(v, "case")-1].(map[string]any)
			b, _ := json.Marshal(rec["doc"])
			detail = fmt.Sprintf("; document (tagged) %.500s", b)
		}
		res.Violations = append(res.Violations, core.Violation{Key: key, What: fmt.Sprintf("%s (program %d)%s", why, rf.prog.ID, detail),
			Replay: replayCase{Prog: *rf.prog, Type: rf.typ, Seed: seed}})
	}
	res.Evaluations = len(recs)
	res.TracesVsImpl = len(recs)
	res.Nontrivial = len(distinct)
	// coverage guard: a generator refusing (or breaking on) most packages would silently empty the check
	if replay == "" && skipped*3 > len(progs) {
		return nil, core.Inconcl("%d of %d packages were left out (generator refusal or generated code that does not compile): the check no longer covers its universe", skipped, len(progs))
	}
	res.Rule = fmt.Sprintf("%d seeded random packages + 2 witnesses of recorded findings; per package the real TypeScript output is parsed into an environment and every document marshalled from %d reflection-built values per top-level type (compiled with the generated wrappers) is judged against it; distinct = distinct (type, document)", len(progs)-nWitness-skipped, nVals) + fmt.Sprintf("; %d of the packages are single-field programs (one field kind alone in the analysed file)", len(absprog.MinimalKinds()))
	res.Extra = map[string]any{"programs_left_out": skipped}
	return res, nil
}

func firstLines(s string, n int) string {
	ls := strings.Split(s, "\n")
	if len(ls) > n {
		ls = ls[:n]
	}
	return strings.Join(ls, "\n")
}
