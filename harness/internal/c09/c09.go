// Package c09 checks property C09 (field selection and JSON naming) — spec/FieldsDef.tla, FieldsModel.tla, TraceFields.tla.
package c09

import (
	"encoding/json"
	"fmt"
	"math/rand"
	"os"
	"os/exec"
	"path/filepath"
	"strings"
	"time"

	"github.com/benoitkugler/gomacro/analysis"

	"verif/harness/internal/core"
	"verif/harness/internal/gens"
	"verif/harness/internal/proj"
	"verif/harness/internal/synth"
	"verif/harness/internal/tsparse"
)

type AField struct {
	Goname   string   `json:"goname"`
	Exported bool     `json:"exported"`
	Emb      string   `json:"emb"`
	Tagname  string   `json:"tagname"`
	Tagopts  string   `json:"tagopts"`
	Hasjson  bool     `json:"hasjson"`
	Gomacro  string   `json:"gomacro"`
	Sub      []AField `json:"sub"`
	// rendering decorations (do not change keys)
	Other  string `json:"other"`  // "", before, after: another tag key around json
	Opaque string `json:"opaque"` // value of gomacro-opaque
	Type   string `json:"gotype"`
}

type Case struct {
	Case    int      `json:"case"`
	Fields  []AField `json:"fields"`
	Ignored string   `json:"ignored"` // how the extra ignored field of the metamorphic twin is spelled
	Outcome string   `json:"outcome"`
	Encjson []string `json:"encjson"`
	Api     []string `json:"api"`
	Ts      []string `json:"ts"`
	DartFrom []string `json:"dartFrom"`
	DartTo  []string `json:"dartTo"`
	SqlKeys []string `json:"sqlKeys"`
	SqlChecks []string `json:"sqlChecks"`
	Meta    struct {
		Ts   bool `json:"ts"`
		Dart bool `json:"dart"`
		Sql  bool `json:"sql"`
	} `json:"meta"`
	Source string `json:"source,omitempty"`
	Note   string `json:"note,omitempty"`
}

func tagText(f AField) string {
	var parts []string
	js := ""
	if f.Hasjson {
		js = fmt.Sprintf(`json:"%s%s"`, f.Tagname, f.Tagopts)
	}
	if f.Other == "before" {
		parts = append(parts, `xml:"x,attr"`)
	}
	if js != "" {
		parts = append(parts, js)
	}
	if f.Other == "after" {
		parts = append(parts, `yaml:"y"`)
	}
	if f.Gomacro != "" {
		parts = append(parts, fmt.Sprintf(`gomacro:"%s"`, f.Gomacro))
	}
	if f.Opaque != "" {
		parts = append(parts, fmt.Sprintf(`gomacro-opaque:"%s"`, f.Opaque))
	}
	if len(parts) == 0 {
		return ""
	}
	return " `" + strings.Join(parts, " ") + "`"
}

func fieldName(f AField) string {
	if f.Exported {
		return f.Goname
	}
	return strings.ToLower(f.Goname[:1]) + f.Goname[1:]
}

func renderFields(fs []AField, decls *strings.Builder, prefix string) string {
	var b strings.Builder
	for i, f := range fs {
		switch f.Emb {
		case "struct":
			tn := fieldName(f)
			fmt.Fprintf(decls, "type %s struct {\n%s}\n\n", tn, renderFields(f.Sub, decls, prefix+fmt.Sprint(i)))
			fmt.Fprintf(&b, "\t%s%s\n", tn, tagText(f))
		case "basic":
			tn := fieldName(f)
			fmt.Fprintf(decls, "type %s string\n\n", tn)
			fmt.Fprintf(&b, "\t%s%s\n", tn, tagText(f))
		default:
			ty := f.Type
			if ty == "" {
				ty = "int"
			}
			fmt.Fprintf(&b, "\t%s %s%s\n", fieldName(f), ty, tagText(f))
		}
	}
	return b.String()
}

// render writes package dir (name fx) with struct S built from the fields (+ the ignored twin field).
func render(c *Case, twin bool) string {
	var decls strings.Builder
	body := renderFields(c.Fields, &decls, "")
	if twin {
		switch c.Ignored {
		case "unexported":
			body += "\textra Other\n"
		case "jsondash":
			body += "\tExtra Other `json:\"-\"`\n"
		default:
			body += "\tExtra Other `gomacro:\"ignore\"`\n"
		}
	}
	// S lives outside the analysed file: it is reached as the jsonb column of Tbl, never a table itself
	out := "package fx\n\ntype Other struct{ Q []string }\n\n" + decls.String() + "type S struct {\n" + body + "}\n"
	if sharesBase(c) {
		// a second struct embedding the same struct first, with fields of its own: S keeps its own fields
		out += "\ntype S2 struct {\n\t" + fieldName(c.Fields[0]) + "\n\tVotes int\n\tNote  string\n}\n"
	}
	return out
}

// sharesBase: the first field of S is an embedded struct, which a second struct S2 (column Col2 of Tbl) embeds too.
func sharesBase(c *Case) bool {
	return len(c.Fields) > 0 && c.Fields[0].Emb == "struct" && c.Fields[0].Exported && !c.Fields[0].Hasjson && c.Fields[0].Gomacro == ""
}

func sourceFile(c *Case) string {
	if sharesBase(c) {
		return "package fx\n\ntype Tbl struct {\n\tId   int64\n\tCol  S\n\tCol2 S2\n}\n"
	}
	return "package fx\n\ntype Tbl struct {\n\tId  int64\n\tCol S\n}\n"
}

func dirOf(i int, twin bool) string {
	if twin {
		return fmt.Sprintf("m%d", i)
	}
	return fmt.Sprintf("f%d", i)
}

type workIn struct {
	Cases []Case `json:"cases"`
}

func keysOfTS(text string) ([]string, error) {
	f, err := tsparse.Parse(text)
	if err != nil {
		return nil, err
	}
	ds := f.Find("S")
	if len(ds) != 1 {
		return nil, fmt.Errorf("%d declarations of S", len(ds))
	}
	out := []string{}
	switch ds[0].D {
	case "interface":
		for _, p := range ds[0].Props {
			out = append(out, p.Name)
		}
	case "type": // empty struct: Record<string, never>
	}
	return out, nil
}

func Worker(args []string) {
	core.WorkerIO(args, func(in workIn, dir string) workIn {
		mod, err := synth.NewModule(dir)
		if err != nil {
			panic(err)
		}
		var rels []string
		var mainImports, mainCases strings.Builder
		for i := range in.Cases {
			c := &in.Cases[i]
			for _, twin := range []bool{false, true} {
				d := dirOf(c.Case, twin)
				mod.Write(map[string]string{d + "/defs.go": sourceFile(c), d + "/other.go": render(c, twin)})
				rels = append(rels, d+"/defs.go")
			}
			c.Source = render(c, false)
			fmt.Fprintf(&mainImports, "\tf%d %q\n", c.Case, synth.ModRoot+"/"+dirOf(c.Case, false))
			fmt.Fprintf(&mainCases, "\t%d: &f%d.S{},\n", c.Case, c.Case)
		}
		// ground truth: encoding/json on a value with every field set
		mainSrc := "package main\n\nimport (\n\t\"bytes\"\n\t\"encoding/json\"\n\t\"fmt\"\n\t\"reflect\"\n" + mainImports.String() + ")\n\nvar cases = map[int]any{\n" + mainCases.String() + "}\n" + mainBody
		mod.Write(map[string]string{"zmain/main.go": mainSrc})
		cmd := exec.Command("go", "run", "./zmain")
		cmd.Dir = mod.Dir
		outb, err := cmd.Output()
		truth := map[string][]string{}
		if err != nil {
			msg := err.Error()
			if ee, ok := err.(*exec.ExitError); ok {
				msg += ": " + core.Tail(string(ee.Stderr), 15)
			}
			for i := range in.Cases {
				in.Cases[i].Note = "ground-truth binary failed: " + msg
			}
			return in
		}
		json.Unmarshal(outb, &truth)
		pkgs, root, err := mod.Load(rels)
		if err != nil {
			for i := range in.Cases {
				in.Cases[i].Note = "load failed: " + err.Error()
			}
			return in
		}
		for i := range in.Cases {
			c := &in.Cases[i]
			c.Encjson = truth[fmt.Sprint(c.Case)]
			if c.Encjson == nil {
				c.Encjson = []string{}
			}
			c.Api, c.Ts, c.DartFrom, c.DartTo, c.SqlKeys, c.SqlChecks = []string{}, []string{}, []string{}, []string{}, []string{}, []string{}
			type outs struct{ ts, dart, sql string }
			var both [2]outs
			c.Outcome = "ok"
			for t, twin := range []bool{false, true} {
				pkg := pkgs[2*i+t]
				file := mod.Abs(rels[2*i+t])
				var ana *analysis.Analysis
				class, msg := synth.Guard(func() { ana = analysis.NewAnalysisFromFile(pkg, file) })
				if class != synth.OutOK {
					c.Outcome = "analysis " + class + ": " + msg
					break
				}
				if !twin {
					st := ana.Types[pkg.Types.Scope().Lookup("S").Type()].(*analysis.Struct)
					for _, f := range st.Fields {
						if f.Exported() {
							c.Api = append(c.Api, f.JSONName())
						}
					}
				}
				ts := gens.Run("typescript/types", pkg, file, ana, root)
				da := gens.Run("dart", pkg, file, ana, root)
				sq := gens.Run("sql", pkg, file, ana, root)
				for _, o := range []gens.Out{ts, da, sq} {
					if o.Class != synth.OutOK && c.Outcome == "ok" {
						c.Outcome = o.Target + " " + o.Class + ": " + o.Msg
					}
				}
				if c.Outcome != "ok" {
					break
				}
				var dartText string
				for name, text := range da.Files {
					if strings.Contains(text, "class S ") {
						dartText = text
						_ = name
					}
				}
				norm := func(s string) string { return strings.ReplaceAll(s, dirOf(c.Case, true), dirOf(c.Case, false)) }
				both[t] = outs{norm(ts.Text), norm(dartText), norm(sq.Text)}
				if !twin {
					var err error
					if c.Ts, err = keysOfTS(ts.Text); err != nil {
						c.Outcome = "typescript output does not parse: " + err.Error()
						break
					}
					if c.DartFrom, c.DartTo, err = proj.DartStructKeys(dartText, "s"); err != nil {
						c.Note = "dart projection: " + err.Error()
					}
					if c.SqlKeys, c.SqlChecks, err = proj.ValidatorKeys(sq.Text, "gomacro_validate_json_fx_S"); err != nil {
						c.Note = "sql projection: " + err.Error()
					}
				}
			}
			c.Meta.Ts, c.Meta.Dart, c.Meta.Sql = both[0].ts == both[1].ts, both[0].dart == both[1].dart, both[0].sql == both[1].sql
		}
		return in
	})
}

const mainBody = `
func fill(v reflect.Value, depth int) {
	switch v.Kind() {
	case reflect.Struct:
		for i := 0; i < v.NumField(); i++ {
			if v.Field(i).CanSet() {
				fill(v.Field(i), depth+1)
			}
		}
	case reflect.Int, reflect.Int64, reflect.Int32, reflect.Int16, reflect.Int8:
		v.SetInt(7)
	case reflect.Uint8, reflect.Uint, reflect.Uint16, reflect.Uint32, reflect.Uint64:
		v.SetUint(7)
	case reflect.String:
		v.SetString("x")
	case reflect.Bool:
		v.SetBool(true)
	case reflect.Float64, reflect.Float32:
		v.SetFloat(1.5)
	case reflect.Slice:
		if depth < 4 {
			s := reflect.MakeSlice(v.Type(), 1, 1)
			fill(s.Index(0), depth+1)
			v.Set(s)
		}
	case reflect.Map:
		if depth < 4 {
			m := reflect.MakeMap(v.Type())
			k := reflect.New(v.Type().Key()).Elem()
			e := reflect.New(v.Type().Elem()).Elem()
			fill(k, depth+1)
			fill(e, depth+1)
			m.SetMapIndex(k, e)
			v.Set(m)
		}
	}
}

func main() {
	out := map[string][]string{}
	for id, p := range cases {
		fill(reflect.ValueOf(p).Elem(), 0)
		b, err := json.Marshal(p)
		if err != nil {
			panic(err)
		}
		keys := []string{}
		dec := json.NewDecoder(bytes.NewReader(b))
		depth := 0
		expectKey := false
		for {
			t, err := dec.Token()
			if err != nil {
				break
			}
			switch d := t.(type) {
			case json.Delim:
				if d == '{' || d == '[' {
					depth++
					expectKey = d == '{' && depth == 1
				} else {
					depth--
					expectKey = depth == 1
				}
			default:
				if depth == 1 && expectKey {
					keys = append(keys, t.(string))
					expectKey = false
				} else if depth == 1 {
					expectKey = true
				}
			}
		}
		out[fmt.Sprint(id)] = keys
	}
	b, _ := json.Marshal(out)
	fmt.Println(string(b))
}
`

func Run(c *core.Ctx, replay string) (*core.Result, error) {
	res := &core.Result{Level: "model_checking"}
	res.Assumptions = []string{
		"ground truth for keys is json.Marshal of a value with every field set, run in a binary compiled from the synthesised packages; the specification's rule of encoding/json is checked against it on every case (disagreement = exit 2)",
		"tag options that change presence or encoding (omitempty, string) are exercised for naming only",
	}
	var cases []Case
	nEnum := 0
	if replay != "" {
		var cs Case
		if err := core.LoadReplay(replay, &cs); err != nil {
			return nil, err
		}
		cases = []Case{{Case: 1, Fields: cs.Fields, Ignored: cs.Ignored}}
	} else {
		ef := filepath.Join(c.Scratch, "export.ndjson")
		t, err := c.RunTLC(core.TLCOpts{Module: "FieldsModel", Config: "FieldsModel.cfg", Workers: 1, Env: map[string]string{"VERIF_EXPORT": ef}})
		if err != nil {
			return nil, err
		}
		if t.ErrorKind != "" {
			return nil, core.Inconcl("design-level run of FieldsModel ended with %s %s (model-only counterexample)\n%s", t.ErrorKind, t.InvViolated, core.Tail(t.Output, 30))
		}
		res.AddTLC(t)
		recs, err := core.ReadNDJSON(ef)
		if err != nil {
			return nil, core.Inconcl("export: %v", err)
		}
		var universe []AField
		for _, r := range recs {
			b, _ := json.Marshal(r["field"])
			var f AField
			json.Unmarshal(b, &f)
			universe = append(universe, f)
		}
		nEnum = len(universe)
		rng := rand.New(rand.NewSource(c.Seed))
		sibling := func(name string) AField {
			return AField{Goname: name, Exported: true, Emb: "no", Sub: []AField{}, Type: []string{"int", "string", "[]int", "map[string]bool"}[rng.Intn(4)]}
		}
		// one string field keeps S out of the all-integer (SQL composite) class, so that it has a JSON validator
		strSibling := AField{Goname: "Zz", Exported: true, Emb: "no", Sub: []AField{}, Type: "string"}
		decorate := func(f AField) AField {
			f.Other = []string{"", "before", "after"}[rng.Intn(3)]
			if f.Emb == "no" {
				f.Type = []string{"int", "string", "bool", "[]string", "float64"}[rng.Intn(5)]
				if rng.Intn(5) == 0 {
					f.Opaque = []string{"typescript", "dart", "dart, typescript"}[rng.Intn(3)]
				}
			}
			if f.Sub == nil {
				f.Sub = []AField{}
			}
			for k := range f.Sub {
				if f.Sub[k].Sub == nil {
					f.Sub[k].Sub = []AField{}
				}
			}
			return f
		}
		id := 0
		ign := []string{"unexported", "jsondash", "gomacroignore"}
		// every field of the universe alone (between two siblings)
		for _, f := range universe {
			id++
			cases = append(cases, Case{Case: id, Fields: []AField{sibling("Aa"), decorate(f), strSibling}, Ignored: ign[id%3]})
		}
		// every exported, tagged, non-ignored plain field once more as an opaque field of each generator:
		// an opaque field keeps its key, only its type is hidden
		for _, f := range universe {
			if f.Exported && f.Hasjson && f.Tagname == "n" && f.Emb == "no" && f.Gomacro == "" {
				for _, op := range []string{"typescript", "dart", "dart, typescript"} {
					id++
					g := decorate(f)
					g.Opaque = op
					cases = append(cases, Case{Case: id, Fields: []AField{sibling("Aa"), g, strSibling}, Ignored: ign[id%3]})
				}
			}
		}
		// pairs and triples of random universe fields with distinct Go names
		extra := 60
		if c.Thorough() {
			extra = 12000
		}
		for k := 0; k < extra; k++ {
			id++
			n := 2 + rng.Intn(3)
			var fs []AField
			usedEmb, usedDash := false, false
			for j := 0; j < n; j++ {
				f := decorate(universe[rng.Intn(len(universe))])
				dash := f.Hasjson && f.Tagname == "-" && f.Tagopts != "" // `json:"-,..."` names the key "-"
				if dash && usedDash {
					f.Tagname, dash = fmt.Sprintf("d%d", j), false // keys stay distinct (duplicate-key rule out of scope)
				}
				usedDash = usedDash || dash
				if f.Emb == "struct" {
					if usedEmb {
						continue
					}
					usedEmb = true
				} else {
					f.Goname = fmt.Sprintf("F%c", 'a'+j)
					if f.Hasjson && f.Tagname == "n" {
						// keys stay distinct (the duplicate-key rule of encoding/json is out of scope) and take unusual shapes:
						// a dash, a leading digit, upper case, a space, non-ASCII letters
						f.Tagname = fmt.Sprintf([]string{"n%d", "n%d", "my-key%d", "%dth", "Key_%d", "with space %d", "clé%d"}[rng.Intn(7)], j)
					}
				}
				fs = append(fs, f)
			}
			fs = append(fs, strSibling)
			cases = append(cases, Case{Case: id, Fields: fs, Ignored: ign[rng.Intn(3)]})
		}
	}
	if replay == "" {
		// an embedded struct of three fields (its field list has spare capacity) embedded first by S and by S2
		plain := func(name, ty, key string) AField {
			return AField{Goname: name, Exported: true, Emb: "no", Sub: []AField{}, Type: ty, Hasjson: key != "", Tagname: key}
		}
		for _, n := range []int{3, 5} {
			base := AField{Goname: "Base", Exported: true, Emb: "struct", Sub: []AField{}}
			for k := 0; k < n; k++ {
				base.Sub = append(base.Sub, plain(fmt.Sprintf("B%d", k), []string{"int", "string"}[k%2], []string{"", fmt.Sprintf("b%d", k)}[k%2]))
			}
			cases = append(cases, Case{Case: len(cases) + 1, Fields: []AField{base, plain("Title", "string", "title"), plain("Zz", "string", "")}, Ignored: "jsondash"})
		}
	}
	var out workIn
	log, err := c.RunSelfWorker("c09", workIn{Cases: cases}, &out, 20*time.Minute)
	if err != nil {
		return nil, core.Inconcl("c09 worker: %v\n%s", err, core.Tail(log, 20))
	}
	var recs []any
	byCase := map[int]Case{}
	distinct := map[string]bool{}
	for i, cs := range out.Cases {
		if cs.Note != "" {
			return nil, core.Inconcl("case %d: %s\n%s", cs.Case, cs.Note, cs.Source)
		}
		src := cs.Source
		cs.Source = ""
		recs = append(recs, cs)
		cs.Source = src
		byCase[cs.Case] = cs
		distinct[src] = true
		if i%53 == 9 {
			res.Sample(map[string]any{"source": src, "encjson": cs.Encjson, "api": cs.Api, "ts": cs.Ts, "dartFrom": cs.DartFrom, "sqlKeys": cs.SqlKeys})
		}
	}
	bad, err := c.JudgeTrace(res, "TraceFields", recs)
	if err != nil {
		return nil, err
	}
	for _, v := range bad {
		cs := byCase[core.Int(v, "case")]
		why := core.Str(v, "why")
		key := why
		if core.Bool(v, "known") {
			key = "embedded struct carrying a json name / '-' / gomacro ignore is flattened all the same"
		}
		if strings.HasPrefix(why, "generation did not complete") {
			key = "generation did not complete"
		}
		res.Violations = append(res.Violations, core.Violation{Key: key, What: fmt.Sprintf("%s\nencoding/json keys %v, analysis %v, ts %v, dart %v/%v, sql %v/%v\n%s", why, cs.Encjson, cs.Api, cs.Ts, cs.DartFrom, cs.DartTo, cs.SqlKeys, cs.SqlChecks, cs.Source),
			Replay: Case{Fields: cs.Fields, Ignored: cs.Ignored}})
	}
	res.Evaluations = len(cases)
	res.TracesVsImpl = len(cases)
	res.Nontrivial = len(distinct)
	res.Rule = fmt.Sprintf("every field of the universe of FieldsModel.tla exported by TLC (%d fields: exported? x json tag absent / name {'' , n, -} x options {'', ',', ',omitempty'} x gomacro ignore, plain and embedded struct) between two siblings, plus seeded random structs of 2-4 such fields; decorations: other tag keys before/after json, gomacro-opaque, field types; each case is generated twice (with one more ignored field) for the metamorphic half; distinct = distinct source text", nEnum)
	os.Remove(filepath.Join(c.Scratch, "x"))
	return res, nil
}
