package proj

import (
	"fmt"
	"strings"
)

// ValidatorKeys finds the JSON validation function `fn` in an SQL script and returns the keys it
// accepts (string literals of `key IN (...)`) and the keys it checks (data->'k' arguments), in order.
func ValidatorKeys(src, fn string) (accepted, checked []string, err error) {
	toks, err := Lex(src, "--")
	if err != nil {
		return nil, nil, err
	}
	accepted, checked = []string{}, []string{}
	for i := 0; i+2 < len(toks); i++ {
		if !(strings.EqualFold(toks[i].V, "FUNCTION") && toks[i+1].V == fn) {
			continue
		}
		// body between the two $$
		j := i
		for j < len(toks) && toks[j].V != "$$" {
			j++
		}
		k := j + 1
		for k < len(toks) && toks[k].V != "$$" {
			k++
		}
		body := toks[j+1 : k]
		for b := 0; b+2 < len(body); b++ {
			if body[b].K == "id" && body[b].V == "key" && strings.EqualFold(body[b+1].V, "IN") && body[b+2].V == "(" {
				for c := b + 3; c < len(body) && body[c].V != ")"; c++ {
					if body[c].K == "str" {
						accepted = append(accepted, body[c].V)
					}
				}
			}
			if body[b].V == "data" && body[b+1].V == "->" && body[b+2].K == "str" {
				checked = append(checked, body[b+2].V)
			}
		}
		return accepted, checked, nil
	}
	return nil, nil, fmt.Errorf("validator %s not found", fn)
}
