package proj

import (
	"fmt"
	"strconv"
	"strings"
)

type Check struct {
	K    string   `json:"k"` // none | in | arraylen | json | other
	Vals []string `json:"vals"`
	N    int      `json:"n"`
	Text string   `json:"text"`
}

type Col struct {
	Name    string `json:"name"`
	Type    string `json:"type"`
	NotNull bool   `json:"notnull"`
	Primary bool   `json:"primary"`
	Check   Check  `json:"check"`
}

type Table struct {
	Name string `json:"name"`
	Cols []Col  `json:"cols"`
}

type FK struct {
	Table    string `json:"table"`
	Col      string `json:"col"`
	Ref      string `json:"ref"`
	OnDelete string `json:"ondelete"`
}

type Default struct {
	Table string `json:"table"`
	Col   string `json:"col"`
	Value string `json:"value"`
}

type TableCheck struct {
	Table string `json:"table"`
	Text  string `json:"text"` // tokens joined by one space
}

type JSONCheck struct {
	Table string `json:"table"`
	Col   string `json:"col"`
	Fn    string `json:"fn"`
}

type Composite struct {
	Name   string      `json:"name"`
	Fields [][2]string `json:"fields"`
}

type Schema struct {
	Tables     []Table      `json:"tables"`
	FKs        []FK         `json:"fks"`
	Defaults   []Default    `json:"defaults"`
	Checks     []TableCheck `json:"checks"`
	JSONChecks []JSONCheck  `json:"jsonchecks"`
	Composites []Composite  `json:"composites"`
	Other      []string     `json:"other"`      // every other statement, tokens joined by one space
	Statements [][]string   `json:"statements"` // every statement that is not CREATE TABLE / TYPE / FUNCTION, as tokens
	Functions  []string     `json:"functions"`
}

func joinToks(ts []Tok) string {
	parts := make([]string, len(ts))
	for i, t := range ts {
		if t.K == "str" {
			q := t.Q
			if q == "" {
				q = "'"
			}
			if q == "'" {
				parts[i] = q + strings.ReplaceAll(t.V, q, q+q) + q // an SQL literal: the quote is doubled inside
			} else {
				parts[i] = strconv.Quote(t.V) // Dart / Go spelling
			}
		} else {
			parts[i] = t.V
		}
	}
	return strings.Join(parts, " ")
}

// TokStrings renders tokens one by one (string literals with their quotes).
func TokStrings(ts []Tok) []string {
	out := make([]string, len(ts))
	for i, t := range ts {
		out[i] = joinToks([]Tok{t})
	}
	return out
}

func kw(t Tok, s string) bool { return t.K == "id" && strings.EqualFold(t.V, s) }

// splitStatements cuts the token stream at top-level semicolons (dollar-quoted bodies are skipped).
func splitStatements(toks []Tok) [][]Tok {
	var out [][]Tok
	var cur []Tok
	depth := 0
	inDollar := false
	for _, t := range toks {
		if t.K == "punct" && t.V == "$$" {
			inDollar = !inDollar
			cur = append(cur, t)
			continue
		}
		if inDollar {
			cur = append(cur, t)
			continue
		}
		if t.K == "punct" && t.V == "(" {
			depth++
		}
		if t.K == "punct" && t.V == ")" {
			depth--
		}
		if t.K == "punct" && t.V == ";" && depth == 0 {
			if len(cur) > 0 {
				out = append(out, cur)
			}
			cur = nil
			continue
		}
		cur = append(cur, t)
	}
	if len(cur) > 0 {
		out = append(out, cur)
	}
	return out
}

// splitTop splits tokens at top-level commas.
func splitTop(ts []Tok) [][]Tok {
	var out [][]Tok
	var cur []Tok
	depth := 0
	for _, t := range ts {
		if t.K == "punct" && t.V == "(" {
			depth++
		}
		if t.K == "punct" && t.V == ")" {
			depth--
		}
		if t.K == "punct" && t.V == "," && depth == 0 {
			out = append(out, cur)
			cur = nil
			continue
		}
		cur = append(cur, t)
	}
	if len(cur) > 0 {
		out = append(out, cur)
	}
	return out
}

// inner returns the tokens inside the parenthesis opening at ts[i] and the index after its close.
func inner(ts []Tok, i int) ([]Tok, int) {
	depth := 0
	for j := i; j < len(ts); j++ {
		if ts[j].K == "punct" && ts[j].V == "(" {
			depth++
		}
		if ts[j].K == "punct" && ts[j].V == ")" {
			depth--
			if depth == 0 {
				return ts[i+1 : j], j + 1
			}
		}
	}
	return ts[i+1:], len(ts)
}

func parseCheck(ts []Tok) Check {
	c := Check{K: "other", Vals: []string{}, Text: joinToks(ts)}
	// col IN ( v, v )
	if len(ts) >= 4 && ts[0].K == "id" && kw(ts[1], "IN") && ts[2].V == "(" {
		in, _ := inner(ts, 2)
		c.K = "in"
		for _, v := range splitTop(in) {
			c.Vals = append(c.Vals, joinToks(v))
		}
		return c
	}
	// array_length ( col , 1 ) = n
	if len(ts) >= 8 && kw(ts[0], "array_length") && ts[len(ts)-2].V == "=" && ts[len(ts)-1].K == "num" {
		c.K = "arraylen"
		fmt.Sscan(ts[len(ts)-1].V, &c.N)
		return c
	}
	return c
}

func parseColumn(ts []Tok) (Col, error) {
	if len(ts) < 2 {
		return Col{}, fmt.Errorf("column definition too short: %s", joinToks(ts))
	}
	c := Col{Name: ts[0].V, Check: Check{K: "none", Vals: []string{}}}
	var typ []string
	i := 1
	for i < len(ts) {
		t := ts[i]
		switch {
		case kw(t, "CHECK") && i+1 < len(ts) && ts[i+1].V == "(":
			in, next := inner(ts, i+1)
			c.Check = parseCheck(in)
			i = next
			continue
		case kw(t, "NOT") && i+1 < len(ts) && kw(ts[i+1], "NULL"):
			c.NotNull = true
			i += 2
			continue
		case kw(t, "PRIMARY") && i+1 < len(ts) && kw(ts[i+1], "KEY"):
			c.Primary = true
			c.NotNull = true
			i += 2
			continue
		case kw(t, "DEFAULT") || kw(t, "REFERENCES") || kw(t, "UNIQUE"):
			return c, fmt.Errorf("column constraint %s not understood in: %s", t.V, joinToks(ts))
		}
		typ = append(typ, strings.ToLower(t.V))
		i++
	}
	s := strings.Join(typ, " ")
	s = strings.ReplaceAll(s, " [ ]", "[]")
	s = strings.ReplaceAll(s, "( ", "(")
	s = strings.ReplaceAll(s, " )", ")")
	c.Type = s
	return c, nil
}

// ParseDDL projects a generated SQL script into table / constraint descriptors.
func ParseDDL(src string) (*Schema, error) {
	toks, err := Lex(src, "--")
	if err != nil {
		return nil, err
	}
	s := &Schema{Tables: []Table{}, FKs: []FK{}, Defaults: []Default{}, Checks: []TableCheck{}, JSONChecks: []JSONCheck{}, Composites: []Composite{}, Other: []string{}, Functions: []string{}, Statements: [][]string{}}
	for _, st := range splitStatements(toks) {
		if !(len(st) > 1 && kw(st[0], "CREATE") && (kw(st[1], "TABLE") || kw(st[1], "TYPE") || kw(st[1], "FUNCTION") || kw(st[1], "OR"))) {
			s.Statements = append(s.Statements, TokStrings(st))
		}
		switch {
		case len(st) > 3 && kw(st[0], "CREATE") && kw(st[1], "TABLE"):
			t := Table{Name: st[2].V, Cols: []Col{}}
			if st[3].V != "(" {
				return nil, fmt.Errorf("CREATE TABLE %s: column list expected", t.Name)
			}
			in, _ := inner(st, 3)
			for _, cd := range splitTop(in) {
				c, err := parseColumn(cd)
				if err != nil {
					return nil, err
				}
				t.Cols = append(t.Cols, c)
			}
			s.Tables = append(s.Tables, t)
		case len(st) > 4 && kw(st[0], "CREATE") && kw(st[1], "TYPE") && kw(st[3], "AS"):
			cp := Composite{Name: st[2].V, Fields: [][2]string{}}
			in, _ := inner(st, 4)
			for _, f := range splitTop(in) {
				if len(f) >= 2 {
					var ty []string
					for _, x := range f[1:] {
						ty = append(ty, strings.ToLower(x.V))
					}
					cp.Fields = append(cp.Fields, [2]string{f[0].V, strings.Join(ty, " ")})
				}
			}
			s.Composites = append(s.Composites, cp)
		case len(st) > 2 && kw(st[0], "CREATE") && (kw(st[1], "FUNCTION") || (kw(st[1], "OR") && len(st) > 4 && kw(st[3], "FUNCTION"))):
			for i, t := range st {
				if kw(t, "FUNCTION") && i+1 < len(st) {
					s.Functions = append(s.Functions, st[i+1].V)
					break
				}
			}
		case len(st) > 4 && kw(st[0], "ALTER") && kw(st[1], "TABLE"):
			table := st[2].V
			rest := st[3:]
			switch {
			case len(rest) >= 6 && kw(rest[0], "ADD") && kw(rest[1], "FOREIGN") && kw(rest[2], "KEY") && rest[3].V == "(":
				in, next := inner(rest, 3)
				fk := FK{Table: table}
				if len(in) == 1 && next+1 < len(rest) && kw(rest[next], "REFERENCES") {
					fk.Col = in[0].V
					fk.Ref = rest[next+1].V
					tail := rest[next+2:]
					if len(tail) >= 3 && kw(tail[0], "ON") && kw(tail[1], "DELETE") {
						var a []string
						for _, x := range tail[2:] {
							a = append(a, x.V)
						}
						fk.OnDelete = strings.Join(a, " ")
						s.FKs = append(s.FKs, fk)
					} else if len(tail) == 0 {
						s.FKs = append(s.FKs, fk)
					} else {
						s.Other = append(s.Other, joinToks(st))
					}
				} else {
					s.Other = append(s.Other, joinToks(st))
				}
			case len(rest) >= 6 && kw(rest[0], "ALTER") && kw(rest[1], "COLUMN") && kw(rest[3], "SET") && kw(rest[4], "DEFAULT"):
				s.Defaults = append(s.Defaults, Default{Table: table, Col: rest[2].V, Value: joinToks(rest[5:])})
			case len(rest) >= 5 && kw(rest[0], "ADD") && kw(rest[1], "CONSTRAINT") && kw(rest[3], "CHECK") && rest[4].V == "(":
				in, _ := inner(rest, 4)
				if len(in) == 4 && in[0].K == "id" && in[1].V == "(" && in[3].V == ")" {
					s.JSONChecks = append(s.JSONChecks, JSONCheck{Table: table, Col: in[2].V, Fn: in[0].V})
				} else {
					s.Other = append(s.Other, joinToks(st))
				}
			case len(rest) >= 3 && kw(rest[0], "ADD") && kw(rest[1], "CHECK") && rest[2].V == "(":
				in, _ := inner(rest, 2)
				s.Checks = append(s.Checks, TableCheck{Table: table, Text: joinToks(in)})
			default:
				s.Other = append(s.Other, joinToks(st))
			}
		default:
			s.Other = append(s.Other, joinToks(st))
		}
	}
	return s, nil
}
