package proj

import "fmt"

// DartStructKeys finds the fromJson / toJson routines of the Dart class `class` (function names
// <id>FromJson / <id>ToJson with id = class name with a lower-case first letter) and returns the
// JSON keys they read (json['k']) and write (map literal keys), in order.
func DartStructKeys(src, id string) (from, to []string, err error) {
	toks, err := Lex(src, "//")
	if err != nil {
		return nil, nil, err
	}
	from, to = []string{}, []string{}
	foundFrom, foundTo := false, false
	for i := 0; i < len(toks); i++ {
		t := toks[i]
		if t.K != "id" || i+1 >= len(toks) || toks[i+1].V != "(" {
			continue
		}
		switch t.V {
		case id + "FromJson":
			if isCall(toks, i) {
				continue
			}
			foundFrom = true
			body, end := funcBody(toks, i)
			for k := 0; k+3 < len(body); k++ {
				if body[k].V == "json" && body[k+1].V == "[" && body[k+2].K == "str" && body[k+3].V == "]" {
					from = append(from, body[k+2].V)
				}
			}
			i = end
		case id + "ToJson":
			if isCall(toks, i) {
				continue
			}
			foundTo = true
			body, end := funcBody(toks, i)
			// keys of the returned map literal: str ':' at brace depth 1 of the literal
			depth := 0
			for k := 0; k+1 < len(body); k++ {
				switch body[k].V {
				case "{", "(", "[":
					if body[k].K == "punct" {
						depth++
					}
				case "}", ")", "]":
					if body[k].K == "punct" {
						depth--
					}
				}
				if body[k].K == "str" && body[k+1].V == ":" && depth == 2 {
					to = append(to, body[k].V)
				}
			}
			i = end
		}
	}
	if !foundFrom || !foundTo {
		return nil, nil, fmt.Errorf("routines %sFromJson / %sToJson not found", id, id)
	}
	return from, to, nil
}

// a definition is preceded by a type name (identifier or '>'), a call by something else
func isCall(toks []Tok, i int) bool {
	if i == 0 {
		return false
	}
	p := toks[i-1]
	return !(p.K == "id" && p.V != "return" || p.V == ">")
}

// funcBody returns the tokens between the braces of the function whose name is at index i.
func funcBody(toks []Tok, i int) ([]Tok, int) {
	j := i
	for j < len(toks) && toks[j].V != "{" {
		if toks[j].V == "=>" { // arrow function: up to ';'
			k := j
			for k < len(toks) && toks[k].V != ";" {
				k++
			}
			return toks[j:k], k
		}
		j++
	}
	depth := 0
	for k := j; k < len(toks); k++ {
		if toks[k].K == "punct" && toks[k].V == "{" {
			depth++
		} else if toks[k].K == "punct" && toks[k].V == "}" {
			depth--
			if depth == 0 {
				return toks[j : k+1], k
			}
		}
	}
	return toks[j:], len(toks)
}
