package proj

import (
	"fmt"
	"sort"
	"strings"
)

// DartClass, DartUnion, DartEnum, DartFile: declaration-level projection of a generated Dart file.
type DartClass struct {
	Name       string   `json:"name"`
	Implements []string `json:"implements"`
	Fields     []string `json:"fields"` // declared fields, in order
	Ctor       []string `json:"ctor"`   // constructor arguments (this.x), in order
	FromKeys   []string `json:"fromKeys"`
	ToKeys     []string `json:"toKeys"`
	FromArgs   int      `json:"fromArgs"`  // number of arguments the fromJson routine passes to the constructor
	FromCalls  []string `json:"fromCalls"` // the routine applied to json['key'], aligned with FromKeys ("" when none)
}

// DartHelper describes a <id>FromJson routine as far as null is concerned.
type DartHelper struct {
	Name      string `json:"name"`
	NullGuard bool   `json:"nullguard"` // the body tests `json == null`
	Delegates string `json:"delegates"` // `return <other>FromJson(json);` : the routine everything is delegated to
	KeyConv   string `json:"keyconv"`   // map routines: how the JSON key k becomes the Dart key: parse | cast | enumparse | enumstr | other | ""
}

type DartCase struct {
	Tag     string `json:"tag"`
	Routine string `json:"routine"` // <id>FromJson / <id>ToJson
	IsType  string `json:"istype"`  // toJson: the type tested with `is`
}

type DartUnion struct {
	Name string     `json:"name"`
	From []DartCase `json:"from"`
	To   []DartCase `json:"to"`
}

type DartEnum struct {
	Name   string   `json:"name"`
	Names  []string `json:"names"`
	Mode   string   `json:"mode"`   // index | table
	Values []string `json:"values"` // table mode: the _values list (string literals with quotes)
}

type DartFile struct {
	Name    string       `json:"name"`
	Imports []string     `json:"imports"`
	Defs    []string     `json:"defs"` // every top-level name defined (with repetitions)
	Uses    []string     `json:"uses"` // helper routines and type names used
	Classes []DartClass  `json:"classes"`
	Unions  []DartUnion  `json:"unions"`
	Enums   []DartEnum   `json:"enums"`
	Helpers []DartHelper `json:"helpers"`
}

var dartBuiltins = map[string]bool{"String": true, "int": true, "double": true, "bool": true, "num": true, "dynamic": true, "DateTime": true, "List": true,
	"Map": true, "MapEntry": true, "Object": true, "JSON": true, "Iterable": true, "Set": true, "Function": true, "Null": true, "Never": true, "Type": true, "Duration": true}

func balanced(ts []Tok, i int, open, close string) int {
	depth := 0
	for j := i; j < len(ts); j++ {
		if ts[j].K == "punct" && ts[j].V == open {
			depth++
		} else if ts[j].K == "punct" && ts[j].V == close {
			depth--
			if depth == 0 {
				return j
			}
		}
	}
	return len(ts) - 1
}

func isUpper(s string) bool { return s != "" && s[0] >= 'A' && s[0] <= 'Z' }

func lowerFirst(s string) string {
	if s == "" {
		return s
	}
	return strings.ToLower(s[:1]) + s[1:]
}

// ParseDart projects one generated Dart file.
func ParseDart(name, src string) (*DartFile, error) {
	ts, err := Lex(src, "//")
	if err != nil {
		return nil, err
	}
	f := &DartFile{Name: name, Imports: []string{}, Defs: []string{}, Uses: []string{}, Classes: []DartClass{}, Unions: []DartUnion{}, Enums: []DartEnum{}}
	uses := map[string]bool{}
	noteUses := func(body []Tok) {
		for k, t := range body {
			if t.K != "id" {
				continue
			}
			if k > 0 && body[k-1].V == "." { // member access: not a top-level name
				continue
			}
			if strings.HasSuffix(t.V, "FromJson") || strings.HasSuffix(t.V, "ToJson") {
				uses[t.V] = true
			} else if isUpper(t.V) && !dartBuiltins[t.V] {
				uses[t.V] = true
			}
		}
	}
	enumTables := map[string][]string{}
	enumMode := map[string]string{}
	funcs := map[string][]Tok{}
	i := 0
	for i < len(ts) {
		t := ts[i]
		switch {
		case t.K == "id" && t.V == "import" && i+1 < len(ts) && ts[i+1].K == "str":
			f.Imports = append(f.Imports, ts[i+1].V)
			for i < len(ts) && ts[i].V != ";" {
				i++
			}
			i++
		case t.K == "id" && t.V == "typedef":
			if i+1 >= len(ts) {
				return nil, fmt.Errorf("dangling typedef")
			}
			f.Defs = append(f.Defs, ts[i+1].V)
			j := i
			for j < len(ts) && ts[j].V != ";" {
				j++
			}
			noteUses(ts[i+3 : j])
			i = j + 1
		case t.K == "id" && (t.V == "class" || (t.V == "abstract" && i+1 < len(ts) && ts[i+1].V == "class")):
			if t.V == "abstract" {
				i++
			}
			cl := DartClass{Name: ts[i+1].V, Implements: []string{}, Fields: []string{}, Ctor: []string{}, FromKeys: []string{}, ToKeys: []string{}, FromCalls: []string{}}
			f.Defs = append(f.Defs, cl.Name)
			j := i + 2
			if j < len(ts) && ts[j].V == "implements" {
				j++
				for j < len(ts) && ts[j].V != "{" {
					if ts[j].K == "id" {
						cl.Implements = append(cl.Implements, ts[j].V)
						uses[ts[j].V] = true
					}
					j++
				}
			}
			for j < len(ts) && ts[j].V != "{" {
				j++
			}
			end := balanced(ts, j, "{", "}")
			body := ts[j+1 : end]
			for k := 0; k < len(body); k++ {
				if body[k].V == "final" {
					// final <type tokens> name ;
					e := k
					for e < len(body) && body[e].V != ";" {
						e++
					}
					if e-1 > k {
						cl.Fields = append(cl.Fields, body[e-1].V)
						noteUses(body[k+1 : e-1])
					}
					k = e
				} else if body[k].V == cl.Name && k+1 < len(body) && body[k+1].V == "(" && (k == 0 || body[k-1].V == "const" || body[k-1].V == ";" || body[k-1].V == "}") {
					e := balanced(body, k+1, "(", ")")
					for a := k + 2; a < e; a++ {
						if body[a].V == "this" && a+2 <= e && body[a+1].V == "." {
							cl.Ctor = append(cl.Ctor, body[a+2].V)
						}
					}
					k = e
				}
			}
			if t.V != "abstract" || len(cl.Fields) > 0 {
				f.Classes = append(f.Classes, cl)
			} else {
				f.Unions = append(f.Unions, DartUnion{Name: cl.Name, From: []DartCase{}, To: []DartCase{}})
			}
			i = end + 1
		case t.K == "id" && t.V == "enum":
			en := DartEnum{Name: ts[i+1].V, Names: []string{}, Values: []string{}}
			f.Defs = append(f.Defs, en.Name)
			j := i + 2
			end := balanced(ts, j, "{", "}")
			for k := j + 1; k < end; k++ {
				if ts[k].K == "id" {
					en.Names = append(en.Names, ts[k].V)
				}
			}
			f.Enums = append(f.Enums, en)
			i = end + 1
		case t.K == "id" && t.V == "extension":
			// extension _XExt on X { ... }
			extName, on := ts[i+1].V, ""
			f.Defs = append(f.Defs, extName)
			j := i + 2
			for j < len(ts) && ts[j].V != "{" {
				if ts[j].V == "on" && j+1 < len(ts) {
					on = ts[j+1].V
				}
				j++
			}
			end := balanced(ts, j, "{", "}")
			body := ts[j+1 : end]
			enumMode[on] = "index"
			for k := 0; k < len(body); k++ {
				if body[k].V == "_values" && k+2 < len(body) && body[k+1].V == "=" && body[k+2].V == "[" {
					e := balanced(body, k+2, "[", "]")
					vals := []string{}
					for _, part := range splitTop(body[k+3 : e]) {
						vals = append(vals, strings.ReplaceAll(joinToks(part), "- ", "-"))
					}
					enumTables[on] = vals
					enumMode[on] = "table"
					k = e
				}
			}
			noteUses(body)
			i = end + 1
		case t.K == "id":
			// function: <ret type tokens> name ( params ) ( { body } | => expr ; )
			j := i
			nameIdx := -1
			for j < len(ts) && ts[j].V != ";" && ts[j].V != "{" {
				if ts[j].V == "(" && j > i && ts[j-1].K == "id" {
					nameIdx = j - 1
					break
				}
				j++
			}
			if nameIdx < 0 {
				return nil, fmt.Errorf("dart: unrecognised top-level construct near %q", joinToks(ts[i:min(i+8, len(ts))]))
			}
			fname := ts[nameIdx].V
			f.Defs = append(f.Defs, fname)
			noteUses(ts[i:nameIdx])
			pend := balanced(ts, nameIdx+1, "(", ")")
			noteUses(ts[nameIdx+2 : pend])
			k := pend + 1
			var body []Tok
			if k < len(ts) && ts[k].V == "{" {
				end := balanced(ts, k, "{", "}")
				body = ts[k : end+1]
				i = end + 1
			} else {
				e := k
				for e < len(ts) && ts[e].V != ";" {
					e++
				}
				body = ts[k:e]
				i = e + 1
			}
			noteUses(body)
			funcs[fname] = body
		default:
			i++
		}
	}
	for k := range f.Enums {
		e := &f.Enums[k]
		e.Mode = enumMode[e.Name]
		if e.Mode == "" {
			e.Mode = "none"
		}
		if v, ok := enumTables[e.Name]; ok {
			e.Values = v
		}
	}
	// null handling of the FromJson routines
	f.Helpers = []DartHelper{}
	var hnames []string
	for n := range funcs {
		if strings.HasSuffix(n, "FromJson") {
			hnames = append(hnames, n)
		}
	}
	sort.Strings(hnames)
	for _, n := range hnames {
		body := funcs[n]
		h := DartHelper{Name: n}
		for b := 0; b+2 < len(body); b++ {
			if body[b].V == "json" && body[b+1].V == "==" && body[b+2].V == "null" {
				h.NullGuard = true
			}
			if body[b].V == "json" && body[b+1].V == "=" && b+3 < len(body) && body[b+2].V == "=" && body[b+3].V == "null" {
				h.NullGuard = true
			}
		}
		// MapEntry( <key conversion> , ...
		for b := 0; b+2 < len(body); b++ {
			if body[b].V == "MapEntry" && body[b+1].V == "(" {
				e := b + 2
				depth := 0
				for e < len(body) && !(depth == 0 && body[e].V == ",") {
					if body[e].V == "(" {
						depth++
					} else if body[e].V == ")" {
						depth--
					}
					e++
				}
				var parts []string
				for _, t := range body[b+2 : e] {
					parts = append(parts, t.V)
				}
				conv := strings.Join(parts, " ")
				switch {
				case conv == "int . parse ( k )":
					h.KeyConv = "parse"
				case strings.HasPrefix(conv, "k as "):
					h.KeyConv = "cast"
				case strings.HasSuffix(conv, "FromJson ( int . parse ( k ) )"):
					h.KeyConv = "enumparse"
				case strings.HasSuffix(conv, "FromJson ( k )"):
					h.KeyConv = "enumstr"
				default:
					h.KeyConv = "other"
				}
				break
			}
		}
		// { return xFromJson ( json ) ; }
		if len(body) == 8 && body[1].V == "return" && strings.HasSuffix(body[2].V, "FromJson") && body[3].V == "(" && body[4].V == "json" && body[5].V == ")" {
			h.Delegates = body[2].V
		}
		f.Helpers = append(f.Helpers, h)
	}
	// struct routines
	for k := range f.Classes {
		c := &f.Classes[k]
		id := lowerFirst(c.Name)
		if body, ok := funcs[id+"FromJson"]; ok {
			for b := 0; b+3 < len(body); b++ {
				if body[b].V == "json" && body[b+1].V == "[" && body[b+2].K == "str" && body[b+3].V == "]" {
					c.FromKeys = append(c.FromKeys, body[b+2].V)
					call := ""
					if b >= 2 && body[b-1].V == "(" && body[b-2].K == "id" {
						call = body[b-2].V
					}
					c.FromCalls = append(c.FromCalls, call)
				}
			}
			// arguments of the constructor call  Name( a, b, ... )
			for b := 0; b+1 < len(body); b++ {
				if body[b].V == c.Name && body[b+1].V == "(" {
					e := balanced(body, b+1, "(", ")")
					c.FromArgs = len(splitTop(body[b+2 : e]))
					break
				}
			}
		}
		if body, ok := funcs[id+"ToJson"]; ok {
			depth := 0
			for b := 0; b+1 < len(body); b++ {
				if body[b].K == "punct" && (body[b].V == "{" || body[b].V == "(" || body[b].V == "[") {
					depth++
				} else if body[b].K == "punct" && (body[b].V == "}" || body[b].V == ")" || body[b].V == "]") {
					depth--
				}
				if body[b].K == "str" && body[b+1].V == ":" && depth == 2 {
					c.ToKeys = append(c.ToKeys, body[b].V)
				}
			}
		}
	}
	// union routines
	for k := range f.Unions {
		u := &f.Unions[k]
		id := lowerFirst(u.Name)
		if body, ok := funcs[id+"FromJson"]; ok {
			for b := 0; b+1 < len(body); b++ {
				if body[b].V == "case" && body[b+1].K == "str" {
					dc := DartCase{Tag: body[b+1].V}
					for e := b + 2; e < len(body) && body[e].V != "case" && body[e].V != "default"; e++ {
						if body[e].K == "id" && strings.HasSuffix(body[e].V, "FromJson") {
							dc.Routine = body[e].V
							break
						}
					}
					u.From = append(u.From, dc)
				}
			}
		}
		if body, ok := funcs[id+"ToJson"]; ok {
			for b := 0; b+2 < len(body); b++ {
				if body[b].V == "item" && body[b+1].V == "is" && body[b+2].K == "id" {
					dc := DartCase{IsType: body[b+2].V}
					for e := b + 3; e < len(body) && !(body[e].V == "item" && e+1 < len(body) && body[e+1].V == "is"); e++ {
						if body[e].K == "str" && body[e].V == "Kind" && e+2 < len(body) && body[e+2].K == "str" {
							dc.Tag = body[e+2].V
						}
						if body[e].K == "id" && strings.HasSuffix(body[e].V, "ToJson") {
							dc.Routine = body[e].V
						}
					}
					u.To = append(u.To, dc)
				}
			}
		}
	}
	for u := range uses {
		f.Uses = append(f.Uses, u)
	}
	return f, nil
}

func min(a, b int) int {
	if a < b {
		return a
	}
	return b
}
