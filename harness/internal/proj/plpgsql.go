package proj

import (
	"fmt"
	"strconv"
	"strings"
)

// PgExpr / PgStmt / PgFunc form the AST of the PL/pgSQL fragment used by gomacro's JSON validators,
// in the tagged shape spec/PgSem.tla interprets.
type PgExpr map[string]any
type PgStmt map[string]any

type PgFunc struct {
	Name  string   `json:"name"`
	Param string   `json:"param"`
	Body  []PgStmt `json:"body"`
}

type PgCheck struct {
	Table string `json:"table"`
	Name  string `json:"name"`
	Fn    string `json:"fn"`
	Col   string `json:"col"`
}

type PgScript struct {
	Funcs  []PgFunc  `json:"funcs"`
	Checks []PgCheck `json:"checks"`
}

type pgParser struct {
	toks []Tok
	p    int
}

type pgError struct{ msg string }

func (p *pgParser) peek() Tok {
	if p.p >= len(p.toks) {
		return Tok{K: "eof"}
	}
	return p.toks[p.p]
}
func (p *pgParser) next() Tok { t := p.peek(); p.p++; return t }
func (p *pgParser) isKw(kw string) bool {
	t := p.peek()
	return t.K == "id" && strings.EqualFold(t.V, kw)
}
func (p *pgParser) acceptKw(kw string) bool {
	if p.isKw(kw) {
		p.p++
		return true
	}
	return false
}
func (p *pgParser) isP(v string) bool { t := p.peek(); return t.K == "punct" && t.V == v }
func (p *pgParser) acceptP(v string) bool {
	if p.isP(v) {
		p.p++
		return true
	}
	return false
}
func (p *pgParser) fail(format string, a ...any) {
	ctx := []string{}
	for i := p.p; i < p.p+8 && i < len(p.toks); i++ {
		ctx = append(ctx, p.toks[i].V)
	}
	panic(pgError{fmt.Sprintf(format, a...) + " near `" + strings.Join(ctx, " ") + "`"})
}
func (p *pgParser) expectKw(kw string) {
	if !p.acceptKw(kw) {
		p.fail("expected %s", kw)
	}
}
func (p *pgParser) expectP(v string) {
	if !p.acceptP(v) {
		p.fail("expected %q", v)
	}
}

// ParsePgScript extracts the validation functions and the CHECK constraints calling them.
func ParsePgScript(src string) (s *PgScript, err error) {
	toks, err := Lex(src, "--")
	if err != nil {
		return nil, err
	}
	p := &pgParser{toks: toks}
	s = &PgScript{Funcs: []PgFunc{}, Checks: []PgCheck{}}
	defer func() {
		if r := recover(); r != nil {
			if e, ok := r.(pgError); ok {
				err = fmt.Errorf("%s", e.msg)
				return
			}
			panic(r)
		}
	}()
	for p.peek().K != "eof" {
		switch {
		case p.isKw("CREATE") && p.lookFunction():
			s.Funcs = append(s.Funcs, p.function())
		case p.isKw("ALTER"):
			if c, ok := p.alterCheck(); ok {
				s.Checks = append(s.Checks, c)
			}
		default:
			p.next()
		}
	}
	return s, nil
}

func (p *pgParser) lookFunction() bool {
	for i := p.p + 1; i < p.p+4 && i < len(p.toks); i++ {
		if strings.EqualFold(p.toks[i].V, "FUNCTION") {
			return true
		}
	}
	return false
}

func (p *pgParser) skipStatement() {
	for p.peek().K != "eof" && !p.isP(";") {
		p.next()
	}
	p.acceptP(";")
}

// ALTER TABLE t ADD CONSTRAINT name CHECK ( fn ( col ) ) ;
func (p *pgParser) alterCheck() (PgCheck, bool) {
	start := p.p
	p.next()
	if !p.acceptKw("TABLE") {
		p.skipStatement()
		return PgCheck{}, false
	}
	table := p.next().V
	if p.acceptKw("ADD") && p.acceptKw("CONSTRAINT") {
		name := p.next().V
		if p.acceptKw("CHECK") && p.acceptP("(") {
			fn := p.next()
			if fn.K == "id" && p.acceptP("(") {
				col := p.next().V
				if p.acceptP(")") && p.acceptP(")") {
					p.acceptP(";")
					return PgCheck{Table: table, Name: name, Fn: fn.V, Col: col}, true
				}
			}
		}
	}
	p.p = start + 1
	p.skipStatement()
	return PgCheck{}, false
}

func (p *pgParser) function() PgFunc {
	p.expectKw("CREATE")
	if p.acceptKw("OR") {
		p.expectKw("REPLACE")
	}
	p.expectKw("FUNCTION")
	f := PgFunc{Name: p.next().V, Body: []PgStmt{}}
	p.expectP("(")
	f.Param = p.next().V
	for !p.isP(")") {
		p.next()
	}
	p.expectP(")")
	for !p.isP("$$") {
		if p.peek().K == "eof" {
			p.fail("function body not found")
		}
		p.next()
	}
	p.expectP("$$")
	if p.acceptKw("DECLARE") {
		for !p.isKw("BEGIN") {
			name := p.next().V
			// type name: one or more identifiers up to := or ;
			for !p.isP(":=") && !p.isP(";") {
				if p.peek().K == "eof" {
					p.fail("unterminated declaration")
				}
				p.next()
			}
			if p.acceptP(":=") {
				f.Body = append(f.Body, PgStmt{"s": "declare", "var": name, "hasinit": true, "e": p.expr()})
			} else {
				f.Body = append(f.Body, PgStmt{"s": "declare", "var": name, "hasinit": false, "e": PgExpr{"e": "null"}})
			}
			p.expectP(";")
		}
	}
	p.expectKw("BEGIN")
	f.Body = append(f.Body, p.stmts("END")...)
	p.expectKw("END")
	p.acceptP(";")
	p.expectP("$$")
	p.skipStatement()
	return f
}

// stmts parses statements until one of the terminator keywords is next.
func (p *pgParser) stmts(terms ...string) []PgStmt {
	out := []PgStmt{}
	for {
		for _, t := range terms {
			if p.isKw(t) {
				return out
			}
		}
		if p.peek().K == "eof" {
			p.fail("unterminated block")
		}
		out = append(out, p.stmt())
	}
}

func (p *pgParser) stmt() PgStmt {
	switch {
	case p.acceptKw("IF"):
		return p.ifRest()
	case p.acceptKw("RETURN"):
		e := p.expr()
		p.expectP(";")
		return PgStmt{"s": "return", "e": e}
	case p.acceptKw("RAISE"):
		for !p.isP(";") {
			p.next()
		}
		p.expectP(";")
		return PgStmt{"s": "raise"}
	case p.acceptKw("CASE"):
		whens := []map[string]any{}
		for p.acceptKw("WHEN") {
			cond := p.expr()
			p.expectKw("THEN")
			body := p.stmts("WHEN", "ELSE", "END")
			whens = append(whens, map[string]any{"cond": cond, "body": body})
		}
		els := []PgStmt{}
		hasElse := false
		if p.acceptKw("ELSE") {
			hasElse = true
			els = p.stmts("END")
		}
		p.expectKw("END")
		p.expectKw("CASE")
		p.expectP(";")
		return PgStmt{"s": "case", "whens": whens, "else": els, "haselse": hasElse}
	}
	// assignment
	t := p.next()
	if t.K == "id" && p.acceptP(":=") {
		e := p.expr()
		p.expectP(";")
		return PgStmt{"s": "assign", "var": t.V, "e": e}
	}
	p.p--
	p.fail("unsupported statement")
	return nil
}

func (p *pgParser) ifRest() PgStmt {
	cond := p.expr()
	p.expectKw("THEN")
	then := p.stmts("ELSIF", "ELSE", "END")
	els := []PgStmt{}
	switch {
	case p.acceptKw("ELSIF"):
		els = []PgStmt{p.ifRest()}
		return PgStmt{"s": "if", "cond": cond, "then": then, "else": els}
	case p.acceptKw("ELSE"):
		els = p.stmts("END")
	}
	p.expectKw("END")
	p.expectKw("IF")
	p.expectP(";")
	return PgStmt{"s": "if", "cond": cond, "then": then, "else": els}
}

func (p *pgParser) expr() PgExpr {
	l := p.andExpr()
	for p.acceptKw("OR") {
		l = PgExpr{"e": "or", "a": l, "b": p.andExpr()}
	}
	return l
}

func (p *pgParser) andExpr() PgExpr {
	l := p.notExpr()
	for p.acceptKw("AND") {
		l = PgExpr{"e": "and", "a": l, "b": p.notExpr()}
	}
	return l
}

func (p *pgParser) notExpr() PgExpr {
	if p.acceptKw("NOT") {
		return PgExpr{"e": "not", "a": p.notExpr()}
	}
	return p.cmpExpr()
}

func (p *pgParser) cmpExpr() PgExpr {
	l := p.postfix()
	switch {
	case p.acceptP("="):
		return PgExpr{"e": "eq", "a": l, "b": p.postfix()}
	case p.acceptP("!="), p.acceptP("<>"):
		return PgExpr{"e": "neq", "a": l, "b": p.postfix()}
	case p.isKw("IN"):
		p.next()
		p.expectP("(")
		list := []PgExpr{}
		for !p.isP(")") {
			list = append(list, p.expr())
			if !p.acceptP(",") {
				break
			}
		}
		p.expectP(")")
		return PgExpr{"e": "in", "a": l, "list": list}
	case p.isKw("BETWEEN"):
		// x BETWEEN a AND b with integer literal bounds, on an integer operand, is the membership test
		// x IN (a, a+1, ..., b): desugared here, PgSem needs no new operator
		p.next()
		lo, hi := p.postfix(), PgExpr(nil)
		p.expectKw("AND")
		hi = p.postfix()
		a, errA := strconv.Atoi(fmt.Sprint(lo["v"]))
		b, errB := strconv.Atoi(fmt.Sprint(hi["v"]))
		if lo["e"] != "num" || hi["e"] != "num" || errA != nil || errB != nil || b-a > 4096 {
			p.fail("BETWEEN is only supported with small integer literal bounds")
		}
		list := []PgExpr{}
		for v := a; v <= b; v++ {
			list = append(list, PgExpr{"e": "num", "v": strconv.Itoa(v)})
		}
		return PgExpr{"e": "in", "a": l, "list": list}
	case p.isKw("IS"):
		p.next()
		neg := p.acceptKw("NOT")
		p.expectKw("NULL")
		return PgExpr{"e": "isnull", "a": l, "neg": neg}
	}
	return l
}

func (p *pgParser) postfix() PgExpr {
	e := p.primary()
	for {
		switch {
		case p.acceptP("->"):
			k := p.next()
			if k.K != "str" {
				p.fail("only constant keys are supported after ->")
			}
			e = PgExpr{"e": "arrow", "a": e, "k": k.V}
		case p.acceptP("->>"):
			k := p.next()
			if k.K != "str" {
				p.fail("only constant keys are supported after ->>")
			}
			e = PgExpr{"e": "arrowtext", "a": e, "k": k.V}
		case p.acceptP("#>>"):
			k := p.next()
			if k.K != "str" || k.V != "{}" {
				p.fail("only #>> '{}' is supported")
			}
			e = PgExpr{"e": "pathtext", "a": e}
		case p.acceptP("::"):
			ty := p.next()
			e = PgExpr{"e": "cast", "a": e, "ty": strings.ToLower(ty.V)}
		default:
			return e
		}
	}
}

func (p *pgParser) primary() PgExpr {
	t := p.next()
	switch {
	case t.K == "str":
		return PgExpr{"e": "str", "v": t.V}
	case t.K == "num":
		return PgExpr{"e": "num", "v": t.V}
	case t.K == "punct" && t.V == "-" && p.peek().K == "num":
		return PgExpr{"e": "num", "v": "-" + p.next().V}
	case t.K == "punct" && t.V == "(":
		if p.acceptKw("SELECT") {
			// (SELECT bool_and( body ) FROM jsonb_each(of) | jsonb_array_elements(of))
			agg := p.next()
			aggKind := ""
			switch strings.ToLower(agg.V) {
			case "bool_and", "every":
				aggKind = "and"
			case "bool_or":
				aggKind = "or"
			default:
				p.fail("only bool_and / bool_or aggregates are supported")
			}
			p.expectP("(")
			body := p.expr()
			p.expectP(")")
			p.expectKw("FROM")
			src := p.next()
			kind := ""
			switch strings.ToLower(src.V) {
			case "jsonb_each":
				kind = "each"
			case "jsonb_array_elements":
				kind = "elements"
			default:
				p.fail("unsupported set returning function %s", src.V)
			}
			p.expectP("(")
			of := p.expr()
			p.expectP(")")
			p.expectP(")")
			return PgExpr{"e": "booland", "agg": aggKind, "body": body, "src": kind, "of": of}
		}
		e := p.expr()
		p.expectP(")")
		return e
	case t.K == "id":
		up := strings.ToUpper(t.V)
		switch up {
		case "TRUE":
			return PgExpr{"e": "bool", "v": true}
		case "FALSE":
			return PgExpr{"e": "bool", "v": false}
		case "NULL":
			return PgExpr{"e": "null"}
		}
		if p.acceptP("(") {
			args := []PgExpr{}
			for !p.isP(")") {
				args = append(args, p.expr())
				if !p.acceptP(",") {
					break
				}
			}
			p.expectP(")")
			switch strings.ToLower(t.V) {
			case "jsonb_typeof":
				if len(args) == 1 {
					return PgExpr{"e": "typeof", "a": args[0]}
				}
			case "jsonb_array_length":
				if len(args) == 1 {
					return PgExpr{"e": "arrlen", "a": args[0]}
				}
			case "coalesce":
				return PgExpr{"e": "coalesce", "args": args}
			}
			return PgExpr{"e": "call", "fn": t.V, "args": args}
		}
		return PgExpr{"e": "var", "name": t.V}
	}
	p.p--
	p.fail("unexpected token in expression")
	return nil
}
