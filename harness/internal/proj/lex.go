// Package proj projects generated Dart and SQL text back into the vocabulary of the specifications.
package proj

import (
	"fmt"
	"strings"
	"unicode"
)

// Tok is a lexical token of a C-like / SQL-like language.
type Tok struct {
	K string // id | str | num | punct
	V string
	Q string // str: the quote character
}

// Lex splits src into tokens. lineComment is "//" (Dart) or "--" (SQL); strings use ' or " (and
// $$ dollar quoting is returned as punctuation "$$").
func Lex(src, lineComment string) ([]Tok, error) {
	var out []Tok
	i := 0
	for i < len(src) {
		c := src[i]
		switch {
		case c == ' ' || c == '\t' || c == '\n' || c == '\r':
			i++
		case strings.HasPrefix(src[i:], lineComment):
			for i < len(src) && src[i] != '\n' {
				i++
			}
		case strings.HasPrefix(src[i:], "/*"):
			j := strings.Index(src[i+2:], "*/")
			if j < 0 {
				return nil, fmt.Errorf("unterminated comment")
			}
			i += j + 4
		case strings.HasPrefix(src[i:], "$$"):
			out = append(out, Tok{K: "punct", V: "$$"})
			i += 2
		case c == '\'' || c == '"':
			j := i + 1
			var b strings.Builder
			for j < len(src) {
				if src[j] == c {
					if c == '\'' && j+1 < len(src) && src[j+1] == '\'' && lineComment == "--" { // SQL '' escape
						b.WriteByte('\'')
						j += 2
						continue
					}
					break
				}
				if src[j] == '\\' && lineComment == "//" && j+1 < len(src) {
					b.WriteByte(src[j+1])
					j += 2
					continue
				}
				b.WriteByte(src[j])
				j++
			}
			if j >= len(src) {
				return nil, fmt.Errorf("unterminated string")
			}
			out = append(out, Tok{"str", b.String(), string(c)})
			i = j + 1
		case c >= '0' && c <= '9':
			j := i
			for j < len(src) && (src[j] >= '0' && src[j] <= '9' || src[j] == '.') {
				j++
			}
			out = append(out, Tok{K: "num", V: src[i:j]})
			i = j
		case c == '_' || unicode.IsLetter(rune(c)) || c >= 0x80:
			j := i
			for j < len(src) && (src[j] == '_' || src[j] >= 0x80 || unicode.IsLetter(rune(src[j])) || unicode.IsDigit(rune(src[j]))) {
				j++
			}
			out = append(out, Tok{K: "id", V: src[i:j]})
			i = j
		default:
			for _, op := range []string{"->>", "#>>", "->", "!=", "<>", ":=", "::", "=>", "<=", ">=", "||"} {
				if strings.HasPrefix(src[i:], op) {
					out = append(out, Tok{K: "punct", V: op})
					i += len(op)
					goto next
				}
			}
			out = append(out, Tok{K: "punct", V: string(c)})
			i++
		next:
		}
	}
	return out, nil
}
