// Package c07 checks property C07 (deterministic generation) — spec/MapOrder.tla, TraceDeterminism.tla.
package c07

import (
	"crypto/sha256"
	"encoding/hex"
	"encoding/json"
	"fmt"
	"math/rand"
	"os"
	"os/exec"
	"path/filepath"
	"sort"
	"strings"
	"time"
	"verif/harness/internal/sqlprog"

	"github.com/benoitkugler/gomacro/analysis"
	"golang.org/x/tools/go/packages"

	"verif/harness/internal/absprog"
	"verif/harness/internal/core"
	"verif/harness/internal/gens"
	"verif/harness/internal/synth"
)

type Item struct {
	ID     int               `json:"id"`
	Files  map[string]string `json:"files"`
	Source string            `json:"source"`
	Rounds int               `json:"rounds"`
}

type FileHash struct {
	Name string `json:"name"`
	Sha  string `json:"sha"`
}

type RunObs struct {
	Class string            `json:"class"`
	Files []FileHash        `json:"files"`
	Texts map[string]string `json:"texts,omitempty"` // kept by the driver for replay files only
}

type itemOut struct {
	// target -> one observation per round
	Runs map[string][]RunObs `json:"runs"`
}

type state struct {
	mod  *synth.Module
	pkgs []*packages.Package
	root string
}

func sha(s string) string {
	h := sha256.Sum256([]byte(s))
	return hex.EncodeToString(h[:8])
}

func Worker(args []string) {
	core.ItemWorker(args,
		func(items []Item, dir string) (*state, error) {
			mod, err := synth.NewModule(dir)
			if err != nil {
				return nil, err
			}
			var rels []string
			for _, it := range items {
				mod.Write(it.Files)
				rels = append(rels, it.Source)
			}
			pkgs, root, err := mod.Load(rels)
			if err != nil {
				return nil, err
			}
			return &state{mod, pkgs, root}, nil
		},
		func(st *state, idx int, it Item) itemOut {
			out := itemOut{Runs: map[string][]RunObs{}}
			pkg := st.pkgs[idx]
			file := st.mod.Abs(it.Source)
			for r := 0; r < it.Rounds; r++ {
				var ana *analysis.Analysis
				class, msg := synth.Guard(func() { ana = analysis.NewAnalysisFromFile(pkg, file) })
				if class != synth.OutOK {
					out.Runs["analysis"] = append(out.Runs["analysis"], RunObs{Class: class + ": " + msg, Files: []FileHash{}})
					continue
				}
				out.Runs["analysis"] = append(out.Runs["analysis"], RunObs{Class: "ok", Files: []FileHash{}})
				for _, o := range gens.All(pkg, file, ana, st.root) {
					ro := RunObs{Class: o.Class, Files: []FileHash{}, Texts: map[string]string{}}
					if o.Class != synth.OutOK {
						ro.Class = o.Class + ": " + o.Msg
					}
					if o.Target == "dart" {
						for _, n := range synth.SortedKeys(o.Files) {
							ro.Files = append(ro.Files, FileHash{Name: n, Sha: sha(o.Files[n])})
							ro.Texts[n] = o.Files[n]
						}
					} else if o.Class == synth.OutOK {
						ro.Files = append(ro.Files, FileHash{Name: "out", Sha: sha(o.Text)})
						ro.Texts["out"] = o.Text
					}
					out.Runs[o.Target] = append(out.Runs[o.Target], ro)
				}
			}
			return out
		})
}

// cliRun runs the real command line tool (config mode) on one program and hashes what it writes.
func cliRun(c *core.Ctx, bin string, it Item, n int) (map[string]string, error) {
	dir, err := os.MkdirTemp(c.Scratch, "cli-")
	if err != nil {
		return nil, err
	}
	defer os.RemoveAll(dir)
	mod, err := synth.NewModule(dir)
	if err != nil {
		return nil, err
	}
	mod.Write(it.Files)
	outDir := filepath.Join(dir, "out")
	os.MkdirAll(filepath.Join(outDir, "dart"), 0o755)
	conf := map[string]any{
		"_dart": []map[string]string{{"Mode": "dart", "Output": filepath.Join(outDir, "dart")}},
		mod.Abs(it.Source): []map[string]string{
			{"Mode": "go/randdata", "Output": filepath.Join(outDir, "rand.go")},
			{"Mode": "typescript/types", "Output": filepath.Join(outDir, "types.ts")},
			{"Mode": "dart", "Output": "x"},
		},
	}
	// a second source file of the SAME package (same directory), when the program has one: the two files
	// must be processed in a fixed order
	other := strings.TrimSuffix(it.Source, "defs.go") + "extra.go"
	if _, has := it.Files[other]; has && strings.HasSuffix(it.Source, "defs.go") {
		conf[mod.Abs(other)] = []map[string]string{
			{"Mode": "typescript/types", "Output": filepath.Join(outDir, "other.ts")},
			{"Mode": "dart", "Output": "x"},
		}
	}
	b, _ := json.Marshal(conf)
	cf := filepath.Join(dir, "conf.json")
	os.WriteFile(cf, b, 0o644)
	fake := filepath.Join(dir, "fakebin")
	os.MkdirAll(fake, 0o755)
	for _, t := range []string{"npx", "dart", "pg_format", "goimports", "which"} {
		os.WriteFile(filepath.Join(fake, t), []byte("#!/bin/sh\nexit 1\n"), 0o755)
	}
	cmd := exec.Command(bin, "-config", cf)
	cmd.Dir = mod.Dir
	gobin, _ := exec.LookPath("go")
	cmd.Env = append(os.Environ(), "PATH="+fake+":"+filepath.Dir(gobin)+":/usr/bin:/bin", "GOFLAGS=-mod=mod", "GOPROXY=off", "GOSUMDB=off", "GOTOOLCHAIN=local")
	if outb, err := cmd.CombinedOutput(); err != nil {
		return map[string]string{"<exit>": "error: " + core.Tail(string(outb), 3)}, nil
	}
	res := map[string]string{}
	filepath.Walk(outDir, func(p string, info os.FileInfo, err error) error {
		if err == nil && !info.IsDir() {
			bb, _ := os.ReadFile(p)
			rel, _ := filepath.Rel(outDir, p)
			res[rel] = sha(string(bb))
		}
		return nil
	})
	return res, nil
}

func Run(c *core.Ctx, replay string) (*core.Result, error) {
	res := &core.Result{Level: "model_checking"}
	res.Assumptions = []string{
		"Go's map order cannot be dictated: binding is by repetition (fresh analysis in one process x separate processes); programs are built so that every map the generators range over has >= 3 entries, so a surviving order dependence shows with probability >= 1-(1/3)^(R*P-1) per site",
	}
	// design level: every iteration order of the modelled maps
	t, err := c.RunTLC(core.TLCOpts{Module: "MapOrder", Config: "MapOrder.cfg", Workers: 4})
	if err != nil {
		return nil, err
	}
	if t.ErrorKind != "" {
		return nil, core.Inconcl("design-level run of MapOrder ended with %s %s (model-only counterexample)", t.ErrorKind, t.InvViolated)
	}
	res.AddTLC(t)

	rounds, procs, nProg := 6, 4, 10
	if c.Thorough() {
		rounds, procs, nProg = 20, 10, 60
	}
	var items []Item
	if replay != "" {
		var it Item
		if err := core.LoadReplay(replay, &it); err != nil {
			return nil, err
		}
		it.Rounds = rounds
		items = []Item{it}
	} else {
		rng := rand.New(rand.NewSource(c.Seed))
		for k := 0; k < nProg; k++ {
			o := absprog.Full()
			o.CaseTwins = true
			o.NStructs = 3 + rng.Intn(4)
			o.MaxFields = 6
			p := absprog.Random(k+1, rng, o)
			// a table-like struct so that the SQL generators have something to do
			p.Decls = append(p.Decls, absprog.Decl{K: "struct", Name: "Row", Fields: []absprog.Field{
				{Name: "Id", Type: absprog.Ref("", "IdItem")}, {Name: "When", Type: absprog.Time()}, {Name: "Day", Type: absprog.Ref("", "MyDate")},
				{Name: "Lvl", Type: absprog.Ref("sub", "Level")}, {Name: "Null", Type: absprog.Ref("database/sql", "NullInt64")}, {Name: "Dur", Type: absprog.Ref("time", "Duration")}, {Name: "Data", Type: absprog.Ref("", "Alpha")},
				{Name: "Tags", Type: absprog.Ref("", "IntList")}, {Name: "K", Type: absprog.Ref("", "Kind")}}})
			items = append(items, Item{ID: k + 1, Files: absprog.Render(p, synth.ModRoot), Source: fmt.Sprintf("p%d/defs.go", k+1), Rounds: rounds})
		}
	}
	if replay == "" {
		// a model file rich in comment directives: what the SQL-side generators collect per table (UNIQUE sets,
		// CHECKs, select keys, custom queries, keys) has at least three entries each
		m := sqlprog.DirectiveRich(len(items) + 1)
		items = append(items, Item{ID: m.ID, Files: sqlprog.Render(m), Source: sqlprog.Dir(m.ID) + "/models.go", Rounds: rounds})
	}
	// P processes, each loading and running R rounds
	merged := map[int]map[string][]RunObs{}
	for p := 0; p < procs; p++ {
		results, err := core.RunItems(c, "c07", items, 2*time.Minute, len(items)/c.Workers+1)
		if err != nil {
			return nil, err
		}
		for i, r := range results {
			if r.Class != "ok" {
				return nil, core.Inconcl("c07 worker died on program %d: %s", items[i].ID, core.Tail(r.Log, 5))
			}
			var o itemOut
			json.Unmarshal(r.Data, &o)
			if merged[items[i].ID] == nil {
				merged[items[i].ID] = map[string][]RunObs{}
			}
			for tgt, runs := range o.Runs {
				merged[items[i].ID][tgt] = append(merged[items[i].ID][tgt], runs...)
			}
		}
	}
	// the command line tool end to end, twice per program (first programs only: one `go list` each)
	var recs []any
	cliN := 3
	if c.Thorough() {
		cliN = 10
	}
	if replay == "" {
		bin := filepath.Join(c.Scratch, "gomacro")
		cmd := exec.Command("go", "build", "-tags", "verif", "-o", bin, "github.com/benoitkugler/gomacro/cmd")
		cmd.Dir = filepath.Join(core.VerifDir(), "harness")
		cmd.Env = append(os.Environ(), "GOFLAGS=-mod=mod", "GOPROXY=off", "GOSUMDB=off", "GOTOOLCHAIN=local")
		if outb, err := cmd.CombinedOutput(); err != nil {
			return nil, core.Inconcl("building cmd/gomacro: %v\n%s", err, core.Tail(string(outb), 10))
		}
		for k := 0; k < cliN && k < len(items); k++ {
			var runs []RunObs
			for r := 0; r < 8; r++ { // (a two-way order dependence survives r runs with probability 2^(1-r))
				hs, err := cliRun(c, bin, items[k], r)
				if err != nil {
					return nil, err
				}
				ro := RunObs{Class: "ok", Files: []FileHash{}}
				for _, n := range synth.SortedKeys(hs) {
					ro.Files = append(ro.Files, FileHash{Name: n, Sha: hs[n]})
				}
				runs = append(runs, ro)
			}
			failed := 0
			for _, ro := range runs {
				if len(ro.Files) == 1 && ro.Files[0].Name == "<exit>" {
					failed++
				}
			}
			if failed == len(runs) {
				return nil, core.Inconcl("cmd/gomacro -config fails on program %d in every run (%s): the end-to-end comparison is vacuous", items[k].ID, runs[0].Files[0].Sha)
			}
			recs = append(recs, map[string]any{"case": items[k].ID, "target": "cmd/gomacro -config", "runs": runs})
		}
	}
	type key struct {
		id  int
		tgt string
	}
	texts := map[key][]RunObs{}
	var ids []int
	for id := range merged {
		ids = append(ids, id)
	}
	sort.Ints(ids)
	comparisons := 0
	for _, id := range ids {
		for _, tgt := range synth.SortedKeys(merged[id]) {
			runs := merged[id][tgt]
			texts[key{id, tgt}] = runs
			slim := make([]RunObs, len(runs))
			for i, r := range runs {
				slim[i] = RunObs{Class: r.Class, Files: r.Files}
			}
			recs = append(recs, map[string]any{"case": id, "target": tgt, "runs": slim})
			comparisons += len(runs)
		}
	}
	bad, err := c.JudgeTrace(res, "TraceDeterminism", recs)
	if err != nil {
		return nil, err
	}
	byID := map[int]Item{}
	for _, it := range items {
		byID[it.ID] = it
	}
	for _, v := range bad {
		id, tgt, why := core.Int(v, "case"), core.Str(v, "target"), core.Str(v, "why")
		detail := ""
		runs := texts[key{id, tgt}]
		// show the first differing pair of texts
	outer:
		for i := 1; i < len(runs); i++ {
			for name, t0 := range runs[0].Texts {
				if t1, ok := runs[i].Texts[name]; ok && t1 != t0 {
					detail = fmt.Sprintf("file %s, first difference:\n%s", name, firstDiff(t0, t1))
					break outer
				}
			}
		}
		res.Violations = append(res.Violations, core.Violation{Key: tgt + ": " + why, What: fmt.Sprintf("%s for target %s on program %d\n%s", why, tgt, id, detail), Replay: byID[id]})
	}
	res.Evaluations = comparisons
	res.TracesVsImpl = len(recs)
	res.Nontrivial = len(recs)
	res.Rule = fmt.Sprintf("%d seeded random full-feature packages (>=3 imported packages per Go header, unions, several Dart files, a table struct) x 8 generator entry points + analysis, each repeated %d times in one process (fresh analysis) in each of %d processes, plus cmd/gomacro -config end to end eight times on %d programs (two source files of one package); one record per (program, target); evaluations = repetitions compared", len(items), rounds, procs, cliN)
	res.Extra = map[string]any{"rounds_per_process": rounds, "processes": procs}
	for i, r := range recs {
		if i%17 == 0 {
			res.Sample(r)
		}
	}
	return res, nil
}

func firstDiff(a, b string) string {
	la, lb := strings.Split(a, "\n"), strings.Split(b, "\n")
	for i := 0; i < len(la) && i < len(lb); i++ {
		if la[i] != lb[i] {
			lo := i - 1
			if lo < 0 {
				lo = 0
			}
			hi := i + 3
			if hi > len(la) {
				hi = len(la)
			}
			hb := i + 3
			if hb > len(lb) {
				hb = len(lb)
			}
			return "run A:\n" + strings.Join(la[lo:hi], "\n") + "\nrun B:\n" + strings.Join(lb[lo:hb], "\n")
		}
	}
	return "(one text is a prefix of the other)"
}
