package core

import (
	"bufio"
	"bytes"
	"context"
	"encoding/json"
	"fmt"
	"os"
	"os/exec"
	"path/filepath"
	"strings"
	"sync"
	"time"
)

// ItemResult is the outcome of one item processed in an isolated worker.
type ItemResult struct {
	Class string          // "ok" | "fatal" (the process died: stack overflow, runtime fatal) | "timeout"
	Data  json.RawMessage // worker output for the item when Class = ok
	Log   string          // tail of the worker's stderr when it died
}

type itemJob struct {
	Items   []json.RawMessage `json:"items"`
	Timeout float64           `json:"timeout"` // seconds per item
}

// RunItems processes items in worker processes `verif __worker <name>`; a worker that dies on an item
// marks it fatal and the remaining items are retried in a fresh process, so every item gets a result.
func RunItems[I any](c *Ctx, name string, items []I, perItem time.Duration, chunk int) ([]ItemResult, error) {
	raw := make([]json.RawMessage, len(items))
	for i, it := range items {
		b, err := json.Marshal(it)
		if err != nil {
			return nil, err
		}
		raw[i] = b
	}
	results := make([]ItemResult, len(items))
	type span struct{ lo, hi int }
	var spans []span
	for i := 0; i < len(items); i += chunk {
		j := i + chunk
		if j > len(items) {
			j = len(items)
		}
		spans = append(spans, span{i, j})
	}
	sem := make(chan bool, c.Workers)
	var wg sync.WaitGroup
	var mu sync.Mutex
	var firstErr error
	for _, sp := range spans {
		wg.Add(1)
		go func(sp span) {
			defer wg.Done()
			sem <- true
			defer func() { <-sem }()
			lo := sp.lo
			for attempts := 0; lo < sp.hi && attempts < (sp.hi-sp.lo)+3; attempts++ {
				done, class, log, err := runItemChunk(c, name, raw[lo:sp.hi], perItem)
				if err != nil {
					mu.Lock()
					if firstErr == nil {
						firstErr = err
					}
					mu.Unlock()
					return
				}
				for k, d := range done {
					results[lo+k] = ItemResult{Class: "ok", Data: d}
				}
				lo += len(done)
				if class != "" && lo < sp.hi { // the worker died on item lo
					results[lo] = ItemResult{Class: class, Log: log}
					lo++
				} else if class != "" {
					mu.Lock()
					if firstErr == nil {
						firstErr = fmt.Errorf("worker %s died after its last item: %s", name, Tail(log, 10))
					}
					mu.Unlock()
					return
				}
			}
		}(sp)
	}
	wg.Wait()
	if firstErr != nil {
		return nil, Inconcl("%v", firstErr)
	}
	return results, nil
}

func runItemChunk(c *Ctx, name string, items []json.RawMessage, perItem time.Duration) (done []json.RawMessage, class, log string, err error) {
	dir, err := os.MkdirTemp(c.Scratch, "wi-"+name+"-")
	if err != nil {
		return nil, "", "", err
	}
	defer os.RemoveAll(dir)
	inF, outF := filepath.Join(dir, "in.json"), filepath.Join(dir, "out.ndjson")
	b, _ := json.Marshal(itemJob{Items: items, Timeout: perItem.Seconds()})
	if err := os.WriteFile(inF, b, 0o644); err != nil {
		return nil, "", "", err
	}
	self, _ := os.Executable()
	total := time.Duration(len(items)+2)*perItem + 2*time.Minute
	ctx, cancel := context.WithTimeout(context.Background(), total)
	defer cancel()
	cmd := exec.CommandContext(ctx, self, "__worker", name, inF, outF, dir)
	cmd.Env = append(os.Environ(), "GOFLAGS=-mod=mod", "GOPROXY=off", "GOSUMDB=off", "GOTOOLCHAIN=local", "GOMAXPROCS=2")
	var eb bytes.Buffer
	cmd.Stderr = &eb
	cmd.Stdout = &eb
	runErr := cmd.Run()
	timeoutMarker := false
	if f, e := os.Open(outF); e == nil {
		sc := bufio.NewScanner(f)
		sc.Buffer(make([]byte, 1<<20), 1<<28)
		for sc.Scan() {
			line := append([]byte(nil), sc.Bytes()...)
			if bytes.HasPrefix(line, []byte(`{"__timeout"`)) {
				timeoutMarker = true
				continue
			}
			if bytes.HasPrefix(line, []byte(`{"__setup_failed"`)) {
				f.Close()
				return nil, "", "", fmt.Errorf("worker %s setup failed: %s", name, line)
			}
			done = append(done, line)
		}
		f.Close()
	}
	if runErr == nil {
		if len(done) != len(items) {
			return nil, "", "", fmt.Errorf("worker %s wrote %d results for %d items", name, len(done), len(items))
		}
		return done, "", "", nil
	}
	log = eb.String()
	if i := strings.Index(log, "goroutine "); i > 600 {
		log = log[:600] + " ... " + Tail(log, 6)
	}
	if timeoutMarker || ctx.Err() != nil {
		return done, "timeout", log, nil
	}
	return done, "fatal", log, nil
}

// ItemWorker is the worker side: setup once (e.g. write and load all packages), then one call per item.
func ItemWorker[I any, S any, O any](args []string, setup func(items []I, dir string) (S, error), each func(state S, idx int, item I) O) {
	var job itemJob
	b, err := os.ReadFile(args[0])
	if err != nil {
		panic(err)
	}
	if err := json.Unmarshal(b, &job); err != nil {
		panic(err)
	}
	items := make([]I, len(job.Items))
	for i, r := range job.Items {
		if err := json.Unmarshal(r, &items[i]); err != nil {
			panic(err)
		}
	}
	out, err := os.Create(args[1])
	if err != nil {
		panic(err)
	}
	st, err := setup(items, args[2])
	if err != nil {
		fmt.Fprintf(out, "{\"__setup_failed\":%q}\n", err.Error())
		out.Close()
		os.Exit(4)
	}
	for i, it := range items {
		timer := time.AfterFunc(time.Duration(job.Timeout*float64(time.Second)), func() {
			fmt.Fprintf(out, "{\"__timeout\":%d}\n", i)
			out.Sync()
			os.Exit(3)
		})
		o := each(st, i, it)
		timer.Stop()
		ob, err := json.Marshal(o)
		if err != nil {
			panic(err)
		}
		out.Write(append(ob, '\n'))
	}
	out.Close()
}
