// Package core holds the plumbing shared by every check: scratch directories, TLC runs,
// ndjson traces, verdict files, known findings, evidence and the final report.
package core

import (
	"bufio"
	"bytes"
	"context"
	"crypto/sha256"
	"encoding/hex"
	"encoding/json"
	"fmt"
	"os"
	"os/exec"
	"path/filepath"
	"regexp"
	"sort"
	"strconv"
	"strings"
	"time"
)

// VerifDir is the root of the verification framework (set by bin/check through VERIF_DIR).
func VerifDir() string {
	if d := os.Getenv("VERIF_DIR"); d != "" {
		return d
	}
	return "/verif"
}

// RepoDir is the tree under verification.
func RepoDir() string {
	if d := os.Getenv("VERIF_REPO"); d != "" {
		return d
	}
	return "/repo"
}

// Inconclusive is returned (wrapped) when a run cannot decide: exit status 2, never a violation.
type Inconclusive struct{ Msg string }

func (e *Inconclusive) Error() string { return "inconclusive: " + e.Msg }

func Inconcl(format string, args ...any) error {
	return &Inconclusive{Msg: fmt.Sprintf(format, args...)}
}

// Ctx is handed to every check.
type Ctx struct {
	Prop    string
	Tier    string // quick | thorough
	Seed    int64
	Scratch string // removed at the end of the run
	Start   time.Time
	Workers int
}

func (c *Ctx) Thorough() bool { return c.Tier == "thorough" }

// Sub returns a fresh sub directory of the scratch area.
func (c *Ctx) Sub(name string) string {
	d := filepath.Join(c.Scratch, name)
	if err := os.MkdirAll(d, 0o755); err != nil {
		panic(err)
	}
	return d
}

// ---------------------------------------------------------------- ndjson

// WriteNDJSON writes one JSON document per line.
func WriteNDJSON(path string, recs []any) error {
	f, err := os.Create(path)
	if err != nil {
		return err
	}
	w := bufio.NewWriterSize(f, 1<<20)
	enc := json.NewEncoder(w)
	enc.SetEscapeHTML(false)
	for _, r := range recs {
		// TLC's Json module rejects JSON null: nil slices become empty arrays
		b, err := json.Marshal(r)
		if err != nil {
			f.Close()
			return err
		}
		if bytes.Contains(b, []byte("null")) {
			var g any
			d := json.NewDecoder(bytes.NewReader(b))
			d.UseNumber()
			if err := d.Decode(&g); err != nil {
				f.Close()
				return err
			}
			r = denull(g)
		}
		if err := enc.Encode(r); err != nil {
			f.Close()
			return err
		}
	}
	if err := w.Flush(); err != nil {
		f.Close()
		return err
	}
	return f.Close()
}

// ReadNDJSON reads a file of JSON lines into generic values.
func ReadNDJSON(path string) ([]map[string]any, error) {
	f, err := os.Open(path)
	if err != nil {
		return nil, err
	}
	defer f.Close()
	var out []map[string]any
	sc := bufio.NewScanner(f)
	sc.Buffer(make([]byte, 1<<20), 1<<28)
	for sc.Scan() {
		line := bytes.TrimSpace(sc.Bytes())
		if len(line) == 0 {
			continue
		}
		var m map[string]any
		d := json.NewDecoder(bytes.NewReader(line))
		d.UseNumber()
		if err := d.Decode(&m); err != nil {
			return nil, fmt.Errorf("%s: %w (%.200s)", path, err, line)
		}
		out = append(out, m)
	}
	return out, sc.Err()
}

// ---------------------------------------------------------------- TLC

type TLCOpts struct {
	Module     string            // e.g. "Decls" (file spec/Decls.tla)
	Config     string            // e.g. "Decls_quick.cfg"
	ConfigText string            // when set, the configuration is written from this text instead of Config
	Env        map[string]string // extra environment (IOEnv.X in the spec)
	Workers    int               // default 1
	Timeout    time.Duration     // default 10 min
	Simulate   string            // e.g. "num=200" (adds -simulate), with Depth
	Depth      int
	Seed       int64
	Coverage   bool
	Deadlock   bool // true: check deadlock (default off: -deadlock flag given)
	ExtraArg   []string
	HeapGB     int
	DFS        bool // depth-first state queue (acceptance-style trace validation)
}

type TLCResult struct {
	Generated   int64
	Distinct    int64
	Depth       int
	Output      string
	InvViolated string // name of violated invariant / property, "" if none
	ErrorKind   string // "", "invariant", "postcondition", "deadlock", "eval", "other"
	Wall        float64
	ZeroCover   []string // coverage lines with count 0 (only with Coverage)
}

var (
	reStates = regexp.MustCompile(`(\d+) states generated, (\d+) distinct states found`)
	reDepth  = regexp.MustCompile(`The depth of the complete state graph search is (\d+)`)
	reInv    = regexp.MustCompile(`Invariant (\S+) is violated`)
	reProp   = regexp.MustCompile(`(?:Action property|Temporal properties|property) (\S+)? ?(?:is|were) violated`)
	reSim    = regexp.MustCompile(`The number of states generated: (\d+)`)
)

// RunTLC runs TLC on a private copy of /verif/spec inside the scratch area.
func (c *Ctx) RunTLC(o TLCOpts) (*TLCResult, error) {
	if o.Workers == 0 {
		o.Workers = 1
	}
	if o.Timeout == 0 {
		o.Timeout = 10 * time.Minute
	}
	dir, err := os.MkdirTemp(c.Scratch, "tlc-"+o.Module+"-")
	if err != nil {
		return nil, err
	}
	specs, _ := filepath.Glob(filepath.Join(VerifDir(), "spec", "*"))
	for _, s := range specs {
		b, err := os.ReadFile(s)
		if err != nil {
			continue
		}
		if err := os.WriteFile(filepath.Join(dir, filepath.Base(s)), b, 0o644); err != nil {
			return nil, err
		}
	}
	if o.ConfigText != "" {
		o.Config = o.Module + "_gen.cfg"
		if err := os.WriteFile(filepath.Join(dir, o.Config), []byte(o.ConfigText), 0o644); err != nil {
			return nil, err
		}
	}
	args := []string{"-XX:+UseParallelGC"}
	if o.HeapGB > 0 {
		args = append(args, fmt.Sprintf("-Xmx%dg", o.HeapGB))
	} else {
		args = append(args, "-Xmx4g")
	}
	if o.DFS {
		args = append(args, "-Dtlc2.tool.queue.IStateQueue=StateDeque")
	}
	args = append(args, "-Xss512m", "-cp", "/opt/veriftools/tla/tla2tools.jar:/opt/veriftools/tla/CommunityModules-deps.jar", "tlc2.TLC",
		"-workers", strconv.Itoa(o.Workers), "-metadir", filepath.Join(dir, "meta"), "-config", o.Config)
	if !o.Deadlock {
		args = append(args, "-deadlock")
	}
	if o.Simulate != "" {
		args = append(args, "-simulate", o.Simulate)
		if o.Depth > 0 {
			args = append(args, "-depth", strconv.Itoa(o.Depth))
		}
	}
	if o.Seed != 0 {
		args = append(args, "-seed", strconv.FormatInt(o.Seed, 10))
	}
	if o.Coverage {
		args = append(args, "-coverage", "1")
	}
	args = append(args, o.ExtraArg...)
	args = append(args, o.Module+".tla")
	ctx, cancel := context.WithTimeout(context.Background(), o.Timeout)
	defer cancel()
	cmd := exec.CommandContext(ctx, "java", args...)
	cmd.Dir = dir
	cmd.Env = append(os.Environ(), "JAVA_TOOL_OPTIONS=")
	for k, v := range o.Env {
		cmd.Env = append(cmd.Env, k+"="+v)
	}
	var buf bytes.Buffer
	cmd.Stdout = &buf
	cmd.Stderr = &buf
	t0 := time.Now()
	runErr := cmd.Run()
	res := &TLCResult{Output: buf.String(), Wall: time.Since(t0).Seconds()}
	os.RemoveAll(filepath.Join(dir, "meta"))
	os.RemoveAll(filepath.Join(dir, "states"))
	if ctx.Err() != nil {
		return res, Inconcl("TLC %s/%s timed out after %s", o.Module, o.Config, o.Timeout)
	}
	if m := reStates.FindAllStringSubmatch(res.Output, -1); len(m) > 0 {
		last := m[len(m)-1]
		res.Generated, _ = strconv.ParseInt(last[1], 10, 64)
		res.Distinct, _ = strconv.ParseInt(last[2], 10, 64)
	} else if m := reSim.FindStringSubmatch(res.Output); m != nil {
		res.Generated, _ = strconv.ParseInt(m[1], 10, 64)
		res.Distinct = res.Generated
	}
	if m := reDepth.FindStringSubmatch(res.Output); m != nil {
		res.Depth, _ = strconv.Atoi(m[1])
	}
	switch {
	case reInv.MatchString(res.Output):
		res.ErrorKind = "invariant"
		res.InvViolated = reInv.FindStringSubmatch(res.Output)[1]
	case strings.Contains(res.Output, "is violated") || strings.Contains(res.Output, "were violated"):
		res.ErrorKind = "property"
		if m := reProp.FindStringSubmatch(res.Output); m != nil {
			res.InvViolated = m[1]
		}
	case strings.Contains(res.Output, "Deadlock reached"):
		res.ErrorKind = "deadlock"
	case strings.Contains(res.Output, "Error:") || runErr != nil:
		if strings.Contains(res.Output, "postcondition") || strings.Contains(res.Output, "POSTCONDITION") {
			res.ErrorKind = "postcondition"
		} else {
			res.ErrorKind = "other"
		}
	}
	if o.Coverage {
		for _, line := range strings.Split(res.Output, "\n") {
			t := strings.TrimSpace(line)
			if strings.HasPrefix(t, "<") && strings.HasSuffix(t, ": 0") || (strings.Contains(t, " line ") && strings.HasSuffix(t, ">: 0:0")) {
				res.ZeroCover = append(res.ZeroCover, t)
			}
		}
	}
	if os.Getenv("VERIF_DEBUG") != "" {
		fmt.Fprintf(os.Stderr, "---- TLC %s %s (%.1fs)\n%s\n", o.Module, o.Config, res.Wall, res.Output)
	}
	return res, nil
}

// MustClean turns any TLC error into an inconclusive result (used for runs that are plumbing: export, verdicts).
func (r *TLCResult) MustClean(what string) error {
	if r.ErrorKind != "" {
		return Inconcl("%s: TLC ended with %s %s\n%s", what, r.ErrorKind, r.InvViolated, Tail(r.Output, 40))
	}
	return nil
}

func Tail(s string, n int) string {
	lines := strings.Split(strings.TrimRight(s, "\n"), "\n")
	if len(lines) > n {
		lines = lines[len(lines)-n:]
	}
	return strings.Join(lines, "\n")
}

// ---------------------------------------------------------------- findings

type Finding struct {
	Status   string `json:"status"` // "known" or "fixed"
	Property string `json:"property"`
	Key      string `json:"key"`  // exact class key produced by the check
	What     string `json:"what"` // human description
	Commit   string `json:"commit,omitempty"`
}

func LoadFindings() ([]Finding, error) {
	b, err := os.ReadFile(filepath.Join(VerifDir(), "known_findings.json"))
	if err != nil {
		if os.IsNotExist(err) {
			return nil, nil
		}
		return nil, err
	}
	var f struct {
		Findings []Finding `json:"findings"`
	}
	if err := json.Unmarshal(b, &f); err != nil {
		return nil, err
	}
	return f.Findings, nil
}

// ---------------------------------------------------------------- result / report

type Violation struct {
	Key    string // class key (matched against known findings)
	What   string
	Replay any // payload written to the replay file
}

type Result struct {
	Level        string // evidence level
	Violations   []Violation
	Drift        []string
	States       int64
	Transitions  int64
	TracesVsImpl int
	Evaluations  int
	Nontrivial   int
	Rule         string
	Samples      []any
	Exhaustive   bool
	Assumptions  []string
	Extra        map[string]any
	ReplayReport string // for --replay runs
}

func (r *Result) AddTLC(t *TLCResult) {
	if t == nil {
		return
	}
	r.States += t.Distinct
	r.Transitions += t.Generated
}

func (r *Result) Sample(v any) {
	if len(r.Samples) < 6 {
		r.Samples = append(r.Samples, v)
	}
}

func hashOf(v any) string {
	b, _ := json.Marshal(v)
	s := sha256.Sum256(b)
	return hex.EncodeToString(s[:6])
}

// Finish prints the report lines, writes evidence and replay files and returns the exit code.
func Finish(c *Ctx, res *Result, runErr error) int {
	wall := time.Since(c.Start).Seconds()
	if runErr != nil {
		if inc, ok := runErr.(*Inconclusive); ok {
			fmt.Printf("INCONCLUSIVE property=%s %s\n", c.Prop, inc.Msg)
		} else {
			fmt.Printf("INCONCLUSIVE property=%s error: %v\n", c.Prop, runErr)
		}
		return 2
	}
	findings, err := LoadFindings()
	if err != nil {
		fmt.Printf("INCONCLUSIVE property=%s cannot read known_findings.json: %v\n", c.Prop, err)
		return 2
	}
	known := map[string]Finding{}
	for _, f := range findings {
		if f.Property == c.Prop && f.Status == "known" {
			known[f.Key] = f
		}
	}
	sort.SliceStable(res.Violations, func(i, j int) bool { return res.Violations[i].Key < res.Violations[j].Key })
	seenKnown := map[string]bool{}
	perKey := map[string]int{}
	fresh := 0
	exit := 0
	repDir := filepath.Join(VerifDir(), "replays")
	for _, v := range res.Violations {
		if f, ok := known[v.Key]; ok {
			if !seenKnown[v.Key] {
				seenKnown[v.Key] = true
				fmt.Printf("KNOWN-FINDING: property=%s %s [%s]\n", c.Prop, f.What, v.Key)
			}
			continue
		}
		fresh++
		exit = 1
		perKey[v.Key]++
		if perKey[v.Key] > 2 || len(perKey) > 12 {
			continue // same class already reported twice
		}
		os.MkdirAll(repDir, 0o755)
		path := filepath.Join(repDir, fmt.Sprintf("%s-%s.json", c.Prop, hashOf(v.Replay)))
		payload := map[string]any{"property": c.Prop, "key": v.Key, "what": v.What, "case": v.Replay}
		b, _ := json.MarshalIndent(payload, "", " ")
		os.WriteFile(path, b, 0o644)
		fmt.Printf("VIOLATION property=%s replay=%s\n", c.Prop, path)
		what := v.What
		if len(what) > 600 {
			what = strings.ToValidUTF8(what[:600], "") + "..."
		}
		fmt.Printf("  key=%s : %s\n", v.Key, what)
	}
	if os.Getenv("VERIF_KEYS") != "" {
		counts := map[string]int{}
		for _, v := range res.Violations {
			counts[v.Key]++
		}
		for k, n := range counts {
			fmt.Printf("KEY %d x %s\n", n, k)
		}
	}
	for i, d := range res.Drift {
		if i < 10 {
			fmt.Printf("MODEL-DRIFT property=%s %s\n", c.Prop, d)
		}
	}
	// evidence
	cov := map[string]any{
		"evaluations":                   res.Evaluations,
		"distinct_nontrivial":           res.Nontrivial,
		"rule":                          res.Rule,
		"samples":                       res.Samples,
		"states":                        res.States,
		"transitions":                   res.Transitions,
		"traces_validated_against_impl": res.TracesVsImpl,
		"exhaustive":                    res.Exhaustive,
		"model_drift":                   len(res.Drift),
		"known_findings_hit":            len(seenKnown),
	}
	for k, v := range res.Extra {
		cov[k] = v
	}
	if len(res.Samples) == 0 {
		cov["samples"] = []any{"(none)"}
	}
	level := res.Level
	if level == "" {
		level = "model_checking"
	}
	ev := map[string]any{
		"property_id": c.Prop,
		"tier":        c.Tier,
		"seed":        c.Seed,
		"level":       level,
		"coverage":    cov,
		"assumptions": res.Assumptions,
		"wall_s":      wall,
		"violations":  fresh,
	}
	if res.Assumptions == nil {
		ev["assumptions"] = []string{}
	}
	b, _ := json.MarshalIndent(ev, "", " ")
	os.MkdirAll(filepath.Join(VerifDir(), "evidence"), 0o755)
	if err := os.WriteFile(filepath.Join(VerifDir(), "evidence", c.Prop+".json"), b, 0o644); err != nil {
		fmt.Printf("INCONCLUSIVE property=%s cannot write evidence: %v\n", c.Prop, err)
		return 2
	}
	if exit == 0 {
		fmt.Printf("OK property=%s tier=%s seed=%d evaluations=%d nontrivial=%d states=%d traces=%d wall=%.1fs\n",
			c.Prop, c.Tier, c.Seed, res.Evaluations, res.Nontrivial, res.States, res.TracesVsImpl, wall)
	}
	return exit
}

// FinishReplay reports a --replay run: exit 1 when the stored case still violates, 0 otherwise.
// It does not touch evidence files or known findings.
func FinishReplay(c *Ctx, res *Result) int {
	if len(res.Violations) > 0 {
		for _, v := range res.Violations {
			fmt.Printf("REPLAY property=%s still violates: %s : %s\n", c.Prop, v.Key, v.What)
		}
		return 1
	}
	fmt.Printf("REPLAY property=%s holds on the stored case\n", c.Prop)
	return 0
}

// LoadReplay reads the "case" payload of a replay file into v.
func LoadReplay(path string, v any) error {
	b, err := os.ReadFile(path)
	if err != nil {
		return err
	}
	var wrap struct {
		Case json.RawMessage `json:"case"`
	}
	if err := json.Unmarshal(b, &wrap); err != nil {
		return err
	}
	return json.Unmarshal(wrap.Case, v)
}

// Str / Int helpers for generic ndjson maps.
func Str(m map[string]any, k string) string {
	s, _ := m[k].(string)
	return s
}

func Int(m map[string]any, k string) int {
	switch v := m[k].(type) {
	case json.Number:
		i, _ := v.Int64()
		return int(i)
	case float64:
		return int(v)
	}
	return 0
}

func Bool(m map[string]any, k string) bool {
	b, _ := m[k].(bool)
	return b
}

// RunSelfWorker re-executes this binary as `__worker <name> <in.json> <out.json>` (crash isolation,
// private working directory). The worker reads its input from in.json and writes out.json.
func (c *Ctx) RunSelfWorker(name string, in any, out any, timeout time.Duration) (stderr string, err error) {
	dir, err := os.MkdirTemp(c.Scratch, "w-"+name+"-")
	if err != nil {
		return "", err
	}
	defer os.RemoveAll(dir)
	inF, outF := filepath.Join(dir, "in.json"), filepath.Join(dir, "out.json")
	b, err := json.Marshal(in)
	if err != nil {
		return "", err
	}
	if err := os.WriteFile(inF, b, 0o644); err != nil {
		return "", err
	}
	self, _ := os.Executable()
	ctx, cancel := context.WithTimeout(context.Background(), timeout)
	defer cancel()
	cmd := exec.CommandContext(ctx, self, "__worker", name, inF, outF, dir)
	cmd.Env = append(os.Environ(), "GOFLAGS=-mod=mod", "GOPROXY=off", "GOSUMDB=off", "GOTOOLCHAIN=local")
	var eb bytes.Buffer
	cmd.Stderr = &eb
	cmd.Stdout = &eb
	runErr := cmd.Run()
	if ctx.Err() != nil {
		return eb.String(), fmt.Errorf("worker %s: timeout after %s", name, timeout)
	}
	if runErr != nil {
		return eb.String(), fmt.Errorf("worker %s: %v", name, runErr)
	}
	ob, err := os.ReadFile(outF)
	if err != nil {
		return eb.String(), err
	}
	d := json.NewDecoder(bytes.NewReader(ob))
	if err := d.Decode(out); err != nil {
		return eb.String(), err
	}
	return eb.String(), nil
}

// WorkerIO is used inside a worker: decode the input, run, encode the output.
func WorkerIO[I any, O any](args []string, f func(in I, dir string) O) {
	var in I
	b, err := os.ReadFile(args[0])
	if err != nil {
		panic(err)
	}
	if err := json.Unmarshal(b, &in); err != nil {
		panic(err)
	}
	out := f(in, args[2])
	ob, err := json.Marshal(out)
	if err != nil {
		panic(err)
	}
	if err := os.WriteFile(args[1], ob, 0o644); err != nil {
		panic(err)
	}
}

// JudgeTraceChunked is JudgeTrace over consecutive slices of recs of at most maxBytes of JSON each, so that the
// memory TLC needs to deserialise a trace stays bounded (verdicts refer to records by their own "case" field).
func (c *Ctx) JudgeTraceChunked(res *Result, module string, recs []any, maxBytes int) ([]map[string]any, error) {
	return c.JudgeTraceChunkedAt(res, module, recs, maxBytes, nil)
}

// JudgeTraceChunkedAt only cuts before records for which canSplit holds (stateful trace specs: the start of a session).
func (c *Ctx) JudgeTraceChunkedAt(res *Result, module string, recs []any, maxBytes int, canSplit func(rec any) bool) ([]map[string]any, error) {
	var bad []map[string]any
	start, size := 0, 0
	flush := func(end int) error {
		if end == start {
			return nil
		}
		b, err := c.JudgeTrace(res, module, recs[start:end])
		if err != nil {
			return err
		}
		for _, v := range b {
			if _, has := v["line"]; has { // positions refer to the whole trace
				v["line"] = float64(Int(v, "line") + start)
			}
		}
		bad = append(bad, b...)
		start, size = end, 0
		return nil
	}
	for i, r := range recs {
		b, _ := json.Marshal(r)
		if size > 0 && size+len(b) > maxBytes && (canSplit == nil || canSplit(r)) {
			if err := flush(i); err != nil {
				return nil, err
			}
		}
		size += len(b)
	}
	if err := flush(len(recs)); err != nil {
		return nil, err
	}
	return bad, nil
}

// JudgeTrace writes recs as a trace, runs a verdict-style trace spec and returns the failing verdicts.
func (c *Ctx) JudgeTrace(res *Result, module string, recs []any) ([]map[string]any, error) {
	trace := filepath.Join(c.Scratch, module+"-trace.ndjson")
	if err := WriteNDJSON(trace, recs); err != nil {
		return nil, err
	}
	vf := filepath.Join(c.Scratch, module+"-verdicts.ndjson")
	os.Remove(vf)
	t, err := c.RunTLC(TLCOpts{Module: module, Config: module + ".cfg", Workers: 1, HeapGB: 8,
		Env: map[string]string{"VERIF_TRACE": trace, "VERIF_OUT": vf}, Timeout: 30 * time.Minute})
	if err != nil {
		return nil, err
	}
	if err := t.MustClean(module); err != nil {
		return nil, err
	}
	res.AddTLC(t)
	vs, err := ReadNDJSON(vf)
	if err != nil || len(vs) == 0 || Int(vs[0], "consumed") != len(recs) {
		return nil, Inconcl("%s: verdict file incomplete (%v)", module, err)
	}
	for _, v := range vs[1:] {
		if strings.HasPrefix(Str(v, "why"), "harness:") {
			return nil, Inconcl("%s: %s (case %d)", module, Str(v, "why"), Int(v, "case"))
		}
	}
	if os.Getenv("VERIF_KEEP") == "" {
		os.Remove(trace)
	}
	return vs[1:], nil
}

func denull(v any) any {
	switch x := v.(type) {
	case nil:
		return []any{}
	case map[string]any:
		for k, e := range x {
			x[k] = denull(e)
		}
		return x
	case []any:
		for i, e := range x {
			x[i] = denull(e)
		}
		return x
	}
	return v
}
