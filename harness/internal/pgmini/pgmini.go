// Package pgmini is an in-memory, schema-enforcing database/sql driver for the SQL dialect gomacro's
// CRUD generator emits.  It is loaded ONLY from a schema description derived from the generated SQL
// script (tables, columns, SQL types, NOT NULL, CHECKs, defaults, UNIQUE / PRIMARY KEY sets, foreign
// keys with ON DELETE) and implements exactly those tables: an unknown table or column, a value of
// the wrong kind or out of range, NULL into NOT NULL, a duplicate key, a dangling foreign key, a
// failing CHECK, a placeholder numbering that is not $1..$n with n arguments are errors.
// Unquoted identifiers fold to lower case, quoted ones do not (as in PostgreSQL).
package pgmini

import (
	"database/sql"
	"database/sql/driver"
	"encoding/json"
	"fmt"
	"io"
	"sort"
	"strconv"
	"strings"
	"sync"
	"time"
)

type Column struct {
	Name    string   `json:"name"` // folded (lower case)
	Type    string   `json:"type"` // serial | integer | smallint | real | text | boolean | timestamp | date | bytea | jsonb | <t>[] | composite:<n>
	NotNull bool     `json:"notnull"`
	Primary bool     `json:"primary"`
	In      []string `json:"in"`      // allowed values (canonical text), empty = any
	ArrLen  int      `json:"arrlen"`  // -1 = any
	Default string   `json:"default"` // canonical text, "" = none
	Equals  string   `json:"equals"`  // guard check col = value, "" = none
	HasDef  bool     `json:"hasdef"`
	HasEq   bool     `json:"haseq"`
}

type ForeignKey struct {
	Col      string `json:"col"`
	Ref      string `json:"ref"`
	OnDelete string `json:"ondelete"`
}

type TableDef struct {
	Name    string       `json:"name"`
	Cols    []Column     `json:"cols"`
	Uniques [][]string   `json:"uniques"`
	FKs     []ForeignKey `json:"fks"`
}

type Schema struct {
	Tables []TableDef `json:"tables"`
}

type row map[string]any

type table struct {
	def    TableDef
	rows   []row
	nextID int64
}

type DB struct {
	mu     sync.Mutex
	tables map[string]*table
	Log    []string // statements executed (text)
}

var (
	regMu sync.Mutex
	dbs   = map[string]*DB{}
)

func init() { sql.Register("pgmini", drv{}) }

// Create registers a fresh database under name.
func Create(name string, schemaJSON []byte) (*DB, error) {
	var s Schema
	if err := json.Unmarshal(schemaJSON, &s); err != nil {
		return nil, err
	}
	db := &DB{tables: map[string]*table{}}
	for _, t := range s.Tables {
		db.tables[t.Name] = &table{def: t, nextID: 1}
	}
	regMu.Lock()
	dbs[name] = db
	regMu.Unlock()
	return db, nil
}

type drv struct{}

func (drv) Open(name string) (driver.Conn, error) {
	regMu.Lock()
	db := dbs[name]
	regMu.Unlock()
	if db == nil {
		return nil, fmt.Errorf("pgmini: no database %q", name)
	}
	return &conn{db: db}, nil
}

type conn struct {
	db   *DB
	snap map[string][]row
	ids  map[string]int64
}

func (c *conn) Prepare(q string) (driver.Stmt, error) { return &stmt{c: c, q: q}, nil }
func (c *conn) Close() error                          { return nil }
func (c *conn) Begin() (driver.Tx, error) {
	c.db.mu.Lock()
	defer c.db.mu.Unlock()
	c.snap, c.ids = map[string][]row{}, map[string]int64{}
	for n, t := range c.db.tables {
		cp := make([]row, len(t.rows))
		for i, r := range t.rows {
			cr := row{}
			for k, v := range r {
				cr[k] = v
			}
			cp[i] = cr
		}
		c.snap[n], c.ids[n] = cp, t.nextID
	}
	return c, nil
}
func (c *conn) Commit() error { c.snap = nil; return nil }
func (c *conn) Rollback() error {
	c.db.mu.Lock()
	defer c.db.mu.Unlock()
	for n, rs := range c.snap {
		c.db.tables[n].rows, c.db.tables[n].nextID = rs, c.ids[n]
	}
	c.snap = nil
	return nil
}

type stmt struct {
	c    *conn
	q    string
	copy [][]driver.Value
}

func (s *stmt) Close() error  { return nil }
func (s *stmt) NumInput() int { return -1 }

type result struct{ n int64 }

func (r result) LastInsertId() (int64, error) {
	return 0, fmt.Errorf("pgmini: LastInsertId is not supported")
}
func (r result) RowsAffected() (int64, error) { return r.n, nil }

func (s *stmt) Exec(args []driver.Value) (driver.Result, error) {
	s.c.db.mu.Lock()
	defer s.c.db.mu.Unlock()
	p, err := parse(s.q)
	if err != nil {
		return nil, err
	}
	if p.kind == "copy" {
		if len(args) > 0 {
			s.copy = append(s.copy, append([]driver.Value(nil), args...))
			return result{0}, nil
		}
		n, err := s.c.db.flushCopy(p, s.copy)
		s.copy = nil
		return result{n}, err
	}
	rs, err := s.c.db.run(p, args)
	if err != nil {
		return nil, err
	}
	return result{int64(rs.affected)}, nil
}

func (s *stmt) Query(args []driver.Value) (driver.Rows, error) {
	s.c.db.mu.Lock()
	defer s.c.db.mu.Unlock()
	p, err := parse(s.q)
	if err != nil {
		return nil, err
	}
	return s.c.db.run(p, args)
}

type rows struct {
	cols     []string
	data     [][]driver.Value
	i        int
	affected int
}

func (r *rows) Columns() []string { return r.cols }
func (r *rows) Close() error      { return nil }
func (r *rows) Next(dest []driver.Value) error {
	if r.i >= len(r.data) {
		return io.EOF
	}
	copy(dest, r.data[r.i])
	r.i++
	return nil
}

// ---------------------------------------------------------------- statements

type tok struct {
	k string // id | qid | num | str | ph | punct
	v string
}

func lex(q string) ([]tok, error) {
	var out []tok
	for i := 0; i < len(q); {
		c := q[i]
		switch {
		case c == ' ' || c == '\n' || c == '\t' || c == '\r':
			i++
		case c == '"':
			j := strings.IndexByte(q[i+1:], '"')
			if j < 0 {
				return nil, fmt.Errorf("pgmini: unterminated quoted identifier")
			}
			out = append(out, tok{"qid", q[i+1 : i+1+j]})
			i += j + 2
		case c == '\'':
			j := strings.IndexByte(q[i+1:], '\'')
			if j < 0 {
				return nil, fmt.Errorf("pgmini: unterminated string")
			}
			out = append(out, tok{"str", q[i+1 : i+1+j]})
			i += j + 2
		case c == '$':
			j := i + 1
			for j < len(q) && q[j] >= '0' && q[j] <= '9' {
				j++
			}
			if j == i+1 {
				return nil, fmt.Errorf("pgmini: syntax error at or near \"$\"")
			}
			out = append(out, tok{"ph", q[i+1 : j]})
			i = j
		case c >= '0' && c <= '9':
			j := i
			for j < len(q) && (q[j] >= '0' && q[j] <= '9' || q[j] == '.') {
				j++
			}
			out = append(out, tok{"num", q[i:j]})
			i = j
		case c == '_' || c >= 'a' && c <= 'z' || c >= 'A' && c <= 'Z':
			j := i
			for j < len(q) && (q[j] == '_' || q[j] >= 'a' && q[j] <= 'z' || q[j] >= 'A' && q[j] <= 'Z' || q[j] >= '0' && q[j] <= '9') {
				j++
			}
			out = append(out, tok{"id", strings.ToLower(q[i:j])})
			i = j
		default:
			out = append(out, tok{"punct", string(c)})
			i++
		}
	}
	return out, nil
}

type cond struct {
	op   string // and | or | eq | any | isnull | phnull | true
	l, r *cond
	col  string
	ph   int
}

type parsed struct {
	kind      string // select | insert | update | delete | copy
	table     string
	cols      []string // selected / inserted / updated columns
	vals      []int    // placeholders of inserted / updated values
	where     *cond
	returning []string
	phs       []int // every placeholder occurrence
}

type parser struct {
	ts []tok
	p  int
	ph []int
}

func (p *parser) peek() tok {
	if p.p >= len(p.ts) {
		return tok{"eof", ""}
	}
	return p.ts[p.p]
}
func (p *parser) next() tok { t := p.peek(); p.p++; return t }
func (p *parser) kw(w string) bool {
	if t := p.peek(); t.k == "id" && t.v == w {
		p.p++
		return true
	}
	return false
}
func (p *parser) punct(c string) bool {
	if t := p.peek(); t.k == "punct" && t.v == c {
		p.p++
		return true
	}
	return false
}
func (p *parser) ident() (string, error) {
	t := p.next()
	if t.k == "id" || t.k == "qid" {
		return t.v, nil
	}
	return "", fmt.Errorf("pgmini: syntax error at or near %q", t.v)
}
func (p *parser) identList() ([]string, error) {
	var out []string
	for {
		id, err := p.ident()
		if err != nil {
			return nil, err
		}
		out = append(out, id)
		if !p.punct(",") {
			return out, nil
		}
	}
}
func (p *parser) placeholder() (int, error) {
	t := p.next()
	if t.k != "ph" {
		return 0, fmt.Errorf("pgmini: syntax error at or near %q (a placeholder is expected)", t.v)
	}
	n, _ := strconv.Atoi(t.v)
	p.ph = append(p.ph, n)
	return n, nil
}
func (p *parser) phList() ([]int, error) {
	var out []int
	for {
		n, err := p.placeholder()
		if err != nil {
			return nil, err
		}
		out = append(out, n)
		if !p.punct(",") {
			return out, nil
		}
	}
}

func (p *parser) cond() (*cond, error) {
	l, err := p.condAnd()
	if err != nil {
		return nil, err
	}
	for p.kw("or") {
		r, err := p.condAnd()
		if err != nil {
			return nil, err
		}
		l = &cond{op: "or", l: l, r: r}
	}
	return l, nil
}
func (p *parser) condAnd() (*cond, error) {
	l, err := p.condAtom()
	if err != nil {
		return nil, err
	}
	for p.kw("and") {
		r, err := p.condAtom()
		if err != nil {
			return nil, err
		}
		l = &cond{op: "and", l: l, r: r}
	}
	return l, nil
}
func (p *parser) condAtom() (*cond, error) {
	if p.punct("(") {
		c, err := p.cond()
		if err != nil {
			return nil, err
		}
		if !p.punct(")") {
			return nil, fmt.Errorf("pgmini: syntax error: ) expected")
		}
		return c, nil
	}
	if p.peek().k == "ph" {
		n, _ := p.placeholder()
		if p.kw("is") && p.kw("null") {
			return &cond{op: "phnull", ph: n}, nil
		}
		return nil, fmt.Errorf("pgmini: unsupported condition on a placeholder")
	}
	col, err := p.ident()
	if err != nil {
		return nil, err
	}
	if p.kw("is") {
		if !p.kw("null") {
			return nil, fmt.Errorf("pgmini: syntax error after IS")
		}
		return &cond{op: "isnull", col: col}, nil
	}
	if !p.punct("=") {
		return nil, fmt.Errorf("pgmini: syntax error at or near %q (= expected)", p.peek().v)
	}
	if p.kw("any") {
		if !p.punct("(") {
			return nil, fmt.Errorf("pgmini: syntax error after ANY")
		}
		n, err := p.placeholder()
		if err != nil {
			return nil, err
		}
		if !p.punct(")") {
			return nil, fmt.Errorf("pgmini: syntax error: ) expected")
		}
		return &cond{op: "any", col: col, ph: n}, nil
	}
	n, err := p.placeholder()
	if err != nil {
		return nil, err
	}
	return &cond{op: "eq", col: col, ph: n}, nil
}

func parse(q string) (*parsed, error) {
	ts, err := lex(q)
	if err != nil {
		return nil, err
	}
	for len(ts) > 0 && ts[len(ts)-1].k == "punct" && ts[len(ts)-1].v == ";" {
		ts = ts[:len(ts)-1]
	}
	p := &parser{ts: ts}
	out := &parsed{}
	tail := func() error {
		if p.kw("where") {
			if out.where, err = p.cond(); err != nil {
				return err
			}
		}
		if p.kw("returning") {
			if out.returning, err = p.identList(); err != nil {
				return err
			}
		}
		if p.peek().k != "eof" {
			return fmt.Errorf("pgmini: syntax error at or near %q", p.peek().v)
		}
		return nil
	}
	switch {
	case p.kw("select"):
		out.kind = "select"
		if out.cols, err = p.identList(); err != nil {
			return nil, err
		}
		if !p.kw("from") {
			return nil, fmt.Errorf("pgmini: syntax error: FROM expected")
		}
		if out.table, err = p.ident(); err != nil {
			return nil, err
		}
		if err := tail(); err != nil {
			return nil, err
		}
	case p.kw("insert"):
		out.kind = "insert"
		if !p.kw("into") {
			return nil, fmt.Errorf("pgmini: syntax error: INTO expected")
		}
		if out.table, err = p.ident(); err != nil {
			return nil, err
		}
		if p.kw("default") {
			if !p.kw("values") {
				return nil, fmt.Errorf("pgmini: syntax error after DEFAULT")
			}
		} else {
			if !p.punct("(") {
				return nil, fmt.Errorf("pgmini: syntax error: ( expected")
			}
			if out.cols, err = p.identList(); err != nil {
				return nil, err
			}
			if !p.punct(")") || !p.kw("values") || !p.punct("(") {
				return nil, fmt.Errorf("pgmini: syntax error in INSERT")
			}
			if out.vals, err = p.phList(); err != nil {
				return nil, err
			}
			if !p.punct(")") {
				return nil, fmt.Errorf("pgmini: syntax error: ) expected")
			}
		}
		if err := tail(); err != nil {
			return nil, err
		}
	case p.kw("update"):
		out.kind = "update"
		if out.table, err = p.ident(); err != nil {
			return nil, err
		}
		if !p.kw("set") {
			return nil, fmt.Errorf("pgmini: syntax error in UPDATE")
		}
		if p.punct("(") { // SET (a, b) = ($1, $2)
			if out.cols, err = p.identList(); err != nil {
				return nil, err
			}
			if !p.punct(")") || !p.punct("=") || !p.punct("(") {
				return nil, fmt.Errorf("pgmini: syntax error in UPDATE")
			}
			if out.vals, err = p.phList(); err != nil {
				return nil, err
			}
			if !p.punct(")") {
				return nil, fmt.Errorf("pgmini: syntax error: ) expected")
			}
		} else { // SET a = $1, b = $2
			for {
				col, err := p.ident()
				if err != nil {
					return nil, err
				}
				if !p.punct("=") {
					return nil, fmt.Errorf("pgmini: syntax error in UPDATE: = expected")
				}
				n, err := p.placeholder()
				if err != nil {
					return nil, err
				}
				out.cols, out.vals = append(out.cols, col), append(out.vals, n)
				if !p.punct(",") {
					break
				}
			}
		}
		if err := tail(); err != nil {
			return nil, err
		}
	case p.kw("delete"):
		out.kind = "delete"
		if !p.kw("from") {
			return nil, fmt.Errorf("pgmini: syntax error: FROM expected")
		}
		if out.table, err = p.ident(); err != nil {
			return nil, err
		}
		if err := tail(); err != nil {
			return nil, err
		}
	case p.kw("copy"):
		out.kind = "copy"
		if out.table, err = p.ident(); err != nil {
			return nil, err
		}
		if !p.punct("(") {
			return nil, fmt.Errorf("pgmini: syntax error in COPY")
		}
		if out.cols, err = p.identList(); err != nil {
			return nil, err
		}
		if !p.punct(")") {
			return nil, fmt.Errorf("pgmini: syntax error in COPY")
		}
	default:
		return nil, fmt.Errorf("pgmini: unsupported statement: %.60s", q)
	}
	out.phs = p.ph
	return out, nil
}

// ---------------------------------------------------------------- execution

func (db *DB) tableOf(name string) (*table, error) {
	t := db.tables[name]
	if t == nil {
		return nil, fmt.Errorf("pgmini: relation %q does not exist", name)
	}
	return t, nil
}

func (t *table) col(name string) (*Column, error) {
	for i := range t.def.Cols {
		if t.def.Cols[i].Name == name {
			return &t.def.Cols[i], nil
		}
	}
	return nil, fmt.Errorf("pgmini: column %q of relation %q does not exist", name, t.def.Name)
}

func checkPlaceholders(p *parsed, nargs int) error {
	seen := map[int]bool{}
	max := 0
	for _, n := range p.phs {
		seen[n] = true
		if n > max {
			max = n
		}
	}
	for i := 1; i <= max; i++ {
		if !seen[i] {
			return fmt.Errorf("pgmini: placeholders are not numbered $1..$%d (no $%d)", max, i)
		}
	}
	if max != nargs {
		return fmt.Errorf("pgmini: the statement has %d placeholders but %d arguments were given", max, nargs)
	}
	return nil
}

// canon renders a stored value as canonical text (used for comparisons and CHECKs).
func canon(v any) string {
	switch x := v.(type) {
	case nil:
		return "NULL"
	case int64:
		return strconv.FormatInt(x, 10)
	case float64:
		return strconv.FormatFloat(x, 'g', -1, 64)
	case bool:
		return strconv.FormatBool(x)
	case string:
		return "'" + x + "'"
	case []byte:
		return "'" + string(x) + "'"
	case time.Time:
		return x.UTC().Format(time.RFC3339)
	}
	return fmt.Sprint(v)
}

func (c *Column) coerce(v driver.Value) (any, error) {
	if v == nil {
		return nil, nil
	}
	base := c.Type
	bad := func() error {
		return fmt.Errorf("pgmini: column %q is of type %s but the value is %T (%v)", c.Name, c.Type, v, v)
	}
	asText := func() (string, bool) {
		switch x := v.(type) {
		case string:
			return x, true
		case []byte:
			return string(x), true
		}
		return "", false
	}
	switch {
	case base == "serial" || base == "integer" || base == "smallint" || base == "bigint":
		x, ok := v.(int64)
		if !ok {
			return nil, bad()
		}
		lim := int64(1) << 31
		if base == "smallint" {
			lim = 1 << 15
		}
		if base == "bigint" {
			lim = 1 << 62
		}
		if x < -lim || x >= lim {
			return nil, fmt.Errorf("pgmini: %s out of range for column %q: %d", base, c.Name, x)
		}
		return x, nil
	case base == "real":
		switch x := v.(type) {
		case float64:
			return float64(float32(x)), nil
		case int64:
			return float64(x), nil
		}
		return nil, bad()
	case base == "text":
		s, ok := v.(string)
		if !ok {
			if b, isB := v.([]byte); isB {
				return string(b), nil
			}
			return nil, bad()
		}
		return s, nil
	case base == "boolean":
		b, ok := v.(bool)
		if !ok {
			return nil, bad()
		}
		return b, nil
	case strings.HasPrefix(base, "timestamp"):
		t, ok := v.(time.Time)
		if !ok {
			return nil, bad()
		}
		return t.UTC().Truncate(time.Second), nil
	case base == "date":
		t, ok := v.(time.Time)
		if !ok {
			return nil, bad()
		}
		u := t.UTC()
		return time.Date(u.Year(), u.Month(), u.Day(), 0, 0, 0, 0, time.UTC), nil
	case base == "bytea":
		b, ok := v.([]byte)
		if !ok {
			return nil, bad()
		}
		return append([]byte(nil), b...), nil
	case base == "jsonb":
		s, ok := asText()
		if !ok {
			return nil, bad()
		}
		var x any
		if err := json.Unmarshal([]byte(s), &x); err != nil {
			return nil, fmt.Errorf("pgmini: invalid input syntax for type json (column %q): %v", c.Name, err)
		}
		b, _ := json.Marshal(x)
		return b, nil
	case strings.HasSuffix(base, "[]"):
		s, ok := asText()
		if !ok || len(s) < 2 || s[0] != '{' || s[len(s)-1] != '}' {
			return nil, fmt.Errorf("pgmini: malformed array literal for column %q: %v", c.Name, v)
		}
		n := 0
		if s != "{}" {
			n = strings.Count(s, ",") + 1
		}
		if c.ArrLen >= 0 && n != c.ArrLen {
			return nil, fmt.Errorf("pgmini: new row violates check constraint (array_length(%s, 1) = %d)", c.Name, c.ArrLen)
		}
		elem := strings.TrimSuffix(base, "[]")
		if s != "{}" && (elem == "integer" || elem == "smallint") {
			for _, part := range strings.Split(s[1:len(s)-1], ",") {
				if _, err := strconv.ParseInt(strings.TrimSpace(part), 10, 64); err != nil {
					return nil, fmt.Errorf("pgmini: invalid input syntax for type %s: %q", elem, part)
				}
			}
		}
		return []byte(s), nil
	case strings.HasPrefix(base, "composite:"):
		s, ok := asText()
		if !ok || len(s) < 2 || s[0] != '(' || s[len(s)-1] != ')' {
			return nil, fmt.Errorf("pgmini: malformed record literal for column %q: %v", c.Name, v)
		}
		return []byte(strings.ReplaceAll(s, " ", "")), nil
	}
	return nil, fmt.Errorf("pgmini: unsupported column type %q", c.Type)
}

func out(v any) driver.Value {
	switch x := v.(type) {
	case []byte:
		return append([]byte(nil), x...)
	}
	return v
}

func (db *DB) eval(t *table, r row, c *cond, args []driver.Value) (bool, error) {
	if c == nil {
		return true, nil
	}
	switch c.op {
	case "and", "or":
		l, err := db.eval(t, r, c.l, args)
		if err != nil {
			return false, err
		}
		rr, err := db.eval(t, r, c.r, args)
		if err != nil {
			return false, err
		}
		if c.op == "and" {
			return l && rr, nil
		}
		return l || rr, nil
	case "phnull":
		return args[c.ph-1] == nil, nil
	case "isnull":
		if _, err := t.col(c.col); err != nil {
			return false, err
		}
		return r[c.col] == nil, nil
	case "eq":
		col, err := t.col(c.col)
		if err != nil {
			return false, err
		}
		if args[c.ph-1] == nil || r[c.col] == nil {
			return false, nil // NULL = anything is not true
		}
		v, err := col.coerce(args[c.ph-1])
		if err != nil {
			return false, err
		}
		return canon(v) == canon(r[c.col]), nil
	case "any":
		col, err := t.col(c.col)
		if err != nil {
			return false, err
		}
		var s string
		switch x := args[c.ph-1].(type) {
		case string:
			s = x
		case []byte:
			s = string(x)
		case nil:
			return false, nil
		default:
			return false, fmt.Errorf("pgmini: op ANY/ALL (array) requires array on right side, got %T", x)
		}
		if len(s) < 2 || s[0] != '{' {
			return false, fmt.Errorf("pgmini: malformed array literal: %q", s)
		}
		if s == "{}" || r[c.col] == nil {
			return false, nil
		}
		for _, part := range strings.Split(s[1:len(s)-1], ",") {
			n, err := strconv.ParseInt(strings.TrimSpace(part), 10, 64)
			if err != nil {
				return false, fmt.Errorf("pgmini: ANY over a non integer array is not supported: %q", s)
			}
			v, err := col.coerce(n)
			if err != nil {
				return false, err
			}
			if canon(v) == canon(r[c.col]) {
				return true, nil
			}
		}
		return false, nil
	}
	return false, fmt.Errorf("pgmini: unsupported condition")
}

// validate checks a complete row against NOT NULL, CHECK, UNIQUE and FOREIGN KEY constraints.
func (db *DB) validate(t *table, r row, self row) error {
	for i := range t.def.Cols {
		c := &t.def.Cols[i]
		v := r[c.Name]
		if v == nil {
			if c.NotNull {
				return fmt.Errorf("pgmini: null value in column %q of relation %q violates not-null constraint", c.Name, t.def.Name)
			}
			continue
		}
		if len(c.In) > 0 {
			ok := false
			for _, a := range c.In {
				if a == canon(v) {
					ok = true
				}
			}
			if !ok {
				return fmt.Errorf("pgmini: new row for relation %q violates check constraint on %q (value %s not in %v)", t.def.Name, c.Name, canon(v), c.In)
			}
		}
		if c.HasEq && canon(v) != c.Equals {
			return fmt.Errorf("pgmini: new row for relation %q violates check constraint (%s = %s)", t.def.Name, c.Name, c.Equals)
		}
	}
	for _, u := range t.def.Uniques {
		for _, other := range t.rows {
			if sameRow(other, self) {
				continue
			}
			eq := true
			for _, cn := range u {
				if r[cn] == nil || other[cn] == nil || canon(r[cn]) != canon(other[cn]) {
					eq = false
				}
			}
			if eq {
				return fmt.Errorf("pgmini: duplicate key value violates unique constraint on %q (%s)", t.def.Name, strings.Join(u, ", "))
			}
		}
	}
	for _, fk := range t.def.FKs {
		v := r[fk.Col]
		if v == nil {
			continue
		}
		target, err := db.tableOf(fk.Ref)
		if err != nil {
			return err
		}
		pk := ""
		for _, c := range target.def.Cols {
			if c.Primary {
				pk = c.Name
			}
		}
		if pk == "" {
			return fmt.Errorf("pgmini: there is no primary key for referenced table %q", fk.Ref)
		}
		found := false
		for _, tr := range target.rows {
			if canon(tr[pk]) == canon(v) {
				found = true
			}
		}
		if !found {
			return fmt.Errorf("pgmini: insert or update on table %q violates foreign key constraint (%s = %s is not present in table %q)", t.def.Name, fk.Col, canon(v), fk.Ref)
		}
	}
	return nil
}

func sameRow(a, b row) bool {
	if a == nil || b == nil {
		return false
	}
	return fmt.Sprintf("%p", a) == fmt.Sprintf("%p", b)
}

func (db *DB) project(t *table, rs []row, cols []string) (*rows, error) {
	for _, c := range cols {
		if _, err := t.col(c); err != nil {
			return nil, err
		}
	}
	res := &rows{cols: cols, affected: len(rs)}
	if len(cols) == 0 {
		return res, nil
	}
	for _, r := range rs {
		vals := make([]driver.Value, len(cols))
		for i, c := range cols {
			vals[i] = out(r[c])
		}
		res.data = append(res.data, vals)
	}
	return res, nil
}

func (db *DB) buildRow(t *table, cols []string, vals []int, args []driver.Value, base row) (row, error) {
	if len(cols) != len(vals) {
		return nil, fmt.Errorf("pgmini: INSERT / UPDATE has %d target columns but %d expressions", len(cols), len(vals))
	}
	r := row{}
	for k, v := range base {
		r[k] = v
	}
	seen := map[string]bool{}
	for i, cn := range cols {
		c, err := t.col(cn)
		if err != nil {
			return nil, err
		}
		if seen[cn] {
			return nil, fmt.Errorf("pgmini: column %q specified more than once", cn)
		}
		seen[cn] = true
		v, err := c.coerce(args[vals[i]-1])
		if err != nil {
			return nil, err
		}
		r[cn] = v
	}
	if base == nil { // defaults of an INSERT
		for i := range t.def.Cols {
			c := &t.def.Cols[i]
			if seen[c.Name] {
				continue
			}
			switch {
			case c.Type == "serial":
				r[c.Name] = t.nextID
				t.nextID++
			case c.HasDef:
				r[c.Name] = decanon(c.Default)
			default:
				r[c.Name] = nil
			}
		}
	}
	return r, nil
}

func decanon(s string) any {
	if n, err := strconv.ParseInt(s, 10, 64); err == nil {
		return n
	}
	if strings.HasPrefix(s, "'") {
		return strings.Trim(s, "'")
	}
	if s == "true" || s == "false" {
		return s == "true"
	}
	return s
}

func (db *DB) deleteRows(t *table, victims []row, depth int) error {
	if depth > 20 {
		return fmt.Errorf("pgmini: cascade too deep")
	}
	pk := ""
	for _, c := range t.def.Cols {
		if c.Primary {
			pk = c.Name
		}
	}
	isVictim := func(r row) bool {
		for _, v := range victims {
			if sameRow(v, r) {
				return true
			}
		}
		return false
	}
	// referencing rows
	if pk != "" {
		for _, other := range db.sortedTables() {
			for _, fk := range other.def.FKs {
				if fk.Ref != t.def.Name {
					continue
				}
				var hit []row
				for _, r := range other.rows {
					if other == t && isVictim(r) {
						continue
					}
					for _, v := range victims {
						if r[fk.Col] != nil && canon(r[fk.Col]) == canon(v[pk]) {
							hit = append(hit, r)
							break
						}
					}
				}
				if len(hit) == 0 {
					continue
				}
				switch strings.ToUpper(strings.TrimSpace(fk.OnDelete)) {
				case "CASCADE":
					if err := db.deleteRows(other, hit, depth+1); err != nil {
						return err
					}
				case "SET NULL":
					if c, err := other.col(fk.Col); err == nil && c.NotNull {
						return fmt.Errorf("pgmini: null value in column %q of relation %q violates not-null constraint (ON DELETE SET NULL)", fk.Col, other.def.Name)
					}
					for _, r := range hit {
						r[fk.Col] = nil
					}
				default:
					// NO ACTION: checked at the end of the statement (see integrity)
				}
			}
		}
	}
	var kept []row
	for _, r := range t.rows {
		if !isVictim(r) {
			kept = append(kept, r)
		}
	}
	t.rows = kept
	return nil
}

// integrity is the end-of-statement check of every foreign key (NO ACTION semantics).
func (db *DB) integrity() error {
	for _, t := range db.sortedTables() {
		for _, fk := range t.def.FKs {
			target := db.tables[fk.Ref]
			if target == nil {
				return fmt.Errorf("pgmini: relation %q does not exist", fk.Ref)
			}
			pk := ""
			for _, c := range target.def.Cols {
				if c.Primary {
					pk = c.Name
				}
			}
			for _, r := range t.rows {
				if r[fk.Col] == nil {
					continue
				}
				found := false
				for _, tr := range target.rows {
					if canon(tr[pk]) == canon(r[fk.Col]) {
						found = true
						break
					}
				}
				if !found {
					return fmt.Errorf("pgmini: update or delete on table %q violates foreign key constraint on table %q (%s = %s is still referenced)", fk.Ref, t.def.Name, fk.Col, canon(r[fk.Col]))
				}
			}
		}
	}
	return nil
}

type snapshot map[string][]row

func (db *DB) snap() snapshot {
	out := snapshot{}
	for n, t := range db.tables {
		cp := make([]row, len(t.rows))
		for i, r := range t.rows {
			cr := row{}
			for k, v := range r {
				cr[k] = v
			}
			cp[i] = cr
		}
		out[n] = cp
	}
	return out
}

func (db *DB) restore(s snapshot) {
	for n, rs := range s {
		db.tables[n].rows = rs
	}
}

func (db *DB) sortedTables() []*table {
	var names []string
	for n := range db.tables {
		names = append(names, n)
	}
	sort.Strings(names)
	out := make([]*table, len(names))
	for i, n := range names {
		out[i] = db.tables[n]
	}
	return out
}

// run executes one statement atomically: a failing statement leaves the tables unchanged
// (sequences are not rolled back, as in PostgreSQL).
func (db *DB) run(p *parsed, args []driver.Value) (*rows, error) {
	db.Log = append(db.Log, p.kind+" "+p.table)
	if p.kind == "select" {
		return db.run1(p, args)
	}
	s := db.snap()
	res, err := db.run1(p, args)
	if err != nil {
		db.restore(s)
	}
	return res, err
}

func (db *DB) run1(p *parsed, args []driver.Value) (*rows, error) {
	t, err := db.tableOf(p.table)
	if err != nil {
		return nil, err
	}
	if err := checkPlaceholders(p, len(args)); err != nil {
		return nil, err
	}
	match := func() ([]row, error) {
		var out []row
		for _, r := range t.rows {
			ok, err := db.eval(t, r, p.where, args)
			if err != nil {
				return nil, err
			}
			if ok {
				out = append(out, r)
			}
		}
		return out, nil
	}
	// names in WHERE are checked even when the table is empty
	var checkNames func(c *cond) error
	checkNames = func(c *cond) error {
		if c == nil {
			return nil
		}
		if c.col != "" {
			if _, err := t.col(c.col); err != nil {
				return err
			}
		}
		if err := checkNames(c.l); err != nil {
			return err
		}
		return checkNames(c.r)
	}
	if err := checkNames(p.where); err != nil {
		return nil, err
	}
	switch p.kind {
	case "select":
		rs, err := match()
		if err != nil {
			return nil, err
		}
		return db.project(t, rs, p.cols)
	case "insert":
		r, err := db.buildRow(t, p.cols, p.vals, args, nil)
		if err != nil {
			return nil, err
		}
		if err := db.validate(t, r, nil); err != nil {
			return nil, err
		}
		t.rows = append(t.rows, r)
		return db.project(t, []row{r}, p.returning)
	case "update":
		rs, err := match()
		if err != nil {
			return nil, err
		}
		var updated []row
		for _, old := range rs {
			r, err := db.buildRow(t, p.cols, p.vals, args, old)
			if err != nil {
				return nil, err
			}
			if err := db.validate(t, r, old); err != nil {
				return nil, err
			}
			for k, v := range r {
				old[k] = v
			}
			updated = append(updated, old)
		}
		return db.project(t, updated, p.returning)
	case "delete":
		rs, err := match()
		if err != nil {
			return nil, err
		}
		res, err := db.project(t, rs, p.returning)
		if err != nil {
			return nil, err
		}
		if err := db.deleteRows(t, rs, 0); err != nil {
			return nil, err
		}
		if err := db.integrity(); err != nil {
			return nil, err
		}
		return res, nil
	}
	return nil, fmt.Errorf("pgmini: unsupported statement kind %s", p.kind)
}

func (db *DB) flushCopy(p *parsed, data [][]driver.Value) (int64, error) {
	t, err := db.tableOf(p.table)
	if err != nil {
		return 0, err
	}
	vals := make([]int, len(p.cols))
	for i := range vals {
		vals[i] = i + 1
	}
	saved, savedID := append([]row(nil), t.rows...), t.nextID
	for _, args := range data {
		if len(args) != len(p.cols) {
			t.rows, t.nextID = saved, savedID
			return 0, fmt.Errorf("pgmini: COPY expects %d values per row, got %d", len(p.cols), len(args))
		}
		r, err := db.buildRow(t, p.cols, vals, args, nil)
		if err == nil {
			err = db.validate(t, r, nil)
		}
		if err != nil {
			t.rows, t.nextID = saved, savedID
			return 0, err
		}
		t.rows = append(t.rows, r)
	}
	return int64(len(data)), nil
}
