package pgmini

import (
	"database/sql"
	"errors"
	"fmt"
	"strings"
)

const selfSchema = `{"tables":[
 {"name":"as","cols":[{"name":"id","type":"serial","notnull":false,"primary":true,"arrlen":-1},{"name":"v","type":"text","notnull":true,"arrlen":-1},{"name":"k","type":"smallint","notnull":true,"in":["0","1"],"arrlen":-1}],"uniques":[["v","k"]],"fks":[]},
 {"name":"bs","cols":[{"name":"id","type":"serial","primary":true,"arrlen":-1},{"name":"ida","type":"integer","notnull":true,"arrlen":-1},{"name":"opt","type":"integer","arrlen":-1},{"name":"arr","type":"integer[]","arrlen":2},{"name":"g","type":"integer","notnull":true,"hasdef":true,"default":"7","haseq":true,"equals":"7","arrlen":-1}],
  "uniques":[],"fks":[{"col":"ida","ref":"as","ondelete":"CASCADE"},{"col":"opt","ref":"as","ondelete":"SET NULL"}]},
 {"name":"cs","cols":[{"name":"idb","type":"integer","notnull":true,"arrlen":-1},{"name":"ida","type":"integer","arrlen":-1}],"uniques":[],"fks":[{"col":"idb","ref":"bs","ondelete":""},{"col":"ida","ref":"as","ondelete":"CASCADE"}]}
]}`

// SelfTest runs a fixed script against a fresh database and compares every outcome with the
// behaviour PostgreSQL documents; it is run by the C05 check on every run, so that a defect of the
// stand-in cannot be mistaken for a defect of the generated code.
func SelfTest() error {
	if _, err := Create("selftest", []byte(selfSchema)); err != nil {
		return err
	}
	db, err := sql.Open("pgmini", "selftest")
	if err != nil {
		return err
	}
	defer db.Close()
	type step struct {
		q    string
		args []any
		want string // "err:<fragment>" | "rows:<n>" | "val:<first column of first row>"
	}
	steps := []step{
		{`INSERT INTO as (v, k) VALUES ($1, $2) RETURNING id`, []any{"x", 0}, "val:1"},
		{`INSERT INTO as (v, k) VALUES ($1, $2) RETURNING id`, []any{"x", 0}, "err:unique constraint"},
		{`INSERT INTO as (v, k) VALUES ($1, $2) RETURNING id`, []any{"x", 1}, "val:3"}, // the failed insert consumed 2
		{`INSERT INTO as (v, k) VALUES ($1, $2) RETURNING id`, []any{"y", 2}, "err:check constraint"},
		{`INSERT INTO as (v, k) VALUES ($1, $2) RETURNING id`, []any{nil, 1}, "err:not-null"},
		{`INSERT INTO as (v, k) VALUES ($1, $2) RETURNING id`, []any{"y", 40000}, "err:out of range"},
		{`INSERT INTO as (v, k) VALUES ($1, $3) RETURNING id`, []any{"y", 1}, "err:placeholders"},
		{`INSERT INTO as (v, k) VALUES ($1, $2) RETURNING id`, []any{"y"}, "err:placeholders but"},
		{`INSERT INTO as (v, zz) VALUES ($1, $2) RETURNING id`, []any{"y", 1}, "err:column \"zz\""},
		{`INSERT INTO nope (v) VALUES ($1)`, []any{"y"}, "err:relation \"nope\""},
		{`INSERT INTO bs (ida, opt, arr) VALUES ($1, $2, $3) RETURNING g`, []any{1, 3, "{1,2}"}, "val:7"},
		{`INSERT INTO bs (ida, opt, arr) VALUES ($1, $2, $3) RETURNING id`, []any{9, nil, nil}, "err:foreign key constraint"},
		{`INSERT INTO bs (ida, opt, arr) VALUES ($1, $2, $3) RETURNING id`, []any{1, nil, "{1,2,3}"}, "err:check constraint"},
		{`INSERT INTO bs (ida, opt, arr) VALUES ($1, $2, $3) RETURNING id`, []any{3, nil, nil}, "val:3"},
		{`INSERT INTO cs (idb, ida) VALUES ($1, $2)`, []any{1, 3}, "rows:0"},
		{`SELECT id FROM bs WHERE ida = ANY($1)`, []any{"{1,3}"}, "rows:2"},
		{`SELECT id FROM bs WHERE opt = $1`, []any{nil}, "rows:0"},
		{`SELECT Id FROM BS WHERE OPT IS NULL`, nil, "rows:1"},
		{`SELECT idb FROM cs WHERE ((ida IS NULL AND $1 IS NULL) OR ida = $1) AND idb = $2`, []any{3, 1}, "rows:1"},
		{`DELETE FROM bs WHERE id = $1 RETURNING id`, []any{1}, "err:foreign key constraint"}, // cs.idb NO ACTION
		{`SELECT id FROM bs`, nil, "rows:2"},                                                  // the failed delete changed nothing
		{`DELETE FROM as WHERE id = $1 RETURNING id`, []any{3}, "rows:1"},                     // cascades to b3 and c(1,3); sets b1.opt NULL
		{`SELECT id FROM bs`, nil, "rows:1"},
		{`SELECT idb FROM cs`, nil, "rows:0"},
		{`SELECT id FROM bs WHERE opt IS NULL`, nil, "rows:1"},
		{`UPDATE bs SET (ida, opt) = ($1, $2) WHERE id = $3 RETURNING ida`, []any{1, 1, 1}, "val:1"},
		{`UPDATE bs SET (ida, opt) = ($1, $2) WHERE id = $3 RETURNING ida`, []any{5, 1, 1}, "err:foreign key constraint"},
		{`UPDATE bs SET (ida, opt) = ($1, $2) WHERE id = $3 RETURNING ida`, []any{1, 1, 77}, "rows:0"},
		{`UPDATE bs SET opt = $1 WHERE ida = $2`, []any{nil, 1}, "rows:0"},
		{`SELECT id FROM bs WHERE opt IS NULL`, nil, "rows:1"},
		{`UPDATE bs SET ida = $1, opt = $1 WHERE id = $2`, []any{8, 1}, "err:foreign key constraint"},
		{`INSERT INTO as DEFAULT VALUES RETURNING id;`, nil, "err:not-null"},
		{`INSERT INTO as () VALUES () RETURNING id`, nil, "err:syntax"},
	}
	for i, s := range steps {
		rows, err := db.Query(s.q, s.args...)
		got := ""
		if err != nil {
			got = "err:" + err.Error()
		} else {
			n := 0
			first := ""
			for rows.Next() {
				var v any
				cols, _ := rows.Columns()
				dest := make([]any, len(cols))
				for k := range dest {
					dest[k] = new(any)
				}
				dest[0] = &v
				if err := rows.Scan(dest...); err != nil {
					return err
				}
				if n == 0 {
					first = fmt.Sprint(v)
				}
				n++
			}
			if rows.Err() != nil {
				got = "err:" + rows.Err().Error()
			} else if strings.HasPrefix(s.want, "val:") {
				got = "val:" + first
			} else {
				got = fmt.Sprintf("rows:%d", n)
			}
			rows.Close()
		}
		ok := got == s.want
		if strings.HasPrefix(s.want, "err:") {
			ok = strings.HasPrefix(got, "err:") && strings.Contains(got, strings.TrimPrefix(s.want, "err:"))
		}
		if !ok {
			return fmt.Errorf("pgmini self-test step %d (%s): got %s, want %s", i+1, s.q, got, s.want)
		}
	}
	// transactions: rollback restores, COPY is all-or-nothing
	tx, err := db.Begin()
	if err != nil {
		return err
	}
	st, err := tx.Prepare(`COPY "cs" ("idb", "ida") FROM STDIN`)
	if err != nil {
		return err
	}
	if _, err := st.Exec(1, 1); err != nil {
		return err
	}
	if _, err := st.Exec(1, nil); err != nil {
		return err
	}
	if _, err := st.Exec(); err != nil {
		return fmt.Errorf("pgmini self-test: COPY flush: %v", err)
	}
	tx.Rollback()
	var n int
	if err := db.QueryRow(`SELECT idb FROM cs`).Scan(&n); !errors.Is(err, sql.ErrNoRows) {
		return fmt.Errorf("pgmini self-test: rollback did not restore the table (%v)", err)
	}
	return nil
}
