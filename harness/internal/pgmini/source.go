package pgmini

import _ "embed"

// Source is the text of the driver, written into scratch modules (package zpgmini).
//
//go:embed pgmini.go
var Source string
