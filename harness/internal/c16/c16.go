// Package c16 checks property C16 (SQL comment directives) — spec/Directives*.tla, TraceDirectives.tla.
package c16

import (
	"encoding/json"
	"fmt"
	"go/ast"
	"go/parser"
	"go/printer"
	"go/token"
	"math/rand"
	"path/filepath"
	"strconv"
	"strings"
	"time"

	"github.com/benoitkugler/gomacro/analysis"

	"verif/harness/internal/core"
	"verif/harness/internal/gens"
	"verif/harness/internal/proj"
	"verif/harness/internal/synth"
)

type Query struct {
	Name string   `json:"name"`
	SQL  []string `json:"sql"`
}

// Guard is a field tagged gomacro-sql-guard: its value is an SQL literal or a #[Type.Const] placeholder (tokens).
type Guard struct {
	Field  string   `json:"field"`
	Gotype string   `json:"gotype"`
	Value  []string `json:"value"`
}

// guardTemplates: a placeholder of an int enum, of a string enum whose value is spelled like the table struct Order,
// a string literal spelled like it, a plain number.
var guardTemplates = []Guard{
	{"GK", "Kind", []string{"#", "[", "Kind", ".", "KB", "]"}},
	{"GC", "Color", []string{"#", "[", "Color", ".", "Blue", "]"}},
	{"GS", "string", []string{"'Order'"}},
	{"GI", "int", []string{"3"}},
}

type Arg struct {
	Name   string `json:"name"`
	Gotype string `json:"gotype"`
}

type ObsQuery struct {
	Name string   `json:"name"`
	SQL  []string `json:"sql"`
	Args []Arg    `json:"args"`
}

type Case struct {
	Case       int         `json:"case"`
	ItemC      [][]string  `json:"itemC"`
	OrderC     [][]string  `json:"orderC"`
	ItemQ      []Query     `json:"itemQ"`
	ItemG      []Guard     `json:"itemG"` // guard fields of Item
	Style      string      `json:"style"`
	Neighbour  bool        `json:"neighbour"` // a third struct without comments sits between the two
	Outcome    string      `json:"outcome"`
	Statements [][]string  `json:"statements"`
	Queries    []ObsQuery  `json:"queries"`
	Source     string      `json:"source,omitempty"`
	Note       string      `json:"note,omitempty"`
}

// text renders a token sequence as comment text: placeholders are written without inner spaces.
func text(toks []string) string {
	var b strings.Builder
	for i := 0; i < len(toks); i++ {
		if i > 0 {
			b.WriteString(" ")
		}
		switch {
		case toks[i] == "#" && i+5 < len(toks) && toks[i+1] == "[" && toks[i+3] == "." && toks[i+5] == "]":
			b.WriteString("#[" + toks[i+2] + "." + toks[i+4] + "]")
			i += 5
		case toks[i] == "$" && i+2 < len(toks) && toks[i+2] == "$":
			b.WriteString("$" + toks[i+1] + "$")
			i += 2
		default:
			b.WriteString(toks[i])
		}
	}
	return b.String()
}

func render(c *Case) string {
	var b strings.Builder
	fmt.Fprintf(&b, "package d%d\n\ntype Kind int\n\nconst (\n\tKA Kind = iota\n\tKB\n)\n\ntype Color string\n\nconst (\n\tRed  Color = \"red\"\n\tBlue Color = \"Order\"\n)\n\n", c.Case)
	item := "struct {\n\tId int64\n\tA  int\n\tB  string\n\tK  Kind\n\tC  Color\n"
	for _, g := range c.ItemG {
		item += fmt.Sprintf("\t%s %s `gomacro-sql-guard:\"%s\"`\n", g.Field, g.Gotype, text(g.Value))
	}
	item += "}"
	order := "struct {\n\tId int64\n\tA  int\n\tB  string\n}"
	comments := func(cs [][]string, qs []Query, indent string) string {
		var s strings.Builder
		s.WriteString(indent + "// a plain documentation line\n")
		for _, q := range qs {
			s.WriteString(indent + "// gomacro:QUERY " + q.Name + " " + text(q.SQL) + "\n")
		}
		for _, t := range cs {
			s.WriteString(indent + "// gomacro:SQL " + text(t) + "\n")
		}
		return s.String()
	}
	if c.Style == "grouped" {
		// a directive written above the whole group belongs to no struct of the group (not even an undocumented one)
		b.WriteString("// the declarations of this file\n// gomacro:SQL ADD CHECK (N > 0)\ntype (\n")
		b.WriteString(comments(c.ItemC, c.ItemQ, "\t") + "\tItem " + strings.ReplaceAll(item, "\n", "\n\t") + "\n\n")
		if c.Neighbour {
			b.WriteString("\tPlain struct {\n\t\tId int64\n\t\tN  int\n\t}\n\n")
		}
		b.WriteString(comments(c.OrderC, nil, "\t") + "\tOrder " + strings.ReplaceAll(order, "\n", "\n\t") + "\n)\n")
	} else {
		b.WriteString(comments(c.ItemC, c.ItemQ, "") + "type Item " + item + "\n\n")
		if c.Neighbour {
			b.WriteString("type Plain struct {\n\tId int64\n\tN  int\n}\n\n")
		}
		b.WriteString(comments(c.OrderC, nil, "") + "type Order " + order + "\n")
	}
	return b.String()
}

type workIn struct {
	Cases []Case `json:"cases"`
}

func sqlTokens(s string) ([]string, error) {
	toks, err := proj.Lex(s, "--")
	if err != nil {
		return nil, err
	}
	return proj.TokStrings(toks), nil
}

// queriesOf extracts `func Name(db DB, args...) error { _, err := db.Exec("sql", ...) }` from the CRUD output.
func queriesOf(src string, names map[string]bool) ([]ObsQuery, error) {
	fset := token.NewFileSet()
	f, err := parser.ParseFile(fset, "crud.go", src, 0)
	if err != nil {
		return nil, err
	}
	out := []ObsQuery{}
	for _, d := range f.Decls {
		fd, ok := d.(*ast.FuncDecl)
		if !ok || fd.Recv != nil || !names[fd.Name.Name] {
			continue
		}
		q := ObsQuery{Name: fd.Name.Name, Args: []Arg{}, SQL: []string{}}
		first := true
		for _, p := range fd.Type.Params.List {
			var tb strings.Builder
			printer.Fprint(&tb, fset, p.Type)
			for _, n := range p.Names {
				if first { // the DB handle
					first = false
					continue
				}
				q.Args = append(q.Args, Arg{Name: n.Name, Gotype: tb.String()})
			}
		}
		ast.Inspect(fd.Body, func(n ast.Node) bool {
			if call, ok := n.(*ast.CallExpr); ok && len(call.Args) > 0 {
				if lit, ok := call.Args[0].(*ast.BasicLit); ok && lit.Kind == token.STRING && len(q.SQL) == 0 {
					s, _ := strconv.Unquote(lit.Value)
					q.SQL, _ = sqlTokens(s)
				}
			}
			return true
		})
		out = append(out, q)
	}
	return out, nil
}

func Worker(args []string) {
	core.WorkerIO(args, func(in workIn, dir string) workIn {
		mod, err := synth.NewModule(dir)
		if err != nil {
			panic(err)
		}
		var rels []string
		for i := range in.Cases {
			c := &in.Cases[i]
			c.Source = render(c)
			rel := fmt.Sprintf("d%d/models.go", c.Case)
			mod.Write(map[string]string{rel: c.Source})
			rels = append(rels, rel)
		}
		pkgs, root, err := mod.Load(rels)
		for i := range in.Cases {
			c := &in.Cases[i]
			c.Statements, c.Queries = [][]string{}, []ObsQuery{}
			if err != nil {
				c.Note = "load failed: " + err.Error()
				continue
			}
			file := mod.Abs(rels[i])
			var ana *analysis.Analysis
			class, msg := synth.Guard(func() { ana = analysis.NewAnalysisFromFile(pkgs[i], file) })
			if class != synth.OutOK {
				c.Outcome = "analysis " + class + ": " + msg
				continue
			}
			sq := gens.Run("sql", pkgs[i], file, ana, root)
			crud := gens.Run("go/sqlcrud", pkgs[i], file, ana, root)
			if sq.Class != synth.OutOK {
				c.Outcome = "sql " + sq.Class + ": " + sq.Msg
				continue
			}
			if crud.Class != synth.OutOK {
				c.Outcome = "go/sqlcrud " + crud.Class + ": " + crud.Msg
				continue
			}
			c.Outcome = "ok"
			sch, perr := proj.ParseDDL(sq.Text)
			if perr != nil {
				c.Note = "sql projection: " + perr.Error()
				continue
			}
			c.Statements = sch.Statements
			names := map[string]bool{}
			for _, q := range c.ItemQ {
				names[q.Name] = true
			}
			for _, n := range []string{"SetA", "SetTwice", "SetKind"} {
				names[n] = true
			}
			qs, qerr := queriesOf(crud.Text, names)
			if qerr != nil {
				c.Outcome = "go/sqlcrud output does not parse: " + qerr.Error()
				continue
			}
			c.Queries = qs
		}
		return in
	})
}

func Run(c *core.Ctx, replay string) (*core.Result, error) {
	res := &core.Result{Level: "model_checking"}
	res.Assumptions = []string{
		"comparison is on token sequences produced by one SQL lexer for both sides (comments dropped, string literals keep their quote character)",
		"the name following REFERENCES is a Go struct name (the property: it is replaced by the SQL table name)",
	}
	var cases []Case
	nEnum := 0
	if replay != "" {
		var cs Case
		if err := core.LoadReplay(replay, &cs); err != nil {
			return nil, err
		}
		cs.Case, cs.Outcome, cs.Statements, cs.Queries = 1, "", nil, nil
		if cs.ItemG == nil {
			cs.ItemG = []Guard{}
		}
		cases = []Case{cs}
	} else {
		cfg := "DirectivesModel_quick.cfg"
		if c.Thorough() {
			cfg = "DirectivesModel_thorough.cfg"
		}
		ef := filepath.Join(c.Scratch, "export.ndjson")
		t, err := c.RunTLC(core.TLCOpts{Module: "DirectivesModel", Config: cfg, Workers: 1, HeapGB: 8, Env: map[string]string{"VERIF_EXPORT": ef}})
		if err != nil {
			return nil, err
		}
		if t.ErrorKind != "" {
			return nil, core.Inconcl("design-level run of DirectivesModel ended with %s %s\n%s", t.ErrorKind, t.InvViolated, core.Tail(t.Output, 25))
		}
		res.AddTLC(t)
		recs, err := core.ReadNDJSON(ef)
		if err != nil {
			return nil, core.Inconcl("export: %v", err)
		}
		nEnum = len(recs)
		rng := rand.New(rand.NewSource(c.Seed))
		limit := 500
		if c.Thorough() {
			limit = 6000
		}
		perm := rng.Perm(len(recs))
		for k := 0; k < len(recs) && k < limit; k++ {
			b, _ := json.Marshal(recs[perm[k]])
			var cs Case
			json.Unmarshal(b, &cs)
			cs.Case = k + 1
			cs.Neighbour = rng.Intn(2) == 0
			// guard fields: case k carries the k-th subset of the templates (every subset within 16 cases)
			cs.ItemG = []Guard{}
			for gi, g := range guardTemplates {
				if k>>gi&1 == 1 {
					cs.ItemG = append(cs.ItemG, g)
				}
			}
			cases = append(cases, cs)
		}
	}
	var out workIn
	const chunk = 250
	for i := 0; i < len(cases); i += chunk {
		j := i + chunk
		if j > len(cases) {
			j = len(cases)
		}
		var part workIn
		log, err := c.RunSelfWorker("c16", workIn{Cases: cases[i:j]}, &part, 10*time.Minute)
		if err != nil {
			return nil, core.Inconcl("c16 worker: %v\n%s", err, core.Tail(log, 20))
		}
		out.Cases = append(out.Cases, part.Cases...)
	}
	var recs []any
	byCase := map[int]Case{}
	for i, cs := range out.Cases {
		if cs.Note != "" {
			return nil, core.Inconcl("case %d: %s\n%s", cs.Case, cs.Note, cs.Source)
		}
		byCase[cs.Case] = cs
		slim := cs
		slim.Source = ""
		recs = append(recs, slim)
		if i%97 == 4 {
			res.Sample(map[string]any{"source": cs.Source, "statements": cs.Statements, "queries": cs.Queries})
		}
	}
	bad, err := c.JudgeTrace(res, "TraceDirectives", recs)
	if err != nil {
		return nil, err
	}
	for _, v := range bad {
		cs := byCase[core.Int(v, "case")]
		why := core.Str(v, "why")
		key := why
		if strings.HasPrefix(why, "generation did not complete") {
			key = "generation did not complete: " + firstWords(cs.Outcome, 8)
		} else if cs.Style == "grouped" {
			key += " [grouped declaration]"
		}
		st, _ := json.Marshal(cs.Statements)
		res.Violations = append(res.Violations, core.Violation{Key: key, What: fmt.Sprintf("%s\nobserved statements %s\nobserved queries %v\n%s", why, st, cs.Queries, cs.Source), Replay: cs})
	}
	res.Evaluations = len(cases)
	res.TracesVsImpl = len(cases)
	res.Nontrivial = len(cases)
	res.Rule = fmt.Sprintf("model files enumerated by TLC from DirectivesModel.tla (%d cases: <=MaxComments of 10 constraint templates on Item, <=1 on Order, <=1 of 3 query templates, single vs grouped declaration); templates cover ADD and free-standing statements, UNIQUE / PRIMARY KEY style column lists, select keys, int and string enum placeholders, REFERENCES, words containing table names as prefix / suffix / lower case / inside a string literal, repeated and distinct query placeholders; quick samples 500 of them; every case distinct", nEnum)
	return res, nil
}

func firstWords(s string, n int) string {
	f := strings.Fields(s)
	if len(f) > n {
		f = f[:n]
	}
	return strings.Join(f, " ")
}
