// Package absprog defines abstract Go programs (the inputs of gomacro at the level the
// specifications talk about), a seeded random generator for them, and their rendering to Go.
package absprog

import (
	"fmt"
	"math/rand"
	"sort"
	"strings"
)

// TE is a type expression.
type TE struct {
	K    string `json:"k"`              // basic | ref | slice | array | map | ptr | chan | func | anonstruct | emptyiface | complex
	Name string `json:"name,omitempty"` // basic: predeclared name; ref: local type name
	Pkg  string `json:"pkg,omitempty"`  // ref: "" = root package, "sub" = sub package, otherwise a standard library path
	Len  int    `json:"len,omitempty"`
	Elem *TE    `json:"elem,omitempty"`
	Key  *TE    `json:"key,omitempty"`
	Args []TE   `json:"args,omitempty"` // ref: type arguments
}

func Basic(n string) TE        { return TE{K: "basic", Name: n} }
func Ref(pkg, n string) TE     { return TE{K: "ref", Pkg: pkg, Name: n} }
func Slice(e TE) TE            { return TE{K: "slice", Elem: &e} }
func Array(n int, e TE) TE     { return TE{K: "array", Len: n, Elem: &e} }
func Map(k, e TE) TE           { return TE{K: "map", Key: &k, Elem: &e} }
func Ptr(e TE) TE              { return TE{K: "ptr", Elem: &e} }
func Time() TE                 { return Ref("time", "Time") }
func Inst(n string, a ...TE) TE { return TE{K: "ref", Name: n, Args: a} }

type Field struct {
	Name     string `json:"name"`
	Type     TE     `json:"type"`
	Tag      string `json:"tag,omitempty"` // raw struct tag content (without back quotes)
	Embedded bool   `json:"embedded,omitempty"`
}

type Const struct {
	Name    string `json:"name"`
	Val     string `json:"val"` // Go expression text
	Comment string `json:"comment,omitempty"`
}

type Method struct {
	Name string `json:"name"`
	Ptr  bool   `json:"ptr,omitempty"`
}

// Decl is one top-level declaration group.
type Decl struct {
	K        string   `json:"k"`             // struct | named | alias | iface | generic
	Name     string   `json:"name"`
	Pkg      string   `json:"pkg,omitempty"` // "" root, "sub"
	File     string   `json:"file,omitempty"` // "" = the analysed source file, "other" = second file of the package
	Fields   []Field  `json:"fields,omitempty"`
	Under    *TE      `json:"under,omitempty"`
	TParam   string   `json:"tparam,omitempty"` // generic: constraint text, e.g. "~int64"
	IMethods []string `json:"imethods,omitempty"` // iface: method names
	Methods  []Method `json:"methods,omitempty"`  // marker methods declared on the type
	Consts   []Const  `json:"consts,omitempty"`   // typed constants of a named basic type (an enum)
	Iota     bool     `json:"iota,omitempty"`     // render constants as an iota block
	Comments []string `json:"comments,omitempty"` // comment lines placed right above the declaration
	Extra    string   `json:"extra,omitempty"`    // extra Go text rendered after the declaration (conventions: NewDateFrom, ...)
}

type Prog struct {
	ID    int    `json:"id"`
	Decls []Decl `json:"decls"`
}

// PkgName / PkgPath of the packages of program id.
func PkgName(id int) string { return fmt.Sprintf("p%d", id) }
func PkgPath(mod string, id int, pkg string) string {
	p := fmt.Sprintf("%s/p%d", mod, id)
	if pkg == "sub" {
		p += "/sub"
	}
	if pkg == "twin" { // a second package that is also called `sub`
		p += "/twin/sub"
	}
	if pkg == "deep" { // a third package, imported by the root AND by sub (diamond)
		p += "/deep"
	}
	return p
}

// ---------------------------------------------------------------- rendering

type renderer struct {
	prog    *Prog
	mod     string
	pkg     string // package being rendered: "" or "sub"
	imports map[string]bool
}

func (r *renderer) te(t TE) string {
	switch t.K {
	case "basic":
		return t.Name
	case "ref":
		name := t.Name
		switch {
		case t.Pkg == r.pkg:
		case t.Pkg == "sub":
			r.imports[PkgPath(r.mod, r.prog.ID, "sub")] = true
			name = "sub." + name
		case t.Pkg == "twin":
			r.imports["twinsub "+PkgPath(r.mod, r.prog.ID, "twin")] = true
			name = "twinsub." + name
		case t.Pkg == "deep":
			r.imports[PkgPath(r.mod, r.prog.ID, "deep")] = true
			name = "deep." + name
		case t.Pkg == "":
			// root type seen from sub: not renderable (import cycle); generator never does this
			name = "INVALID_ROOT_REF_" + name
		default:
			r.imports[t.Pkg] = true
			name = t.Pkg[strings.LastIndex(t.Pkg, "/")+1:] + "." + name
		}
		if len(t.Args) > 0 {
			as := make([]string, len(t.Args))
			for i, a := range t.Args {
				as[i] = r.te(a)
			}
			name += "[" + strings.Join(as, ", ") + "]"
		}
		return name
	case "slice":
		return "[]" + r.te(*t.Elem)
	case "array":
		return fmt.Sprintf("[%d]%s", t.Len, r.te(*t.Elem))
	case "map":
		return fmt.Sprintf("map[%s]%s", r.te(*t.Key), r.te(*t.Elem))
	case "ptr":
		return "*" + r.te(*t.Elem)
	case "chan":
		return "chan " + r.te(*t.Elem)
	case "func":
		return "func(int) string"
	case "anonstruct":
		return "struct{ X int }"
	case "emptyiface":
		return "interface{}"
	case "complex":
		return "complex128"
	}
	panic("unknown TE kind " + t.K)
}

func (r *renderer) fields(fs []Field) string {
	var b strings.Builder
	for _, f := range fs {
		tag := ""
		if f.Tag != "" {
			tag = " `" + f.Tag + "`"
		}
		if f.Embedded {
			fmt.Fprintf(&b, "\t%s%s\n", r.te(f.Type), tag)
		} else {
			fmt.Fprintf(&b, "\t%s %s%s\n", f.Name, r.te(f.Type), tag)
		}
	}
	return b.String()
}

func (r *renderer) decl(d Decl) string {
	var b strings.Builder
	for _, c := range d.Comments {
		fmt.Fprintf(&b, "// %s\n", c)
	}
	switch d.K {
	case "struct":
		fmt.Fprintf(&b, "type %s struct {\n%s}\n", d.Name, r.fields(d.Fields))
	case "generic":
		if strings.Contains(d.TParam, ",") { // the whole parameter list is given: "K ~int64, V any"
			fmt.Fprintf(&b, "type %s[%s] struct {\n%s}\n", d.Name, d.TParam, r.fields(d.Fields))
		} else {
			fmt.Fprintf(&b, "type %s[T %s] struct {\n%s}\n", d.Name, d.TParam, r.fields(d.Fields))
		}
	case "named":
		fmt.Fprintf(&b, "type %s %s\n", d.Name, r.te(*d.Under))
	case "alias":
		fmt.Fprintf(&b, "type %s = %s\n", d.Name, r.te(*d.Under))
	case "iface":
		ms := make([]string, len(d.IMethods))
		for i, m := range d.IMethods {
			ms[i] = m + "()"
		}
		fmt.Fprintf(&b, "type %s interface{ %s }\n", d.Name, strings.Join(ms, "; "))
	default:
		panic("unknown decl kind " + d.K)
	}
	for _, m := range d.Methods {
		recv := d.Name
		if d.K == "generic" {
			recv += "[T]"
		}
		if m.Ptr {
			recv = "*" + recv
		}
		fmt.Fprintf(&b, "func (%s) %s() {}\n", recv, m.Name)
	}
	if len(d.Consts) > 0 {
		b.WriteString("const (\n")
		for i, c := range d.Consts {
			cm := ""
			if c.Comment != "" {
				cm = " // " + c.Comment
			}
			switch {
			case d.Iota && i == 0:
				fmt.Fprintf(&b, "\t%s %s = iota%s\n", c.Name, d.Name, cm)
			case d.Iota:
				fmt.Fprintf(&b, "\t%s%s\n", c.Name, cm)
			default:
				fmt.Fprintf(&b, "\t%s %s = %s%s\n", c.Name, d.Name, c.Val, cm)
			}
		}
		b.WriteString(")\n")
	}
	if d.Extra != "" {
		b.WriteString(d.Extra + "\n")
	}
	b.WriteString("\n")
	return b.String()
}

// Render returns the files of the program (paths relative to the module root): p<ID>/defs.go is the
// analysed source file, p<ID>/other.go a second file of the root package, p<ID>/sub/sub.go the sub package.
func Render(p *Prog, mod string) map[string]string {
	out := map[string]string{}
	type unit struct{ pkg, file, path, pkgName string }
	units := []unit{
		{"", "", fmt.Sprintf("p%d/defs.go", p.ID), PkgName(p.ID)},
		{"", "other", fmt.Sprintf("p%d/other.go", p.ID), PkgName(p.ID)},
		{"", "extra", fmt.Sprintf("p%d/extra.go", p.ID), PkgName(p.ID)},
		{"sub", "", fmt.Sprintf("p%d/sub/sub.go", p.ID), "sub"},
		{"twin", "", fmt.Sprintf("p%d/twin/sub/sub.go", p.ID), "sub"},
		{"deep", "", fmt.Sprintf("p%d/deep/deep.go", p.ID), "deep"},
	}
	for _, u := range units {
		r := &renderer{prog: p, mod: mod, pkg: u.pkg, imports: map[string]bool{}}
		var body strings.Builder
		n := 0
		for _, d := range p.Decls {
			if d.Pkg == u.pkg && (d.File == u.file || (u.pkg != "")) {
				body.WriteString(r.decl(d))
				if strings.Contains(d.Extra, "time.") {
					r.imports["time"] = true
				}
				if strings.Contains(d.Extra, "json.") {
					r.imports["encoding/json"] = true
				}
				n++
			}
		}
		if n == 0 && !(u.pkg == "" && u.file == "") {
			if u.pkg == "sub" {
				out[u.path] = "package sub\n"
			}
			continue
		}
		var head strings.Builder
		fmt.Fprintf(&head, "package %s\n\n", u.pkgName)
		imps := make([]string, 0, len(r.imports))
		for i := range r.imports {
			imps = append(imps, i)
		}
		sort.Strings(imps)
		if len(imps) > 0 {
			head.WriteString("import (\n")
			for _, i := range imps {
				if alias, path, ok := strings.Cut(i, " "); ok {
					fmt.Fprintf(&head, "\t%s %q\n", alias, path)
				} else {
					fmt.Fprintf(&head, "\t%q\n", i)
				}
			}
			head.WriteString(")\n\n")
		}
		out[u.path] = head.String() + body.String()
	}
	return out
}

// ---------------------------------------------------------------- random generation

// Opts selects the declaration forms the generator may use.
type Opts struct {
	Pointers    bool // pointer fields (TypeScript, Dart and SQL refuse them)
	Unions      bool
	Generics    bool
	StdLib      bool // time.Duration, sql.NullInt64, ...
	SubPkg      bool
	Embedded    bool
	Recursive   bool // self / mutually recursive types through slices and maps
	Aliases     bool
	ByteSlices  bool // []byte fields (known finding C03/C04/C06: typed as number arrays)
	FixedArrays bool
	MapKeys     bool // maps with int / enum / named keys, not only string
	Tags        bool // json tags with names
	NStructs    int
	MaxFields   int
	AnonUnionContainers bool // []Union / map[string]Union fields (gounions refuses them)
	EnumUnexported bool // enums with unexported members
	UnexportedMembers bool // union members whose Go name is unexported
	NoMemberFirst     bool // no struct using union members before their unions
	Deep              bool // a third package used by the root and by sub (a diamond of imports)
	MixedArrays       bool // [3][]int next to [][3]int (C04 only)
	CaseTwins         bool // two unions whose names differ only by letter case (C07 only: TypeScript / gounions names may clash)
	DashTags bool // some fields tagged json:"-"
	NoTwinPkg bool // no second imported package named like the first
	TagOptions bool // json tag options omitempty / string (C02 only: the generated types cannot express them)
	NoNamedRec bool // no `type Tree []Tree` (the SQL JSON validators refuse recursive named containers)
	DataIgnore bool // some fields tagged gomacro-data:"ignore"
	DigitKeys     bool // JSON keys starting with a digit in the DashKey witness (C03 only: the Dart generator derives field identifiers from the keys)
	OmitEmpty     bool // a struct whose map / slice fields are tagged omitempty: Go leaves the key out when they are empty (C04 only)
	OddEnumValues bool // a string enum whose values need escaping (backslash, double and single quote, empty)
}

func Full() Opts {
	return Opts{Pointers: false, Unions: true, Generics: true, StdLib: true, SubPkg: true, Embedded: true, Recursive: true,
		Aliases: true, FixedArrays: true, MapKeys: true, Tags: true, NStructs: 4, MaxFields: 5, EnumUnexported: true, UnexportedMembers: true, Deep: true}
}

type gen struct {
	rng   *rand.Rand
	o     Opts
	p     *Prog
	leafs []TE // types usable as field types (acyclic part)
	rootNamed []string
}

func (g *gen) pick(ts []TE) TE { return ts[g.rng.Intn(len(ts))] }

// Random builds a supported program: every form is legal input for the analysis.
func Random(id int, rng *rand.Rand, o Opts) *Prog {
	g := &gen{rng: rng, o: o, p: &Prog{ID: id}}
	add := func(d Decl) { g.p.Decls = append(g.p.Decls, d) }
	basics := []TE{Basic("int"), Basic("string"), Basic("bool"), Basic("float64"), Basic("int64"), Basic("uint8"), Basic("int32"), Basic("int16")}
	g.leafs = append(g.leafs, basics...)
	g.leafs = append(g.leafs, Time())

	// sub package first (root may refer to it)
	if o.SubPkg {
		u := Basic("int")
		add(Decl{K: "named", Name: "Level", Pkg: "sub", Under: &u, Iota: true, Consts: []Const{{Name: "Low"}, {Name: "Mid", Comment: "middle"}, {Name: "High"}}})
		s := Basic("string")
		add(Decl{K: "named", Name: "Code", Pkg: "sub", Under: &s})
		add(Decl{K: "struct", Name: "Point", Pkg: "sub", Fields: []Field{{Name: "X", Type: Basic("int")}, {Name: "Y", Type: Basic("int"), Tag: `json:"y"`}}})
		sl := Slice(Basic("string"))
		add(Decl{K: "named", Name: "Names", Pkg: "sub", Under: &sl})
		g.leafs = append(g.leafs, Ref("sub", "Level"), Ref("sub", "Code"), Ref("sub", "Point"), Ref("sub", "Names"))
	}
	if o.SubPkg && o.Deep {
		// sub.Customer holds a deep.Addr, and the root struct Order uses sub.Customer BEFORE deep.Addr:
		// deep.Addr is first met while generating for sub, then referenced from the root
		add(Decl{K: "struct", Name: "Addr", Pkg: "deep", Fields: []Field{{Name: "City", Type: Basic("string")}, {Name: "Zip", Type: Basic("int")}}})
		add(Decl{K: "struct", Name: "Customer", Pkg: "sub", Fields: []Field{{Name: "Name", Type: Basic("string")}, {Name: "Home", Type: Ref("deep", "Addr")}}})
		add(Decl{K: "struct", Name: "Order", Fields: []Field{{Name: "Buyer", Type: Ref("sub", "Customer")}, {Name: "Delivery", Type: Ref("deep", "Addr")}, {Name: "N", Type: Basic("int")}}})
		g.leafs = append(g.leafs, Ref("deep", "Addr"))
	}
	if o.SubPkg && !o.NoTwinPkg {
		// a second imported package with the same package *name* (enums must be collected from both)
		tm := Basic("int")
		add(Decl{K: "named", Name: "Mode", Pkg: "twin", Under: &tm, Iota: true, Consts: []Const{{Name: "Off"}, {Name: "On", Comment: "enabled"}, {Name: "Auto"}}})
		g.leafs = append(g.leafs, Ref("twin", "Mode"))
	}
	if o.StdLib {
		g.leafs = append(g.leafs, Ref("time", "Duration"), Ref("database/sql", "NullInt64"), Ref("database/sql", "NullString"))
	}
	// named basics and ids
	i64 := Basic("int64")
	add(Decl{K: "named", Name: "IdItem", Under: &i64})
	st := Basic("string")
	add(Decl{K: "named", Name: "Label", Under: &st})
	g.leafs = append(g.leafs, Ref("", "IdItem"), Ref("", "Label"))
	// enums
	it := Basic([]string{"int", "uint8", "int16"}[rng.Intn(3)])
	kindIsByte := it.Name == "uint8" // []Kind is then a byte slice for encoding/json (base64 string)
	cs := []Const{{Name: "KA", Comment: "first"}, {Name: "KB"}, {Name: "KC", Comment: "third \"quoted\""}}
	if o.EnumUnexported && rng.Intn(2) == 0 {
		pos := rng.Intn(4)
		cs = append(cs[:pos], append([]Const{{Name: "kHidden"}}, cs[pos:]...)...)
	}
	kindExtra := ""
	if o.EnumUnexported && rng.Intn(2) == 0 {
		// an unexported sentinel far from the iota range: still a member, still a value Go may emit
		kindExtra = "const kindUnset Kind = 100"
	}
	add(Decl{K: "named", Name: "Kind", Under: &it, Iota: true, Consts: cs, Extra: kindExtra})
	sv := Basic("string")
	// (Azure shares the value of Blue: two exported constants, one wire value)
	add(Decl{K: "named", Name: "Color", Under: &sv, Consts: []Const{{Name: "Red", Val: `"red"`}, {Name: "Blue", Val: `"blue"`, Comment: "the blue"}, {Name: "Azure", Val: `"blue"`}, {Name: "green", Val: `"green"`}}})
	if o.OddEnumValues {
		add(Decl{K: "named", Name: "Sep", Under: &sv, Consts: []Const{{Name: "SepPlain", Val: `"a"`}, {Name: "SepNone", Val: `""`}, {Name: "SepBack", Val: `"C:\\temp\\new"`},
			{Name: "SepQuote", Val: `"say \"hi\""`}, {Name: "SepTick", Val: `"it's"`}}})
		add(Decl{K: "struct", Name: "SepHolder", Fields: []Field{{Name: "One", Type: Ref("", "Sep")}, {Name: "Many", Type: Slice(Ref("", "Sep"))}}})
	}
	iv := Basic("int")
	scs := []Const{{Name: "ScoreLow", Val: "-1"}, {Name: "ScoreHigh", Val: "10"}, {Name: "ScoreTop", Val: "10"}, {Name: "ScoreMid", Val: "5"}}
	if o.EnumUnexported && rng.Intn(2) == 0 {
		// an unexported member spelled with a leading underscore (the zero value of the type)
		scs = append([]Const{{Name: "_ScoreNone", Val: "0"}}, scs...)
	}
	add(Decl{K: "named", Name: "Score", Under: &iv, Consts: scs})
	g.leafs = append(g.leafs, Ref("", "Kind"), Ref("", "Color"), Ref("", "Score"))
	if o.EnumUnexported {
		// exported constants 0..2 (iota-like) plus an unexported sentinel far away: still a member
		ph := Basic("int")
		add(Decl{K: "named", Name: "Phase", Under: &ph, Iota: true, Consts: []Const{{Name: "P0"}, {Name: "P1"}, {Name: "P2"}}, Extra: "const phaseUnset Phase = 100"})
		// an unexported alias of a non-maximal value: in member order it stands BEFORE exported members
		add(Decl{K: "named", Name: "Tier", Under: &ph, Iota: true, Consts: []Const{{Name: "TierA"}, {Name: "TierB"}, {Name: "TierC"}}, Extra: "const tierDefault = TierA"})
		add(Decl{K: "struct", Name: "EnumsHolder", Fields: []Field{{Name: "P", Type: Ref("", "Phase")}, {Name: "Ps", Type: Slice(Ref("", "Phase"))}, {Name: "ByName", Type: Map(Basic("string"), Ref("", "Phase"))}, {Name: "T", Type: Ref("", "Tier")}}})
		g.leafs = append(g.leafs, Ref("", "Phase"))
	}
	// dates
	tt := Time()
	add(Decl{K: "named", Name: "MyDate", Under: &tt, Extra: "func NewDateFrom(t time.Time) MyDate { return MyDate(t) }\nfunc (d MyDate) Time() time.Time { return time.Time(d) }\nfunc (d MyDate) MarshalJSON() ([]byte, error) { return time.Time(d).MarshalJSON() }\nfunc (d *MyDate) UnmarshalJSON(b []byte) error { return (*time.Time)(d).UnmarshalJSON(b) }"})
	add(Decl{K: "named", Name: "Stamp", Under: &tt, Extra: "func (d Stamp) MarshalJSON() ([]byte, error) { return time.Time(d).MarshalJSON() }\nfunc (d *Stamp) UnmarshalJSON(b []byte) error { return (*time.Time)(d).UnmarshalJSON(b) }"})
	g.leafs = append(g.leafs, Ref("", "MyDate"), Ref("", "Stamp"))
	// named containers
	ls := Slice(Basic("int"))
	add(Decl{K: "named", Name: "IntList", Under: &ls})
	g.leafs = append(g.leafs, Ref("", "IntList"))
	if o.FixedArrays {
		ar := Array(3, Basic("int32"))
		add(Decl{K: "named", Name: "Triple", Under: &ar})
		g.leafs = append(g.leafs, Ref("", "Triple"), Array(2, Basic("bool")))
	}
	mp := Map(Basic("string"), Basic("bool"))
	add(Decl{K: "named", Name: "Flags", Under: &mp})
	g.leafs = append(g.leafs, Ref("", "Flags"))
	// generic
	if o.Generics {
		add(Decl{K: "generic", Name: "Opt", File: "other", TParam: "~int64", Fields: []Field{{Name: "Valid", Type: Basic("bool")}, {Name: "Id", Type: TE{K: "ref", Pkg: "", Name: "T"}}}})
		g.leafs = append(g.leafs, Inst("Opt", Ref("", "IdItem")))
		// a phantom type parameter: two instantiations with identical underlying types
		add(Decl{K: "generic", Name: "Tagged", File: "other", TParam: "any", Fields: []Field{{Name: "ID", Type: Basic("int64")}}})
		g.leafs = append(g.leafs, Inst("Tagged", Ref("", "IdItem")), Inst("Tagged", Ref("", "Label")))
		// two type parameters, two instantiations sharing the first argument
		add(Decl{K: "generic", Name: "Keyed", File: "other", TParam: "K ~int64, V any", Fields: []Field{{Name: "Key", Type: TE{K: "ref", Pkg: "", Name: "K"}}, {Name: "Val", Type: TE{K: "ref", Pkg: "", Name: "V"}}}})
		add(Decl{K: "struct", Name: "UsesKeyed", Fields: []Field{{Name: "S", Type: Inst("Keyed", Ref("", "IdItem"), Basic("string"))}, {Name: "B", Type: Inst("Keyed", Ref("", "IdItem"), Basic("bool"))}}})
		add(Decl{K: "struct", Name: "UsesTagged", Fields: []Field{{Name: "Owner", Type: Inst("Tagged", Ref("", "IdItem"))}, {Name: "Target", Type: Inst("Tagged", Ref("", "Label"))}, {Name: "Others", Type: Slice(Inst("Tagged", Ref("", "Label")))}}})
	}
	// unions
	unionLeafs := []TE{}
	if o.Unions {
		add(Decl{K: "iface", Name: "Shape", IMethods: []string{"isShape"}})
		add(Decl{K: "struct", Name: "Circle", Fields: []Field{{Name: "R", Type: Basic("float64")}}, Methods: []Method{{Name: "isShape"}}})
		rectMethods := []Method{{Name: "isShape"}, {Name: "isThing"}}
		if o.CaseTwins {
			// a third union, declared in ANOTHER file of the package: the unions a struct implements come from two files
			add(Decl{K: "iface", Name: "Figure", File: "other", IMethods: []string{"isFigure"}})
			add(Decl{K: "struct", Name: "UsesFigure", Fields: []Field{{Name: "F", Type: Ref("", "Figure")}}}) // (reached from the analysed file)
			rectMethods = append(rectMethods, Method{Name: "isFigure"})
		}
		add(Decl{K: "struct", Name: "Rect", Fields: []Field{{Name: "W", Type: Basic("int")}, {Name: "H", Type: Basic("int"), Tag: `json:"h"`}}, Methods: rectMethods})
		nb := Basic("int")
		add(Decl{K: "named", Name: "Dot", Under: &nb, Methods: []Method{{Name: "isShape"}}})
		if o.UnexportedMembers {
			add(Decl{K: "struct", Name: "square", Fields: []Field{{Name: "Side", Type: Basic("int")}}, Methods: []Method{{Name: "isShape"}}})
			ni := Slice(Basic("int"))
			add(Decl{K: "named", Name: "sides", Under: &ni, Methods: []Method{{Name: "isThing"}}})
		}
		add(Decl{K: "iface", Name: "Thing", IMethods: []string{"isThing"}})
		ns := Slice(Basic("string"))
		add(Decl{K: "named", Name: "Words", Under: &ns, Methods: []Method{{Name: "isThing"}}})
		sh := Slice(Ref("", "Shape"))
		add(Decl{K: "named", Name: "Shapes", Under: &sh})
		mt := Map(Basic("string"), Ref("", "Thing"))
		add(Decl{K: "named", Name: "Things", Under: &mt})
		unionLeafs = []TE{Ref("", "Shape"), Ref("", "Thing"), Ref("", "Shapes"), Ref("", "Things")}
		g.leafs = append(g.leafs, Ref("", "Circle"), Ref("", "Rect"))
		// a named slice of unions declared in the OTHER file of the package, only reachable through a field that
		// comes after a union field
		ly := Slice(Ref("", "Shape"))
		add(Decl{K: "named", Name: "Layers", File: "other", Under: &ly})
		// a member of the union declared in the other file: analysed from that file alone it implements nothing
		add(Decl{K: "struct", Name: "Oval", File: "other", Fields: []Field{{Name: "A", Type: Basic("int")}, {Name: "B", Type: Basic("int")}}, Methods: []Method{{Name: "isShape"}}})
		// (a third file of the package, analysable on its own: nothing there reaches Thing)
		add(Decl{K: "struct", Name: "Token", File: "extra", Fields: []Field{{Name: "Text", Type: Basic("string")}}, Methods: []Method{{Name: "isThing"}}})
		add(Decl{K: "struct", Name: "AfterUnion", Fields: []Field{{Name: "First", Type: Ref("", "Shape")}, {Name: "Then", Type: Ref("", "Layers")}}})
		if o.TagOptions {
			// a member without any field the targets see, which still has a JSON encoding of its own
			add(Decl{K: "struct", Name: "Legacy", Fields: []Field{{Name: "Code", Type: Basic("string"), Tag: "gomacro:\"ignore\""}}, Methods: []Method{{Name: "isShape"}}})
			// a struct with a union field (so that gounions wraps it) whose siblings carry json tag options
			add(Decl{K: "struct", Name: "WithOpts", Fields: []Field{{Name: "Sh", Type: Ref("", "Shape")},
				{Name: "Count", Type: Basic("int"), Tag: `json:"count,string"`}, {Name: "Tags", Type: Slice(Basic("string")), Tag: `json:"tags,omitempty"`},
				{Name: "Note", Type: Basic("string"), Tag: `json:",omitempty"`}, {Name: "Opt", Type: Ref("", "Thing"), Tag: `json:"opt,omitempty"`}}})
		}
		if o.CaseTwins {
			add(Decl{K: "iface", Name: "HTTPEvent", IMethods: []string{"isHTTPEvent"}})
			add(Decl{K: "iface", Name: "HttpEvent", IMethods: []string{"isHttpEvent"}})
			add(Decl{K: "struct", Name: "Request", Fields: []Field{{Name: "URL", Type: Basic("string")}}, Methods: []Method{{Name: "isHTTPEvent"}, {Name: "isHttpEvent"}}})
			add(Decl{K: "struct", Name: "Reply", Fields: []Field{{Name: "Code", Type: Basic("int")}}, Methods: []Method{{Name: "isHTTPEvent"}, {Name: "isHttpEvent"}}})
			add(Decl{K: "struct", Name: "Exchange", Fields: []Field{{Name: "A", Type: Ref("", "HTTPEvent")}, {Name: "B", Type: Ref("", "HttpEvent")}}})
		}
		if !o.NoMemberFirst {
			// members used directly BEFORE the unions they belong to, inside one value
			add(Decl{K: "struct", Name: "MemberFirst", Fields: []Field{{Name: "First", Type: Ref("", "Circle")}, {Name: "Both", Type: Ref("", "Rect")}, {Name: "Then", Type: Ref("", "Shape")}, {Name: "Last", Type: Ref("", "Thing")}}})
		}
	}
	if o.OmitEmpty {
		add(Decl{K: "struct", Name: "OmitHolder", Fields: []Field{{Name: "Name", Type: Basic("string"), Tag: `json:"name"`},
			{Name: "Labels", Type: Map(Basic("string"), Basic("int")), Tag: `json:"labels,omitempty"`}, {Name: "Notes", Type: Slice(Basic("string")), Tag: `json:"notes,omitempty"`},
			{Name: "Count", Type: Basic("int"), Tag: `json:",omitempty"`}}})
	}
	if o.DashTags {
		// `json:"-,"` names the key "-" (only the exact tag "-" hides a field)
		dk := []Field{{Name: "Lo", Type: Basic("int"), Tag: `json:"-,"`}, {Name: "Hidden", Type: Basic("string"), Tag: `json:"-"`}, {Name: "Hi", Type: Basic("int")}}
		if o.DigitKeys {
			// keys that are not identifiers: a leading digit (not a number either), the spelling of a number
			dk = append(dk, Field{Name: "First", Type: Basic("string"), Tag: `json:"1st"`}, Field{Name: "Exp", Type: Basic("int"), Tag: `json:"1e3"`})
		}
		add(Decl{K: "struct", Name: "DashKey", Fields: dk})
	}
	if o.Embedded {
		// embedded NON-struct types are ordinary fields named after their type
		add(Decl{K: "struct", Name: "EmbedsNamed", Fields: []Field{{Name: "Kind", Type: Ref("", "Kind"), Embedded: true}, {Name: "IntList", Type: Ref("", "IntList"), Embedded: true}, {Name: "Name", Type: Basic("string")}}})
	}
	if o.FixedArrays {
		// a long fixed array of an enum whose zero value is not an exported member
		la := Array(18, Ref("", "Score"))
		add(Decl{K: "named", Name: "LongRow", Under: &la})
		add(Decl{K: "struct", Name: "HasLong", Fields: []Field{{Name: "Row", Type: Ref("", "LongRow")}, {Name: "Inline", Type: Array(17, Basic("int"))}, {Name: "Both", Type: Slice(Basic("int"))}, {Name: "Fixed", Type: Array(3, Basic("int"))}}})
	}
	if o.MapKeys {
		// maps keyed by every kind of key Go can write: JSON object keys are strings
		add(Decl{K: "struct", Name: "KeyKinds", Fields: []Field{{Name: "A", Type: Map(Basic("int64"), Basic("string"))}, {Name: "B", Type: Map(Basic("uint8"), Basic("bool"))},
			{Name: "C", Type: Map(Basic("int"), Basic("float64"))}, {Name: "D", Type: Map(Ref("", "IdItem"), Basic("string"))}, {Name: "E", Type: Map(Ref("", "Kind"), Basic("bool"))},
			{Name: "F", Type: Map(Ref("", "Label"), Basic("int"))}, {Name: "G", Type: Map(Ref("", "Color"), Basic("int"))}}})
	}
	// containers of anonymous containers
	add(Decl{K: "struct", Name: "Nested", Fields: []Field{{Name: "Cells", Type: Slice(Map(Basic("string"), Basic("int")))}, {Name: "Grid", Type: Slice(Slice(Basic("int")))},
		{Name: "ByKey", Type: Map(Basic("string"), Slice(Basic("string")))}, {Name: "Deep", Type: Map(Basic("string"), Map(Basic("string"), Basic("bool")))}}})
	if o.MixedArrays {
		// a fixed array of slices next to a slice of fixed arrays (the TypeScript generator refuses the former)
		add(Decl{K: "struct", Name: "MixedRows", Fields: []Field{{Name: "RowsA", Type: Array(3, Slice(Basic("int")))}, {Name: "RowsB", Type: Slice(Array(3, Basic("int")))}}})
	}
	if o.Pointers {
		// a pointer to a named type that is analysed / generated BEFORE the struct holding the pointer
		add(Decl{K: "struct", Name: "Leafy", Fields: []Field{{Name: "V", Type: Basic("int")}, {Name: "S", Type: Basic("string")}}})
		if o.Unions {
			// a struct of the OTHER file that needs union code, only reachable through a pointer
			add(Decl{K: "struct", Name: "InnerU", File: "other", Fields: []Field{{Name: "ID", Type: Basic("int")}, {Name: "U", Type: Ref("", "Shape")}}})
			add(Decl{K: "struct", Name: "PtrToOther", Fields: []Field{{Name: "Name", Type: Basic("string")}, {Name: "P", Type: Ptr(Ref("", "InnerU"))}}})
		}
		add(Decl{K: "struct", Name: "PtrHolder", Fields: []Field{{Name: "Name", Type: Basic("string")}, {Name: "L", Type: Ptr(Ref("", "Leafy"))}, {Name: "N", Type: Ptr(Basic("int"))}, {Name: "Again", Type: Ptr(Ref("", "Leafy"))}}})
	}
	if o.Embedded {
		add(Decl{K: "struct", Name: "Base", Fields: []Field{{Name: "BaseID", Type: Ref("", "IdItem"), Tag: `json:"base_id"`}, {Name: "Note", Type: Basic("string")}, {Name: "secret", Type: Basic("bool")}}})
	}
	// structs
	names := []string{"Alpha", "Beta", "Gamma", "Delta", "Eps", "Zeta", "Eta", "Theta"}
	nS := o.NStructs
	if nS == 0 {
		nS = 3
	}
	if nS < 0 {
		nS = 0
	}
	if nS > len(names) {
		nS = len(names)
	}
	var structRefs []TE
	for s := 0; s < nS; s++ {
		name := names[s]
		nf := 1 + rng.Intn(max(1, o.MaxFields))
		var fs []Field
		if o.Embedded && rng.Intn(3) == 0 {
			// embed a struct that cannot reach the embedding one (an embedded struct on a cycle loses
			// its fields: recorded finding of C12, exercised by a dedicated witness there)
			fs = append(fs, Field{Name: "Base", Type: Ref("", "Base"), Embedded: true})
		}
		for f := 0; f < nf; f++ {
			fn := fmt.Sprintf("F%s%d", name[:1], f)
			var t TE
			switch r := rng.Intn(12); {
			case r < 5:
				t = g.pick(g.leafs)
			case r == 5:
				e := g.pick(g.leafs)
				if e.K == "basic" && e.Name == "uint8" && !o.ByteSlices {
					e = Basic("int16")
				}
				if e.K == "ref" && e.Pkg == "" && e.Name == "Kind" && kindIsByte && !o.ByteSlices {
					e = Ref("", "Score") // a slice of a uint8 enum is a byte slice too (recorded []byte finding)
				}
				t = Slice(e)
			case r == 6:
				k := Basic("string")
				if o.MapKeys {
					k = g.pick([]TE{Basic("string"), Basic("int"), Ref("", "IdItem"), Ref("", "Kind"), Ref("", "Label")})
				}
				t = Map(k, g.pick(g.leafs))
			case r == 7 && len(unionLeafs) > 0:
				t = g.pick(unionLeafs)
			case r == 8 && len(structRefs) > 0:
				t = g.pick(structRefs)
			case r == 9 && o.Recursive:
				// recursion through a slice or a map: always legal
				if rng.Intn(2) == 0 {
					t = Slice(Ref("", name))
				} else {
					t = Map(Basic("string"), Ref("", names[rng.Intn(nS)]))
				}
			case r == 10 && o.Pointers:
				t = Ptr(g.pick(g.leafs))
			case r == 11 && o.ByteSlices:
				t = Slice(Basic("byte"))
			default:
				b := g.pick(basics)
				if b.Name == "uint8" && !o.ByteSlices {
					b = Basic("int") // []uint8 is []byte: base64 on the wire (recorded finding of C03 / C04 / C06)
				}
				t = Slice(Slice(b))
			}
			fld := Field{Name: fn, Type: t}
			if o.Tags {
				switch rng.Intn(7) {
				case 0:
					fld.Tag = fmt.Sprintf(`json:"%s"`, strings.ToLower(fn))
				case 1:
					fld.Tag = fmt.Sprintf(`json:"%s_x" xml:"q"`, strings.ToLower(fn))
				case 2:
					if o.DashTags {
						fld.Tag = `json:"-"`
					}
				case 4, 5:
					if o.TagOptions {
						switch {
						case t.K == "basic" && t.Name != "string" && rng.Intn(2) == 0:
							fld.Tag = fmt.Sprintf(`json:"%s,string"`, strings.ToLower(fn))
						case rng.Intn(2) == 0:
							fld.Tag = `json:",omitempty"`
						default:
							fld.Tag = fmt.Sprintf(`json:"%s_o,omitempty" xml:"z"`, strings.ToLower(fn))
						}
					}
				case 3:
					// (not on a union-typed field: its zero value is the nil interface, which gounions cannot
					// marshal, so "keeps its zero value" and "survives the round trip" cannot both be asked)
					// nor on a struct-typed field, whose zero value may hold such a nil interface by value
					if o.DataIgnore && (t.K == "basic" || t.K == "slice" || t.K == "map") {
						fld.Tag = `gomacro-data:"ignore"`
					}
				}
			}
			fs = append(fs, fld)
		}
		// unexported and ignored fields never matter
		if rng.Intn(3) == 0 {
			fs = append(fs, Field{Name: "hidden", Type: Basic("int")})
		}
		add(Decl{K: "struct", Name: name, Fields: fs})
		structRefs = append(structRefs, Ref("", name))
	}
	if o.Aliases && len(structRefs) > 0 {
		t := structRefs[0]
		add(Decl{K: "alias", Name: "AliasAlpha", Under: &t})
		// alias chains: of a struct and of a named basic type
		a1 := Ref("", "AliasAlpha")
		add(Decl{K: "alias", Name: "AliasAlpha2", Under: &a1})
		lb := Ref("", "Label")
		add(Decl{K: "alias", Name: "LabelA", Under: &lb})
		la := Ref("", "LabelA")
		add(Decl{K: "alias", Name: "LabelB", Under: &la})
		// a named basic type reached ONLY through its alias (containers and structs register themselves early)
		hs := Basic("string")
		add(Decl{K: "named", Name: "OnlyAliased", File: "other", Under: &hs}) // (declared in the other file: not a root itself)
		oa := Ref("", "OnlyAliased")
		add(Decl{K: "alias", Name: "ViaAlias", Under: &oa})
		add(Decl{K: "struct", Name: "UsesAlias", Fields: []Field{{Name: "A", Type: Ref("", "AliasAlpha")}, {Name: "B", Type: Basic("int")}, {Name: "V", Type: Ref("", "ViaAlias")},
			{Name: "C", Type: Ref("", "AliasAlpha2")}, {Name: "D", Type: Ref("", "LabelB")}, {Name: "E", Type: Slice(Ref("", "LabelB"))}}})
	}
	if o.Recursive && !o.NoNamedRec {
		// named containers referring to themselves without a struct in between
		tr := Slice(Ref("", "Tree"))
		add(Decl{K: "named", Name: "Tree", Under: &tr})
		dr := Map(Basic("string"), Ref("", "Dir"))
		add(Decl{K: "named", Name: "Dir", Under: &dr})
		add(Decl{K: "struct", Name: "UsesRec", Fields: []Field{{Name: "T", Type: Ref("", "Tree")}, {Name: "D", Type: Ref("", "Dir")}}})
	}
	return g.p
}

func max(a, b int) int {
	if a > b {
		return a
	}
	return b
}

// MinimalKinds lists field types for single-field programs: each kind alone in the analysed file, so
// that a declaration the output depends on cannot come from a neighbour by accident.
func MinimalKinds() []TE {
	ks := []TE{
		Basic("int"), Basic("string"), Basic("bool"), Basic("float64"), Basic("uint8"), Basic("int64"),
		Slice(Basic("int")), Slice(Basic("string")), Slice(Slice(Basic("bool"))), Array(2, Basic("int")), Array(3, Ref("", "Kind")),
		Map(Basic("int"), Basic("string")), Map(Basic("int64"), Basic("bool")), Map(Basic("string"), Basic("int")), Map(Basic("string"), Basic("string")),
		Map(Ref("", "Kind"), Basic("bool")), Map(Ref("", "Color"), Basic("string")), Map(Ref("", "IdItem"), Basic("string")), Map(Ref("", "Label"), Basic("float64")),
		Map(Basic("int"), Ref("", "Circle")), Map(Basic("string"), Slice(Basic("int64"))),
		Ref("", "Kind"), Ref("", "Color"), Ref("", "Score"), Ref("", "MyDate"), Ref("", "Stamp"), Time(), Ref("", "Label"), Ref("", "IdItem"),
		Ref("", "IntList"), Ref("", "Triple"), Ref("", "Flags"), Ref("", "Shape"), Ref("", "Thing"), Ref("", "Shapes"), Ref("", "Things"), Ref("", "Circle"), Ref("", "Rect"), Ref("", "Base"),
		Ref("sub", "Level"), Ref("sub", "Point"), Ref("sub", "Names"), Ref("sub", "Code"), Ref("twin", "Mode"),
		Ref("time", "Duration"), Ref("database/sql", "NullInt64"), Ref("database/sql", "NullString"), Inst("Opt", Ref("", "IdItem")),
		Slice(Ref("", "Circle")), Slice(Ref("", "Kind")), Map(Basic("string"), Ref("sub", "Point")), Slice(Time()), Map(Basic("int"), Time()),
	}
	return ks
}

// Minimal builds the program `type Only struct { F <te> }` with every other declaration of the
// standard prelude moved out of the analysed file.
func Minimal(id int, te TE) *Prog { return minimal(id, te, true) }

// MinimalBare is Minimal without the extra string field: the field under test is the only one.
func MinimalBare(id int, te TE) *Prog { return minimal(id, te, false) }

func minimal(id int, te TE, note bool) *Prog {
	rng := rand.New(rand.NewSource(1))
	o := Full()
	o.NStructs = -1
	o.Aliases = false
	o.Recursive = false
	p := Random(id, rng, o)
	for i := range p.Decls {
		if p.Decls[i].Pkg == "" {
			p.Decls[i].File = "other"
		}
	}
	kept := p.Decls[:0]
	for _, d := range p.Decls {
		if !(d.K == "struct" && (d.Name == "Alpha")) {
			kept = append(kept, d)
		}
	}
	fields := []Field{{Name: "F", Type: te}}
	if note {
		fields = append(fields, Field{Name: "Note", Type: Basic("string"), Tag: `json:"note"`})
	}
	p.Decls = append(kept, Decl{K: "struct", Name: "Only", Fields: fields})
	return p
}
