package c12

import (
	"fmt"
	"go/types"
	"sort"
	"strings"

	"github.com/benoitkugler/gomacro/analysis"
	"golang.org/x/tools/go/packages"

	"verif/harness/internal/synth"
	"verif/harness/internal/walk"
)

const timeStruct = "struct{wall uint64; ext int64; loc *time.Location}"

// OEntry is what go/types says about one reachable Go type (see spec/AnalysisDef.tla).
type OEntry struct {
	Key      string   `json:"key"`
	Canon    string   `json:"canon"`
	Reg      bool     `json:"reg"` // expected as a key of Analysis.Types
	Kind     string   `json:"kind"`
	Len      int      `json:"len"`
	Basic    string   `json:"basic"`
	Date     bool     `json:"date"`
	Children []string `json:"children"`
	Fnames   []string `json:"fnames"`
}

// GNode is a node of the graph handed to the Analysis model (ids = identity of type objects).
type GNode struct {
	Kind     string   `json:"kind"`
	Children []string `json:"children"`
	Early    bool     `json:"early"`
	RegAs    string   `json:"regAs"`
}

type world struct {
	pkg    *packages.Package
	enums  map[*types.Named]bool
	ids    map[types.Type]string
	keys   map[string]string // id -> key
	oracle map[string]*OEntry
	graph  map[string]*GNode
}

func (w *world) id(t types.Type) string {
	if id, ok := w.ids[t]; ok {
		return id
	}
	id := fmt.Sprintf("t%d", len(w.ids)+1)
	w.ids[t] = id
	w.keys[id] = walk.Key(t)
	return id
}

func isUser(p *types.Package) bool {
	return p != nil && strings.HasPrefix(p.Path(), synth.ModRoot)
}

func basicKind(b *types.Basic) string {
	switch info := b.Info(); {
	case info&types.IsBoolean != 0:
		return "bool"
	case info&types.IsInteger != 0:
		return "int"
	case info&types.IsFloat != 0:
		return "float"
	case info&types.IsString != 0:
		return "string"
	}
	return "other"
}

func isTimeLike(t types.Type) bool { return t.Underlying().String() == timeStruct }

// members of a union, by the definition of C11, in name order
func unionMembers(itf *types.Named) []*types.Named {
	it, ok := itf.Underlying().(*types.Interface)
	if !ok || !isUser(itf.Obj().Pkg()) {
		return nil
	}
	scope := itf.Obj().Pkg().Scope()
	var out []*types.Named
	for _, n := range scope.Names() { // sorted
		tn, ok := scope.Lookup(n).(*types.TypeName)
		if !ok {
			continue
		}
		named, ok := tn.Type().(*types.Named)
		if !ok || named.TypeParams().Len() > 0 {
			continue
		}
		if _, isItf := named.Underlying().(*types.Interface); isItf {
			continue
		}
		if types.Implements(named, it) {
			out = append(out, named)
		}
	}
	return out
}

// classification shared by the oracle dump and the model graph
func (w *world) classify(t types.Type) (kind string, children []types.Type, fnames []string, ln int, basic string, date bool) {
	fnames = []string{}
	if isTimeLike(t) {
		named, _ := t.(*types.Named)
		d := named != nil && strings.Contains(strings.ToLower(named.Obj().Name()), "date")
		if named != nil && named.Obj().Pkg().Path() != "time" {
			return "named", nil, fnames, 0, "", d // child: the predefined Time / Date
		}
		return "time", nil, fnames, 0, "", d
	}
	if named, ok := t.(*types.Named); ok {
		if w.enums[named.Origin()] {
			return "enum", nil, fnames, 0, basicKind(named.Underlying().(*types.Basic)), false
		}
		if ms := unionMembers(named); len(ms) > 0 {
			for _, m := range ms {
				children = append(children, m)
			}
			return "union", children, fnames, 0, "", false
		}
		if st, ok := named.Underlying().(*types.Struct); ok {
			for i := 0; i < st.NumFields(); i++ {
				children = append(children, st.Field(i).Type())
				fnames = append(fnames, st.Field(i).Name())
			}
			return "struct", children, fnames, 0, "", false
		}
		return "named", []types.Type{named.Underlying()}, fnames, 0, "", false
	}
	switch u := t.(type) {
	case *types.Basic:
		return "basic", nil, fnames, 0, basicKind(u), false
	case *types.Pointer:
		return "pointer", []types.Type{u.Elem()}, fnames, 0, "", false
	case *types.Array:
		return "array", []types.Type{u.Elem()}, fnames, int(u.Len()), "", false
	case *types.Slice:
		return "slice", []types.Type{u.Elem()}, fnames, -1, "", false
	case *types.Map:
		return "map", []types.Type{u.Key(), u.Elem()}, fnames, 0, "", false
	}
	return "unsupported", nil, fnames, 0, "", false
}

// flattened fields of a struct as the analysis reports them (embedded structs merged)
func (w *world) flatFields(st *types.Struct, depth int) (ts []types.Type, names []string) {
	for i := 0; i < st.NumFields(); i++ {
		f := st.Field(i)
		ft := types.Unalias(f.Type())
		if f.Embedded() && depth < 20 {
			if k, _, _, _, _, _ := w.classify(ft); k == "struct" {
				its, inames := w.flatFields(ft.Underlying().(*types.Struct), depth+1)
				ts = append(ts, its...)
				names = append(names, inames...)
				continue
			}
		}
		ts = append(ts, f.Type())
		names = append(names, f.Name())
	}
	return ts, names
}

// visit builds the oracle entry (by key) and the model graph node (by identity) of t and of
// everything reachable from it.
func (w *world) visit(t types.Type) {
	id := w.id(t)
	if _, done := w.graph[id]; done {
		return
	}
	target := types.Unalias(t)
	kind, children, fnames, ln, basic, date := w.classify(target)
	gn := &GNode{Kind: kind, Children: []string{}, RegAs: id}
	w.graph[id] = gn
	if target != t {
		// an alias shares the node of the type it denotes: createType(alias) = handleType(target)
		gn.Kind = "alias"
		gn.Children = []string{w.id(target)}
	} else {
		switch kind {
		case "struct", "array", "slice", "map":
			gn.Early = true
		}
		for _, c := range children {
			gn.Children = append(gn.Children, w.id(c))
		}
	}
	key := walk.Key(t)
	if _, has := w.oracle[key]; !has {
		e := &OEntry{Key: key, Canon: walk.Key(target), Reg: true, Kind: kind, Len: ln, Basic: basic, Date: date, Children: []string{}, Fnames: fnames}
		och := children
		if kind == "struct" {
			och, e.Fnames = w.flatFields(target.Underlying().(*types.Struct), 0)
			if e.Fnames == nil {
				e.Fnames = []string{}
			}
		}
		for _, c := range och {
			e.Children = append(e.Children, walk.Key(types.Unalias(c)))
		}
		if isTimeLike(target) && kind == "named" {
			pk := "Time"
			if date {
				pk = "Date"
			}
			e.Children = []string{pk}
			e.Date = false
			if _, ok := w.oracle[pk]; !ok {
				w.oracle[pk] = &OEntry{Key: pk, Canon: pk, Reg: false, Kind: "time", Date: date, Children: []string{}, Fnames: []string{}}
			}
		}
		w.oracle[key] = e
	}
	for _, c := range children {
		w.visit(c)
	}
	if target != t {
		w.visit(target) // the alias target is a type of its own in the result when reached elsewhere
		delete(w.graph, "") // no-op, keeps vet quiet about unused paths
	}
}

func newWorld(pkg *packages.Package, enumKeys map[string]bool) *world {
	w := &world{pkg: pkg, enums: map[*types.Named]bool{}, ids: map[types.Type]string{}, keys: map[string]string{},
		oracle: map[string]*OEntry{}, graph: map[string]*GNode{}}
	var scan func(p *packages.Package, seen map[string]bool)
	scan = func(p *packages.Package, seen map[string]bool) {
		if seen[p.PkgPath] || !isUser(p.Types) {
			return
		}
		seen[p.PkgPath] = true
		sc := p.Types.Scope()
		for _, n := range sc.Names() {
			if tn, ok := sc.Lookup(n).(*types.TypeName); ok {
				if named, ok := tn.Type().(*types.Named); ok && enumKeys[walk.Key(named)] {
					w.enums[named] = true
				}
			}
		}
		for _, imp := range p.Imports {
			scan(imp, seen)
		}
	}
	scan(pkg, map[string]bool{})
	return w
}

// ---------------------------------------------------------------- dump of the real result

type TypeRec struct {
	Key       string `json:"key"`
	Node      string `json:"node"`
	Identical bool   `json:"identical"`
}

type NodeRec struct {
	ID       string   `json:"id"`
	Tkey     string   `json:"tkey"`
	Kind     string   `json:"kind"`
	Len      int      `json:"len"`
	Basic    string   `json:"basic"`
	Date     bool     `json:"date"`
	Children []string `json:"children"`
	Fnames   []string `json:"fnames"`
}

func bk(k analysis.BasicKind) string {
	switch k {
	case analysis.BKString:
		return "string"
	case analysis.BKInt:
		return "int"
	case analysis.BKFloat:
		return "float"
	case analysis.BKBool:
		return "bool"
	}
	return "other"
}

func dump(ana *analysis.Analysis) (trecs []TypeRec, nrecs []NodeRec, src []string) {
	nid := map[analysis.Type]string{}
	idOf := func(n analysis.Type) string {
		if n == nil {
			return "nil"
		}
		if id, ok := nid[n]; ok {
			return id
		}
		id := fmt.Sprintf("n%d", len(nid)+1)
		nid[n] = id
		return id
	}
	walk.All(ana, func(n analysis.Type) {
		if n == nil {
			return
		}
		r := NodeRec{ID: idOf(n), Children: []string{}, Fnames: []string{}}
		func() {
			defer func() {
				if e := recover(); e != nil {
					r.Tkey = fmt.Sprint("<Type() panics: ", e, ">")
				}
			}()
			r.Tkey = walk.Key(n.Type())
		}()
		switch n := n.(type) {
		case *analysis.Basic:
			r.Kind, r.Basic = "basic", bk(n.Kind())
		case *analysis.Time:
			r.Kind, r.Date = "time", n.IsDate
		case *analysis.Array:
			r.Kind, r.Len = "array", n.Len
			if n.Len < 0 {
				r.Kind = "slice"
			}
		case *analysis.Map:
			r.Kind = "map"
		case *analysis.Pointer:
			r.Kind = "pointer"
		case *analysis.Named:
			r.Kind = "named"
		case *analysis.Enum:
			r.Kind, r.Basic = "enum", bk(n.Kind())
		case *analysis.Struct:
			r.Kind = "struct"
			for _, f := range n.Fields {
				r.Fnames = append(r.Fnames, f.Field.Name())
			}
		case *analysis.Union:
			r.Kind = "union"
		}
		for _, c := range walk.Children(n) {
			r.Children = append(r.Children, idOf(c))
		}
		nrecs = append(nrecs, r)
	})
	for t, n := range ana.Types {
		tr := TypeRec{Key: walk.Key(t), Node: idOf(n)}
		func() {
			defer func() { recover() }()
			if tm, ok := n.(*analysis.Time); ok {
				// time and date are reported as predefined
				tn, isNamed := types.Unalias(t).(*types.Named)
				tr.Identical = isNamed && isTimeLike(tn) && tn.Obj().Pkg().Path() == "time" && !tm.IsDate
			} else {
				tr.Identical = identModTime(n.Type(), t)
			}
		}()
		trecs = append(trecs, tr)
	}
	sort.Slice(trecs, func(i, j int) bool { return trecs[i].Key < trecs[j].Key })
	src = []string{}
	for _, s := range ana.Source {
		src = append(src, walk.Key(s))
	}
	return trecs, nrecs, src
}

// identModTime is go/types' identity, with time.Time reported as the predefined Time inside
// anonymous containers (the property: "time and date being reported as predefined").
func identModTime(a, b types.Type) bool {
	b = types.Unalias(b)
	if bn, ok := b.(*types.Named); ok && isTimeLike(bn) && bn.Obj().Pkg().Path() == "time" {
		an, ok := a.(*types.Named)
		return ok && an.Obj().Pkg() == nil && an.Obj().Name() == "Time"
	}
	switch b := b.(type) {
	case *types.Slice:
		a, ok := a.(*types.Slice)
		return ok && identModTime(a.Elem(), b.Elem())
	case *types.Array:
		a, ok := a.(*types.Array)
		return ok && a.Len() == b.Len() && identModTime(a.Elem(), b.Elem())
	case *types.Map:
		a, ok := a.(*types.Map)
		return ok && identModTime(a.Key(), b.Key()) && identModTime(a.Elem(), b.Elem())
	case *types.Pointer:
		a, ok := a.(*types.Pointer)
		return ok && identModTime(a.Elem(), b.Elem())
	}
	return types.Identical(a, b)
}

// embeddedCycle reports whether named struct key embeds a struct from which it is reachable itself.
func (w *world) embeddedCycle(key string) bool {
	for t := range w.ids {
		named, ok := t.(*types.Named)
		if !ok || walk.Key(named) != key {
			continue
		}
		st, ok := named.Underlying().(*types.Struct)
		if !ok {
			continue
		}
		for i := 0; i < st.NumFields(); i++ {
			if !st.Field(i).Embedded() {
				continue
			}
			seen := map[types.Type]bool{}
			var reach func(x types.Type) bool
			reach = func(x types.Type) bool {
				x = types.Unalias(x)
				if x == named {
					return true
				}
				if seen[x] {
					return false
				}
				seen[x] = true
				_, ch, _, _, _, _ := w.classify(x)
				for _, c := range ch {
					if reach(c) {
						return true
					}
				}
				return false
			}
			if reach(st.Field(i).Type()) {
				return true
			}
		}
	}
	return false
}
