// Package c12 checks property C12 (type graph closed, faithful, finite) — spec/Analysis*.tla.
package c12

import (
	"encoding/json"
	"fmt"
	"go/types"
	"math/rand"
	"path/filepath"
	"strings"
	"time"

	"github.com/benoitkugler/gomacro/analysis"

	"verif/harness/internal/absprog"
	"verif/harness/internal/core"
	"verif/harness/internal/synth"
	"verif/harness/internal/walk"
)

type Case struct {
	Prog  absprog.Prog      `json:"prog"`
	Files map[string]string `json:"files,omitempty"`
	Lines []json.RawMessage `json:"lines,omitempty"` // the trace of this case
	Note  string            `json:"note,omitempty"`  // harness problem (never a verdict)
}

type workIn struct {
	Cases []Case `json:"cases"`
}

type abortTrace struct{ why string }

// teOf converts a TLC-exported type expression of AnalysisModel into an absprog TE.
func teOf(m map[string]any) absprog.TE {
	of, _ := m["of"].(string)
	switch m["k"] {
	case "basic":
		return absprog.Basic(of)
	case "ref":
		return absprog.Ref("", of)
	case "slice":
		return absprog.Slice(absprog.Ref("", of))
	case "array":
		return absprog.Array(2, absprog.Ref("", of))
	case "map":
		return absprog.Map(absprog.Basic("string"), absprog.Ref("", of))
	}
	panic("unknown TE from TLC")
}

func progOfCore(id int, rec map[string]any) absprog.Prog {
	p := absprog.Prog{ID: id}
	for _, n := range []string{"n1", "n2"} {
		b := rec[n].(map[string]any)
		name := strings.ToUpper(n)
		if b["k"] == "struct" {
			d := absprog.Decl{K: "struct", Name: name}
			for i, f := range b["fields"].([]any) {
				d.Fields = append(d.Fields, absprog.Field{Name: fmt.Sprintf("F%d", i+1), Type: teOf(f.(map[string]any))})
			}
			p.Decls = append(p.Decls, d)
		} else {
			te := teOf(b["te"].(map[string]any))
			p.Decls = append(p.Decls, absprog.Decl{K: "named", Name: name, Under: &te})
		}
	}
	return p
}

func enumKeysOf(p *absprog.Prog) map[string]bool {
	out := map[string]bool{}
	for _, d := range p.Decls {
		if d.K == "named" && len(d.Consts) > 0 {
			out[absprog.PkgPath(synth.ModRoot, p.ID, d.Pkg)+"."+d.Name] = true
		}
	}
	return out
}

func Worker(args []string) {
	core.WorkerIO(args, func(in workIn, dir string) workIn {
		mod, err := synth.NewModule(dir)
		if err != nil {
			panic(err)
		}
		var rels []string
		for i := range in.Cases {
			files := absprog.Render(&in.Cases[i].Prog, synth.ModRoot)
			in.Cases[i].Files = files
			mod.Write(files)
			rels = append(rels, fmt.Sprintf("p%d/defs.go", in.Cases[i].Prog.ID))
		}
		pkgs, _, err := mod.Load(rels)
		if err != nil {
			for i := range in.Cases {
				in.Cases[i].Note = "load failed: " + err.Error()
			}
			return in
		}
		for i := range in.Cases {
			observe(&in.Cases[i], mod.Abs(rels[i]), pkgs[i])
		}
		return in
	})
}

func observe(c *Case, file string, pkg0 any) {
	pkg := pkgsOf(pkg0)
	w := newWorld(pkg, enumKeysOf(&c.Prog))
	// expected source declarations, in order
	var roots []string
	source := []string{}
	for _, d := range c.Prog.Decls {
		if d.Pkg != "" || d.File != "" {
			continue
		}
		obj := pkg.Types.Scope().Lookup(d.Name)
		if obj == nil {
			c.Note = "declaration not rendered: " + d.Name
			return
		}
		w.visit(obj.Type())
		roots = append(roots, w.id(obj.Type()))
		source = append(source, walk.Key(obj.Type()))
	}
	emit := func(v any) {
		b, err := json.Marshal(v)
		if err != nil {
			panic(err)
		}
		c.Lines = append(c.Lines, b)
	}
	emit(map[string]any{"ev": "begin", "case": c.Prog.ID, "graph": w.graph, "roots": roots})
	nEvents, depth := 0, 0
	analysis.VerifTrace = func(ev string, typ types.Type, node analysis.Type) {
		nEvents++
		switch ev {
		case "enter":
			depth++
		case "return":
			depth--
		}
		emit(map[string]any{"ev": ev, "id": w.id(typ), "key": walk.Key(typ)})
		if depth > 400 || nEvents > 30000 {
			panic(abortTrace{fmt.Sprintf("aborted by the tracer after %d events at depth %d", nEvents, depth)})
		}
	}
	var ana *analysis.Analysis
	outcome, msg := "ok", ""
	func() {
		defer func() {
			if r := recover(); r != nil {
				if a, ok := r.(abortTrace); ok {
					outcome, msg = "fatal", a.why
				} else if _, rt := r.(interface{ RuntimeError() }); rt {
					outcome, msg = "runtime", fmt.Sprint(r)
				} else {
					outcome, msg = "diag", fmt.Sprint(r)
				}
			}
		}()
		ana = analysis.NewAnalysisFromFile(pkg, file)
	}()
	analysis.VerifTrace = nil
	fin := map[string]any{"ev": "final", "case": c.Prog.ID, "outcome": outcome, "msg": msg,
		"oracle": []any{}, "types": []any{}, "nodes": []any{}, "source": source, "obsSource": []string{}}
	if outcome == "ok" {
		var keys []string
		for k := range w.oracle {
			keys = append(keys, k)
		}
		or := make([]*OEntry, 0, len(keys))
		for _, k := range synth.SortedKeys(w.oracle) {
			or = append(or, w.oracle[k])
		}
		trecs, nrecs, src := dump(ana)
		fin["oracle"], fin["types"], fin["nodes"], fin["obsSource"] = or, trecs, nrecs, src
	}
	if outcome == "ok" {
		cyc := []string{}
		for _, k := range synth.SortedKeys(w.oracle) {
			if w.oracle[k].Kind == "struct" && w.embeddedCycle(k) {
				cyc = append(cyc, k)
			}
		}
		fin["embeddedCycles"] = cyc
	}
	emit(fin)
}

func Run(c *core.Ctx, replay string) (*core.Result, error) {
	res := &core.Result{Level: "model_checking"}
	res.Assumptions = []string{
		"go/types is the oracle for kinds, lengths, key/element types, basic kinds and type identity; enum and union classification of the oracle follow C10 / C11's definitions",
		"the hook trace carries the identity of go/types type objects; a cap (depth 400, 30000 events) stops a runaway recursion before the Go runtime dies",
	}
	var cases []Case
	nCores := 0
	if replay != "" {
		var p absprog.Prog
		if err := core.LoadReplay(replay, &p); err != nil {
			return nil, err
		}
		cases = []Case{{Prog: p}}
	} else {
		cfg := "AnalysisModel_quick.cfg"
		if c.Thorough() {
			cfg = "AnalysisModel_thorough.cfg"
		}
		ef := filepath.Join(c.Scratch, "export.ndjson")
		t, err := c.RunTLC(core.TLCOpts{Module: "AnalysisModel", Config: cfg, Workers: 1, HeapGB: 8, Env: map[string]string{"VERIF_EXPORT": ef}})
		if err != nil {
			return nil, err
		}
		if t.ErrorKind != "" {
			return nil, core.Inconcl("design-level run of AnalysisModel ended with %s %s (model-only counterexample)\n%s", t.ErrorKind, t.InvViolated, core.Tail(t.Output, 30))
		}
		res.AddTLC(t)
		if c.Thorough() {
			tl, err := c.RunTLC(core.TLCOpts{Module: "AnalysisModel", Config: "AnalysisModel_live.cfg", Workers: 4})
			if err != nil {
				return nil, err
			}
			if tl.ErrorKind != "" {
				return nil, core.Inconcl("liveness run of AnalysisModel ended with %s", tl.ErrorKind)
			}
			res.AddTLC(tl)
		}
		recs, err := core.ReadNDJSON(ef)
		if err != nil {
			return nil, core.Inconcl("export: %v", err)
		}
		nCores = len(recs)
		id := 0
		for _, r := range recs {
			id++
			cases = append(cases, Case{Prog: progOfCore(id, r)})
		}
		// fixed witness of the recorded finding (embedded struct on a cycle)
		id++
		cases = append(cases, Case{Prog: absprog.Prog{ID: id, Decls: []absprog.Decl{
			{K: "struct", Name: "Outer", Fields: []absprog.Field{{Name: "Kids", Type: absprog.Map(absprog.Basic("string"), absprog.Ref("", "Inner"))}, {Name: "Name", Type: absprog.Basic("string")}}},
			{K: "struct", Name: "Inner", Fields: []absprog.Field{{Name: "Outer", Type: absprog.Ref("", "Outer"), Embedded: true}, {Name: "N", Type: absprog.Basic("int")}}},
		}}})
		rng := rand.New(rand.NewSource(c.Seed))
		nRand := 60
		if c.Thorough() {
			nRand = 600
		}
		for k := 0; k < nRand; k++ {
			id++
			o := absprog.Full()
			o.Pointers = rng.Intn(3) == 0
			o.ByteSlices = rng.Intn(2) == 0
			o.NStructs = 2 + rng.Intn(5)
			cases = append(cases, Case{Prog: *absprog.Random(id, rng, o)})
		}
	}
	out, err := runCases(c, cases)
	if err != nil {
		return nil, err
	}
	var lines []any
	byCase := map[int]Case{}
	events := 0
	for i, cs := range out {
		if cs.Note != "" {
			return nil, core.Inconcl("case %d: %s\n%s", cs.Prog.ID, cs.Note, cs.Files[fmt.Sprintf("p%d/defs.go", cs.Prog.ID)])
		}
		for _, ln := range cs.Lines {
			lines = append(lines, ln)
		}
		events += len(cs.Lines)
		byCase[cs.Prog.ID] = cs
		if i%97 == 13 || i == len(out)-1 {
			ev := []string{}
			for k, ln := range cs.Lines {
				if k > 0 && k < 12 {
					ev = append(ev, string(ln))
				}
			}
			res.Sample(map[string]any{"source": cs.Files, "first_events": ev, "events": len(cs.Lines) - 2})
		}
	}
	bad, err := c.JudgeTrace(res, "TraceAnalysis", lines)
	if err != nil {
		return nil, err
	}
	for _, v := range bad {
		cs := byCase[core.Int(v, "case")]
		why, drift := core.Str(v, "why"), core.Str(v, "drift")
		if drift != "" {
			res.Drift = append(res.Drift, fmt.Sprintf("case %d: %s", cs.Prog.ID, drift))
		}
		if why == "" {
			continue
		}
		key := why
		if i := strings.Index(why, ": "); i > 0 && !strings.HasPrefix(why, "harness") {
			key = why[:i]
		}
		for _, pre := range []string{"unbounded recursion", "analysis does not terminate", "analysis crashed", "supported input refused"} {
			if strings.HasPrefix(why, pre) {
				key = pre
			}
		}
		if strings.HasPrefix(key, "a registered node does not describe") || strings.HasPrefix(key, "a node reached through links") {
			// known class: an embedded struct that (through a container) contains the embedding struct
			var fin struct {
				Cycles []string `json:"embeddedCycles"`
			}
			json.Unmarshal(cs.Lines[len(cs.Lines)-1], &fin)
			for _, k := range fin.Cycles {
				if strings.HasSuffix(why, ": "+k) {
					key = "embedded struct on a cycle: its fields are lost in the embedding struct"
				}
			}
		}
		res.Violations = append(res.Violations, core.Violation{Key: key, What: why + "\n" + srcOf(cs), Replay: cs.Prog})
	}
	res.Evaluations = len(cases)
	res.TracesVsImpl = len(cases)
	distinct := map[string]bool{}
	for _, cs := range cases {
		b, _ := json.Marshal(cs.Prog.Decls)
		distinct[string(b)] = true
	}
	res.Nontrivial = len(distinct)
	res.Rule = fmt.Sprintf("every program of AnalysisModel_%s.cfg exported by TLC (%d programs: two named types, struct of <=MaxFields fields or named over {int, N, []N, [2]N, map[string]N}, illegal cycles excluded), plus seeded random supported packages (enums, unions, generics, time/date, std-lib and sub-package types, embedded structs, aliases, recursion through slices and maps, pointers in 1 of 3); distinct = distinct declaration lists", c.Tier, nCores)
	res.Extra = map[string]any{"hook_events": events - 2*len(cases), "enumerated_by_tlc": nCores}
	return res, nil
}

func srcOf(cs Case) string {
	var b strings.Builder
	for _, k := range synth.SortedKeys(cs.Files) {
		if strings.TrimSpace(cs.Files[k]) != "package sub" {
			fmt.Fprintf(&b, "// %s\n%s\n", k, cs.Files[k])
		}
	}
	return b.String()
}

func runCases(c *core.Ctx, cases []Case) ([]Case, error) {
	const chunk = 100
	var parts [][]Case
	for i := 0; i < len(cases); i += chunk {
		j := i + chunk
		if j > len(cases) {
			j = len(cases)
		}
		parts = append(parts, cases[i:j])
	}
	type part struct {
		out workIn
		err error
		log string
	}
	results := make([]part, len(parts))
	sem := make(chan bool, c.Workers)
	done := make(chan int)
	for k := range parts {
		go func(k int) {
			sem <- true
			defer func() { <-sem; done <- k }()
			var out workIn
			log, err := c.RunSelfWorker("c12", workIn{Cases: parts[k]}, &out, 5*time.Minute)
			results[k] = part{out: out, err: err, log: log}
		}(k)
	}
	for range parts {
		<-done
	}
	var all []Case
	for _, p := range results {
		if p.err != nil {
			return nil, core.Inconcl("c12 worker: %v\n%s", p.err, core.Tail(p.log, 25))
		}
		all = append(all, p.out.Cases...)
	}
	return all, nil
}
