package c12

import "golang.org/x/tools/go/packages"

func pkgsOf(p any) *packages.Package { return p.(*packages.Package) }
