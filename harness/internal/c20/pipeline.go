package c20

// The call site of Formatters: cmd/gomacro's saveOutputs (spec/Pipeline.tla, TracePipeline.tla).
// The real command line tool, built with -race, runs in config mode on two small packages with the
// stand-in formatters first on PATH; its output and the stand-ins' log share one O_APPEND file.

import (
	"encoding/json"
	"fmt"
	"math/rand"
	"os"
	"os/exec"
	"path/filepath"
	"sort"
	"strings"
	"time"

	"github.com/benoitkugler/gomacro/analysis"
	"github.com/benoitkugler/gomacro/generator/dart"

	"verif/harness/internal/core"
	"verif/harness/internal/gens"
	"verif/harness/internal/synth"
)

const pipeSrc1 = `package p1

type Kind int

const (
	KA Kind = iota
	KB
)

type Shape interface{ isShape() }

type Circle struct{ R int }

func (Circle) isShape() {}

type Item struct {
	Id   int64
	Name string
	K    Kind
}

type Holder struct {
	S Shape
	N int
}
`

const pipeSrc2 = `package p2

type Label string

type Point struct {
	X, Y  int
	Label Label
}
`

type pipeAction struct {
	Mode     string `json:"mode"`
	Out      string `json:"out"` // base name
	Nonempty bool   `json:"nonempty"`
}

type pipeFile struct {
	File    string       `json:"file"`
	Actions []pipeAction `json:"actions"`
}

type pipeRun struct {
	ID        int               `json:"id"`
	Conf      []pipeFile        `json:"conf"` // in the order the tool must process the files (sorted paths)
	DartOnly  bool              `json:"dartonly"`
	DartFiles []string          `json:"dartfiles"`
	Avail     map[string]string `json:"avail"`
}

var pipeModes = []string{"go/unions", "go/randdata", "sql", "typescript/types", "dart"}
var pipeExt = map[string]string{"go/unions": ".go", "go/randdata": ".go", "sql": ".sql", "typescript/types": ".ts", "dart": ".dart"}

func buildCLI(c *core.Ctx) (string, error) {
	bin := filepath.Join(c.Scratch, "gomacro-race")
	cmd := exec.Command("go", "build", "-race", "-tags", "verif", "-o", bin, "github.com/benoitkugler/gomacro/cmd")
	cmd.Dir = filepath.Join(core.VerifDir(), "harness")
	cmd.Env = append(os.Environ(), "GOFLAGS=-mod=mod", "GOPROXY=off", "GOSUMDB=off", "GOTOOLCHAIN=local", "CGO_ENABLED=1")
	if out, err := cmd.CombinedOutput(); err != nil {
		return "", core.Inconcl("building cmd/gomacro with -race: %v\n%s", err, core.Tail(string(out), 10))
	}
	return bin, nil
}

// pipeOnce runs the tool once and returns the trace lines of the run.
func pipeOnce(c *core.Ctx, bin, toolScript string, nonempty map[string]bool, dartFiles []string, run pipeRun) (traceOut, string, error) {
	dir, err := os.MkdirTemp(c.Scratch, "pipe-")
	if err != nil {
		return traceOut{}, "", err
	}
	defer os.RemoveAll(dir)
	mod, err := synth.NewModule(dir)
	if err != nil {
		return traceOut{}, "", err
	}
	mod.Write(map[string]string{"p1/defs.go": pipeSrc1, "p2/defs.go": pipeSrc2})
	outDir := filepath.Join(dir, "out")
	os.MkdirAll(filepath.Join(outDir, "dart"), 0o755)
	fdir := filepath.Join(dir, "fmt")
	fake := filepath.Join(fdir, "bin")
	os.MkdirAll(fake, 0o755)
	for _, t := range []string{"which", "goimports", "dart", "npx", "pg_format"} {
		os.WriteFile(filepath.Join(fake, t), []byte(toolScript), 0o755)
	}
	for t, a := range run.Avail {
		os.WriteFile(filepath.Join(fdir, "avail."+t), []byte(a+"\n"), 0o644)
	}
	conf := map[string]any{}
	hasDart := false
	for _, f := range run.Conf {
		var acts []map[string]string
		for _, a := range f.Actions {
			o := filepath.Join(outDir, a.Out)
			if a.Mode == "dart" {
				o, hasDart = "x", true
			}
			acts = append(acts, map[string]string{"Mode": a.Mode, "Output": o})
		}
		conf[mod.Abs(f.File)] = acts
	}
	if hasDart {
		conf["_dart"] = []map[string]string{{"Mode": "dart", "Output": filepath.Join(outDir, "dart")}}
	}
	b, _ := json.Marshal(conf)
	cf := filepath.Join(dir, "conf.json")
	os.WriteFile(cf, b, 0o644)
	logPath := filepath.Join(fdir, "log")
	lf, err := os.OpenFile(logPath, os.O_CREATE|os.O_WRONLY|os.O_APPEND, 0o644)
	if err != nil {
		return traceOut{}, "", err
	}
	args := []string{"-config"}
	if run.DartOnly {
		args = append(args, "-dart-only")
	}
	args = append(args, cf)
	cmd := exec.Command(bin, args...)
	cmd.Dir = mod.Dir
	cmd.Stdout, cmd.Stderr = lf, lf
	gobin, _ := exec.LookPath("go")
	cmd.Env = append(os.Environ(), "PATH="+fake+":"+filepath.Dir(gobin)+":/usr/bin:/bin", "VERIF_FMT_DIR="+fdir,
		"GOFLAGS=-mod=mod", "GOPROXY=off", "GOSUMDB=off", "GOTOOLCHAIN=local", "GORACE=exitcode=66 halt_on_error=1")
	done := make(chan error, 1)
	if err := cmd.Start(); err != nil {
		lf.Close()
		return traceOut{}, "", err
	}
	go func() { done <- cmd.Wait() }()
	var werr error
	select {
	case werr = <-done:
	case <-time.After(120 * time.Second):
		cmd.Process.Kill()
		<-done
		lf.Close()
		return traceOut{}, "", core.Inconcl("cmd/gomacro did not end within 120 s")
	}
	lf.Close()
	code := 0
	if werr != nil {
		code = 1
		if ee, ok := werr.(*exec.ExitError); ok {
			code = ee.ExitCode()
		}
	}
	time.Sleep(50 * time.Millisecond) // orphaned stand-ins of a crashed run finish their lines
	raw, _ := os.ReadFile(logPath)
	cfgLine, _ := json.Marshal(map[string]any{"ev": "config", "conf": run.Conf, "dartonly": run.DartOnly, "dartfiles": dartFiles, "avail": run.Avail})
	tr := traceOut{lines: []string{string(cfgLine)}}
	race := ""
	if code == 66 || strings.Contains(string(raw), "WARNING: DATA RACE") {
		race = string(raw)
	}
	crashed := false
	for _, ln := range strings.Split(string(raw), "\n") {
		t := strings.TrimSpace(ln)
		switch {
		case crashed:
			// lines of orphaned stand-ins after the process died
		case strings.HasPrefix(t, `{"ev":`):
			tr.lines = append(tr.lines, t)
		case strings.HasPrefix(t, "Code written to "):
			f := strings.TrimSuffix(strings.TrimPrefix(t, "Code written to "), " (pending formatting).")
			e, _ := json.Marshal(map[string]any{"ev": "written", "file": filepath.Base(f)})
			tr.lines = append(tr.lines, string(e))
		case t == "Waiting for formatters...":
			tr.lines = append(tr.lines, `{"ev":"waiting"}`)
		case t == "Done.":
			tr.lines = append(tr.lines, `{"ev":"done"}`)
		case strings.HasPrefix(t, "panic: formatting "):
			f := strings.Fields(strings.TrimPrefix(t, "panic: formatting "))[0]
			e, _ := json.Marshal(map[string]any{"ev": "panic", "file": filepath.Base(f)})
			tr.lines = append(tr.lines, string(e))
			crashed = true
		}
	}
	outs := []map[string]any{}
	filepath.Walk(outDir, func(p string, info os.FileInfo, err error) error {
		if err == nil && !info.IsDir() {
			bb, _ := os.ReadFile(p)
			outs = append(outs, map[string]any{"file": filepath.Base(p), "formatted": strings.Contains(string(bb), "// formatted by ")})
		}
		return nil
	})
	sort.Slice(outs, func(i, j int) bool { return outs[i]["file"].(string) < outs[j]["file"].(string) })
	e, _ := json.Marshal(map[string]any{"ev": "exit", "code": code, "outs": outs})
	tr.lines = append(tr.lines, string(e))
	return tr, race, nil
}

func pipelineStage(c *core.Ctx, res *core.Result, replay string) (map[string]any, error) {
	if replay != "" {
		return map[string]any{"skipped": "replay of a Formatters job"}, nil
	}
	cfg := "Pipeline_quick.cfg"
	if c.Thorough() {
		cfg = "Pipeline_thorough.cfg"
	}
	t, err := c.RunTLC(core.TLCOpts{Module: "Pipeline", Config: cfg, Workers: c.Workers, HeapGB: 8, Timeout: 30 * time.Minute})
	if err != nil {
		return nil, err
	}
	if t.ErrorKind != "" {
		return nil, core.Inconcl("design-level run of Pipeline ended with %s %s (model-only counterexample)\n%s", t.ErrorKind, t.InvViolated, core.Tail(t.Output, 30))
	}
	res.AddTLC(t)
	bin, err := buildCLI(c)
	if err != nil {
		return nil, err
	}
	script, err := os.ReadFile(filepath.Join(core.VerifDir(), "harness", "cmd", "fmtworker", "tool.sh"))
	if err != nil {
		return nil, core.Inconcl("stand-in script: %v", err)
	}
	// which (file, mode) pairs have a non-empty text, and the dart files: asked to the generators directly
	dir, err := os.MkdirTemp(c.Scratch, "pipe-probe-")
	if err != nil {
		return nil, err
	}
	defer os.RemoveAll(dir)
	mod, err := synth.NewModule(dir)
	if err != nil {
		return nil, err
	}
	mod.Write(map[string]string{"p1/defs.go": pipeSrc1, "p2/defs.go": pipeSrc2})
	rels := []string{"p1/defs.go", "p2/defs.go"}
	pkgs, root, err := mod.Load(rels)
	if err != nil {
		return nil, core.Inconcl("pipeline sources do not load: %v", err)
	}
	nonempty := map[string]bool{}
	var anas []*analysis.Analysis
	for i, rel := range rels {
		var ana *analysis.Analysis
		if cl, msg := synth.Guard(func() { ana = analysis.NewAnalysisFromFile(pkgs[i], mod.Abs(rel)) }); cl != synth.OutOK {
			return nil, core.Inconcl("pipeline sources are not analysed: %s", msg)
		}
		anas = append(anas, ana)
		for _, m := range pipeModes {
			if m == "dart" {
				continue
			}
			o := gens.Run(m, pkgs[i], mod.Abs(rel), ana, root)
			if o.Class != synth.OutOK {
				return nil, core.Inconcl("pipeline sources: %s fails: %s", m, o.Msg)
			}
			nonempty[rel+"|"+m] = o.Text != ""
		}
	}
	// the dart files of a run: one per package of the files carrying a dart action, named after the root
	// the tool computes from exactly the files of the run
	dartNames := func(runRels []string, sel []int) ([]string, error) {
		var abs []string
		for _, r := range runRels {
			abs = append(abs, mod.Abs(r))
		}
		ps, rt, err := analysis.LoadSources(abs)
		if err != nil {
			return nil, err
		}
		var as []*analysis.Analysis
		for _, i := range sel {
			var ana *analysis.Analysis
			if cl, msg := synth.Guard(func() { ana = analysis.NewAnalysisFromFile(ps[i], abs[i]) }); cl != synth.OutOK {
				return nil, fmt.Errorf("%s", msg)
			}
			as = append(as, ana)
		}
		names := []string{}
		for _, f := range dart.Generate(rt, as) {
			names = append(names, filepath.Base(f.Filename))
		}
		sort.Strings(names)
		return names, nil
	}
	rng := rand.New(rand.NewSource(c.Seed + 77))
	nRuns := 14
	if c.Thorough() {
		nRuns = 150
	}
	var traces []traceOut
	var runs []pipeRun
	formats := map[string]bool{}
	for k := 0; k < nRuns; k++ {
		run := pipeRun{ID: k + 1, Avail: map[string]string{}, DartOnly: rng.Intn(5) == 0}
		for _, tl := range tools {
			run.Avail[tl] = "ok"
			switch rng.Intn(6) {
			case 0:
				run.Avail[tl] = "missing"
			case 1:
				if k%3 == 0 {
					run.Avail[tl] = "runfail"
				}
			}
		}
		var dartSel []int
		for i, rel := range rels {
			if i == 1 && rng.Intn(4) == 0 {
				continue // a run on a single file
			}
			pf := pipeFile{File: rel}
			perm := rng.Perm(len(pipeModes))
			na := 1 + rng.Intn(len(pipeModes))
			for _, mi := range perm[:na] {
				m := pipeModes[mi]
				a := pipeAction{Mode: m, Out: fmt.Sprintf("f%d_%d%s", i+1, mi, pipeExt[m]), Nonempty: nonempty[rel+"|"+m]}
				if m == "dart" {
					a.Out, a.Nonempty = "x", true
					dartSel = append(dartSel, len(run.Conf)) // index among the files of this run
				}
				pf.Actions = append(pf.Actions, a)
				formats[m] = true
			}
			run.Conf = append(run.Conf, pf)
		}
		run.DartFiles = []string{}
		if len(dartSel) > 0 {
			var runRels []string
			for _, f := range run.Conf {
				runRels = append(runRels, f.File)
			}
			if run.DartFiles, err = dartNames(runRels, dartSel); err != nil {
				return nil, core.Inconcl("pipeline sources: dart: %v", err)
			}
		}
		tr, race, err := pipeOnce(c, bin, string(script), nonempty, run.DartFiles, run)
		if err != nil {
			return nil, err
		}
		if race != "" {
			res.Violations = append(res.Violations, core.Violation{Key: "data race in cmd/gomacro", What: "Go race detector on the command line tool: " + firstLines(race, 14), Replay: run})
			continue
		}
		traces = append(traces, tr)
		runs = append(runs, run)
	}
	rejected, err := validateWith(c, res, "TracePipeline", traces)
	if err != nil {
		return nil, err
	}
	var notReproduced []string
	for i, why := range rejected {
		// reproduce on the real tool before reporting
		again := 0
		for k := 0; k < 6 && again == 0; k++ {
			tr, _, err := pipeOnce(c, bin, string(script), nonempty, runs[i].DartFiles, runs[i])
			if err != nil {
				return nil, err
			}
			rj, err := validateWith(c, &core.Result{}, "TracePipeline", []traceOut{tr})
			if err != nil {
				return nil, err
			}
			if len(rj) > 0 {
				again++
			}
		}
		if again == 0 {
			// a schedule-dependent rejection may not come back on demand: it only makes the run inconclusive when
			// no rejection at all could be confirmed (same rule as for the formatter jobs)
			notReproduced = append(notReproduced, fmt.Sprintf("pipeline run %d rejected (%s) but not reproduced in 6 re-runs\n%s", runs[i].ID, why, strings.Join(traces[i].lines, "\n")))
			continue
		}
		res.Violations = append(res.Violations, core.Violation{Key: "command line tool: " + classOf(why), What: why + " (reproduced)\n" + strings.Join(traces[i].lines, "\n"), Replay: runs[i]})
	}
	if len(notReproduced) > 0 && len(res.Violations) == 0 {
		return nil, core.Inconcl("%s", strings.Join(notReproduced, "; "))
	}
	// negative control: a run whose "Done." line is moved before the last formatter event must be rejected
	for i, tr := range traces {
		if _, bad := rejected[i]; bad {
			continue
		}
		di, ri := -1, -1
		for k, ln := range tr.lines {
			if ln == `{"ev":"done"}` {
				di = k
			}
			if strings.Contains(ln, `"ev":"run_end"`) {
				ri = k
			}
		}
		if di < 0 || ri < 0 {
			continue
		}
		cor := traceOut{}
		for k, ln := range tr.lines {
			if k == di {
				continue
			}
			if k == ri {
				cor.lines = append(cor.lines, `{"ev":"done"}`)
			}
			cor.lines = append(cor.lines, ln)
		}
		rj, err := validateWith(c, &core.Result{}, "TracePipeline", []traceOut{cor})
		if err != nil {
			return nil, err
		}
		if len(rj) == 0 {
			return nil, core.Inconcl("negative control failed: a run printing Done. before its last formatter ended was accepted")
		}
		break
	}
	events := 0
	for _, tr := range traces {
		events += len(tr.lines)
	}
	res.TracesVsImpl += len(traces)
	var fl []string
	for m := range formats {
		fl = append(fl, m)
	}
	sort.Strings(fl)
	return map[string]any{"runs_of_the_real_tool": len(traces), "events": events, "modes": fl, "design_cfg": cfg, "race_detector": "on (cmd/gomacro built with -race)"}, nil
}
