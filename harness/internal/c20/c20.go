// Package c20 checks property C20 (formatter probing) — spec/Formatters*.tla.
package c20

import (
	"bytes"
	"encoding/json"
	"fmt"
	"math/rand"
	"os"
	"os/exec"
	"path/filepath"
	"strings"
	"sync"

	"verif/harness/internal/core"
)

type step struct {
	A    string `json:"a"`
	P    int    `json:"p"`
	Tool string `json:"tool"`
}

type job struct {
	ID    int                 `json:"id"`
	Mode  string              `json:"mode"`
	Avail map[string]string   `json:"avail"`
	Reqs  map[string][]string `json:"reqs,omitempty"`
	Steps []step              `json:"steps,omitempty"`
}

var tools = []string{"go", "dart", "ts", "psql"}
var availDom = []string{"ok", "missing", "runfail"}

type traceOut struct {
	job   job
	lines []string // including the config line
	note  string
}

func buildWorker(c *core.Ctx) (string, error) {
	out := filepath.Join(c.Scratch, "fmtworker")
	cmd := exec.Command("go", "build", "-race", "-tags", "verif", "-o", out, "./cmd/fmtworker")
	cmd.Dir = filepath.Join(core.VerifDir(), "harness")
	cmd.Env = append(os.Environ(), "GOFLAGS=-mod=mod", "GOPROXY=off", "GOSUMDB=off", "GOTOOLCHAIN=local", "CGO_ENABLED=1")
	if b, err := cmd.CombinedOutput(); err != nil {
		return "", core.Inconcl("building fmtworker with -race failed: %v\n%s", err, core.Tail(string(b), 20))
	}
	return out, nil
}

// runJobs distributes jobs over parallel worker processes and returns one trace per job.
func runJobs(c *core.Ctx, worker string, jobs []job, par int) ([]traceOut, []string, error) {
	if par > len(jobs) {
		par = len(jobs)
	}
	if par < 1 {
		par = 1
	}
	chunks := make([][]job, par)
	for i, j := range jobs {
		chunks[i%par] = append(chunks[i%par], j)
	}
	var (
		mu     sync.Mutex
		outs   = map[int]traceOut{}
		races  []string
		firstE error
		wg     sync.WaitGroup
	)
	for k, ch := range chunks {
		wg.Add(1)
		go func(k int, ch []job) {
			defer wg.Done()
			dir, _ := os.MkdirTemp(c.Scratch, "fw-")
			defer os.RemoveAll(dir)
			jf, of := filepath.Join(dir, "jobs.json"), filepath.Join(dir, "out.ndjson")
			b, _ := json.Marshal(ch)
			os.WriteFile(jf, b, 0o644)
			cmd := exec.Command(worker, jf, of, filepath.Join(dir, "work"))
			cmd.Env = append(os.Environ(), "GORACE=halt_on_error=0 exitcode=66")
			var stderr bytes.Buffer
			cmd.Stderr = &stderr
			err := cmd.Run()
			mu.Lock()
			defer mu.Unlock()
			if strings.Contains(stderr.String(), "DATA RACE") {
				races = append(races, core.Tail(stderr.String()[strings.Index(stderr.String(), "WARNING: DATA RACE"):], 40))
			} else if err != nil && firstE == nil {
				firstE = core.Inconcl("fmtworker failed: %v\n%s", err, core.Tail(stderr.String(), 20))
			}
			data, _ := os.ReadFile(of)
			var cur *traceOut
			byID := map[int]job{}
			for _, j := range ch {
				byID[j.ID] = j
			}
			flush := func() {
				if cur != nil {
					outs[cur.job.ID] = *cur
				}
			}
			for _, ln := range strings.Split(string(data), "\n") {
				if ln == "" {
					continue
				}
				if strings.Contains(ln, `"ev":"config"`) {
					flush()
					var m map[string]any
					json.Unmarshal([]byte(ln), &m)
					id := int(m["job"].(float64))
					note, _ := m["note"].(string)
					cur = &traceOut{job: byID[id], note: note}
				}
				if cur != nil {
					cur.lines = append(cur.lines, ln)
				}
			}
			flush()
		}(k, ch)
	}
	wg.Wait()
	if firstE != nil && len(races) == 0 {
		return nil, nil, firstE
	}
	var res []traceOut
	for _, j := range jobs {
		if t, ok := outs[j.ID]; ok {
			res = append(res, t)
		}
	}
	return res, races, nil
}

// validate runs TraceFormatters over the concatenation; returns the indices of rejected traces and
// for each the first unexplained line.
func validate(c *core.Ctx, res *core.Result, traces []traceOut) (map[int]string, error) {
	return validateWith(c, res, "TraceFormatters", traces)
}

// validateWith replays the traces on an acceptance-style trace specification (silent steps, high-water
// mark): a rejected trace is cut out and the rest is replayed again.
func validateWith(c *core.Ctx, res *core.Result, module string, traces []traceOut) (map[int]string, error) {
	rejected := map[int]string{}
	live := make([]int, len(traces))
	for i := range traces {
		live[i] = i
	}
	for round := 0; round < 12 && len(live) > 0; round++ {
		var all []string
		owner := []int{}
		for _, i := range live {
			for _, ln := range traces[i].lines {
				all = append(all, ln)
				owner = append(owner, i)
			}
		}
		tf := filepath.Join(c.Scratch, fmt.Sprintf("%s-trace%d.ndjson", module, round))
		os.WriteFile(tf, []byte(strings.Join(all, "\n")+"\n"), 0o644)
		vf := filepath.Join(c.Scratch, fmt.Sprintf("%s-verdict%d.ndjson", module, round))
		t, err := c.RunTLC(core.TLCOpts{Module: module, Config: module + ".cfg", Workers: 1, DFS: module == "TracePipeline",
			Env: map[string]string{"VERIF_TRACE": tf, "VERIF_OUT": vf}})
		if err != nil {
			return nil, err
		}
		res.AddTLC(t)
		if t.ErrorKind == "invariant" {
			// an invariant of Formatters fails in a state reached by explaining real events:
			// the offending trace is the one containing the high-water mark
		} else if t.ErrorKind != "" {
			return nil, core.Inconcl("%s: TLC error %s\n%s", module, t.ErrorKind, core.Tail(t.Output, 30))
		}
		hwm, n := 0, len(all)
		if vs, err := core.ReadNDJSON(vf); err == nil && len(vs) == 1 {
			hwm = core.Int(vs[0], "hwm")
		} else if t.ErrorKind == "invariant" {
			// postcondition not evaluated after an invariant violation: locate by the length of the error trace
			hwm = strings.Count(t.Output, "\nState ")
			if hwm < 1 {
				hwm = 1
			}
		} else {
			return nil, core.Inconcl("%s wrote no verdict: %v", module, err)
		}
		if t.ErrorKind == "" && hwm == n+1 {
			return rejected, nil
		}
		if hwm > n {
			hwm = n
		}
		bad := owner[hwm-1]
		why := "no behaviour of " + strings.TrimPrefix(module, "Trace") + " explains line: " + all[hwm-1]
		if t.ErrorKind == "invariant" {
			why = "invariant " + t.InvViolated + " violated while replaying the trace"
		}
		rejected[bad] = why
		var next []int
		for _, i := range live {
			if i != bad {
				next = append(next, i)
			}
		}
		live = next
	}
	if len(live) > 0 && len(rejected) >= 12 {
		return rejected, nil
	}
	return rejected, nil
}

func Run(c *core.Ctx, replay string) (*core.Result, error) {
	res := &core.Result{Level: "model_checking"}
	res.Assumptions = []string{
		"memory-level race freedom is decided by the Go race detector on the recorded executions; TLA+ decides everything else",
		"stand-in executables (which, goimports, dart, npx, pg_format) first and alone on PATH log process start/end with O_APPEND; file order is a linearisation consistent with causality",
		"a tool whose probe command fails counts as not installed (that is how the code decides)",
	}
	worker, err := buildWorker(c)
	if err != nil {
		return nil, err
	}
	var jobs []job
	if replay != "" {
		var j job
		if err := core.LoadReplay(replay, &j); err != nil {
			return nil, err
		}
		for i := 0; i < 5; i++ {
			jj := j
			jj.ID = i + 1
			jobs = append(jobs, jj)
		}
	} else {
		// design-level: exhaustive model check
		cfg := "Formatters_quick.cfg"
		if c.Thorough() {
			cfg = "Formatters_thorough.cfg"
		}
		t, err := c.RunTLC(core.TLCOpts{Module: "Formatters", Config: cfg, Workers: c.Workers, HeapGB: 8})
		if err != nil {
			return nil, err
		}
		if t.ErrorKind != "" {
			return nil, core.Inconcl("design-level run of Formatters ended with %s %s (model-only counterexample)\n%s", t.ErrorKind, t.InvViolated, core.Tail(t.Output, 30))
		}
		res.AddTLC(t)
		if c.Thorough() {
			tl, err := c.RunTLC(core.TLCOpts{Module: "Formatters", Config: "Formatters_live.cfg", Workers: c.Workers, HeapGB: 8})
			if err != nil {
				return nil, err
			}
			if tl.ErrorKind != "" {
				return nil, core.Inconcl("liveness run of Formatters ended with %s\n%s", tl.ErrorKind, core.Tail(tl.Output, 30))
			}
			res.AddTLC(tl)
		}
		rng := rand.New(rand.NewSource(c.Seed))
		id := 0
		// every tool configuration, free-running and with the first probes gated
		reps := 1
		if c.Thorough() {
			reps = 6
		}
		for r := 0; r < reps; r++ {
			for a := 0; a < 81; a++ {
				av := map[string]string{}
				x := a
				for _, t := range tools {
					av[t] = availDom[x%3]
					x /= 3
				}
				for _, mode := range []string{"free", "gated"} {
					id++
					n := 3 + rng.Intn(2)
					reqs := map[string][]string{}
					common := tools[rng.Intn(4)]
					for p := 1; p <= n; p++ {
						k := 1 + rng.Intn(3)
						ts := []string{common} // all goroutines race on the same tool first
						for i := 1; i < k; i++ {
							ts = append(ts, tools[rng.Intn(4)])
						}
						reqs[fmt.Sprint(p)] = ts
					}
					jobs = append(jobs, job{ID: id, Mode: mode, Avail: av, Reqs: reqs})
				}
			}
		}
		// schedules generated by TLC (-simulate) from FormattersSched
		nSched := 60
		if c.Thorough() {
			nSched = 1500
		}
		ef := filepath.Join(c.Scratch, "sched.ndjson")
		ts, err := c.RunTLC(core.TLCOpts{Module: "FormattersSched", Config: "FormattersSched.cfg", Workers: 1,
			Simulate: fmt.Sprintf("num=%d", nSched), Depth: 80, Seed: c.Seed, Env: map[string]string{"VERIF_EXPORT": ef}})
		if err != nil {
			return nil, err
		}
		if err := ts.MustClean("FormattersSched"); err != nil {
			return nil, err
		}
		res.AddTLC(ts)
		recs, err := core.ReadNDJSON(ef)
		if err != nil {
			return nil, core.Inconcl("schedule export: %v", err)
		}
		for _, r := range recs {
			id++
			b, _ := json.Marshal(r)
			var j job
			json.Unmarshal(b, &j)
			j.ID, j.Mode = id, "sched"
			jobs = append(jobs, j)
		}
		res.Extra = map[string]any{"schedules_from_tlc": len(recs), "design_cfg": cfg}
	}

	traces, races, err := runJobs(c, worker, jobs, c.Workers)
	if err != nil {
		return nil, err
	}
	if len(traces) != len(jobs) && len(races) == 0 {
		return nil, core.Inconcl("only %d traces for %d jobs", len(traces), len(jobs))
	}
	for _, r := range races {
		res.Violations = append(res.Violations, core.Violation{Key: "data race", What: "Go race detector: " + firstLines(r, 12), Replay: jobs[0]})
	}
	rejected, err := validate(c, res, traces)
	if err != nil {
		return nil, err
	}
	loose := 0
	for i, t := range traces {
		if strings.Contains(t.note, "loosely") {
			loose++
		}
		if strings.Contains(t.note, "deadlock") {
			rejected[i] = "a FormatFile call never returned"
		}
	}
	// reproduce rejections on the real code before reporting
	var notReproduced []string
	for i, why := range rejected {
		if replay != "" {
			res.Violations = append(res.Violations, core.Violation{Key: classOf(why), What: why, Replay: traces[i].job})
			continue
		}
		var again []job
		for k := 0; k < 6; k++ {
			j := traces[i].job
			j.ID = 100000 + k
			again = append(again, j)
		}
		tr2, races2, err := runJobs(c, worker, again, 1)
		if err != nil {
			return nil, err
		}
		rej2, err := validate(c, res, tr2)
		if err != nil {
			return nil, err
		}
		if len(rej2) > 0 || len(races2) > 0 {
			res.Violations = append(res.Violations, core.Violation{Key: classOf(why), What: why + " (reproduced)", Replay: traces[i].job})
		} else {
			notReproduced = append(notReproduced, fmt.Sprintf("trace of job %d rejected (%s) but not reproduced in 6 re-runs", traces[i].job.ID, why))
		}
	}
	// a schedule-dependent rejection may not come back on demand: it only makes the run inconclusive when
	// no rejection at all could be reproduced
	if len(notReproduced) > 0 && len(res.Violations) == 0 {
		return nil, core.Inconcl("%s", strings.Join(notReproduced, "; "))
	}

	// negative control: a corrupted copy of an accepted trace must be rejected (binding is live)
	if replay == "" {
		for i, t := range traces {
			if _, bad := rejected[i]; bad || len(t.lines) < 6 {
				continue
			}
			cor := traceOut{job: t.job}
			done := false
			for _, ln := range t.lines {
				if !done && strings.Contains(ln, `"ev":"return"`) {
					if strings.Contains(ln, `"err":false`) {
						ln = strings.Replace(ln, `"err":false`, `"err":true`, 1)
					} else {
						ln = strings.Replace(ln, `"err":true`, `"err":false`, 1)
					}
					done = true
				}
				cor.lines = append(cor.lines, ln)
			}
			dummy := &core.Result{}
			rj, err := validate(c, dummy, []traceOut{cor})
			if err != nil {
				return nil, err
			}
			if len(rj) == 0 {
				return nil, core.Inconcl("negative control failed: a trace with a corrupted reply was accepted")
			}
			break
		}
	}

	// the call site: the real command line tool with stand-in formatters (Pipeline.tla)
	pipe, err := pipelineStage(c, res, replay)
	if err != nil {
		return nil, err
	}

	events := 0
	kinds := map[string]bool{}
	for i, t := range traces {
		events += len(t.lines)
		sig := fmt.Sprint(t.job.Mode, t.job.Avail, len(t.lines))
		kinds[sig] = true
		if i%97 == 0 {
			res.Sample(map[string]any{"job": t.job, "trace": t.lines})
		}
	}
	res.Evaluations = len(traces)
	res.TracesVsImpl = len(traces)
	res.Nontrivial = len(kinds)
	res.Rule = "one trace per job: all 81 tool configurations x {free-running, first probe gated} with 3-4 goroutines racing on one tool then issuing random requests, plus schedules produced by `tlc -simulate` on FormattersSched and replayed through gates; distinct = (mode, configuration, number of events); every trace has >=2 concurrent goroutines"
	if res.Extra == nil {
		res.Extra = map[string]any{}
	}
	res.Extra["events"] = events
	res.Extra["schedules_followed_loosely"] = loose
	res.Extra["race_detector"] = "on (worker built with -race)"
	res.Extra["pipeline"] = pipe
	return res, nil
}

func classOf(why string) string {
	switch {
	case strings.Contains(why, "invariant"):
		return why[:strings.Index(why, " violated")]
	case strings.Contains(why, "never returned"):
		return "request never returns"
	}
	for _, ev := range []string{"probe_start", "probe_end", "run_start", "run_end", "return", "call"} {
		if strings.Contains(why, `"ev":"`+ev+`"`) {
			return "unexplained " + ev
		}
	}
	return "trace rejected"
}

func firstLines(s string, n int) string {
	ls := strings.Split(s, "\n")
	if len(ls) > n {
		ls = ls[:n]
	}
	return strings.Join(ls, " | ")
}
