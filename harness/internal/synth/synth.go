// Package synth writes synthesised Go programs into scratch modules and loads them with the
// real analysis.LoadSources.
package synth

import (
	"fmt"
	"os"
	"path/filepath"
	"sort"
	"strings"

	"github.com/benoitkugler/gomacro/analysis"
	"golang.org/x/tools/go/packages"
)

// ModRoot is the import path prefix of every synthesised package: the PkgSelector of gomacro keeps
// the first two chunks, so all packages of a scratch module count as "user written".
const ModRoot = "verif.test/org"

// Module is a scratch Go module.
type Module struct {
	Dir string // absolute; contains go.mod
}

// NewModule creates <base>/go/src/verif.test/org with a go.mod for ModRoot.
func NewModule(base string) (*Module, error) {
	dir := filepath.Join(base, "go", "src", "verif.test", "org") // GOPATH-like: the import path is the path below go/src
	if err := os.MkdirAll(dir, 0o755); err != nil {
		return nil, err
	}
	gomod := "module " + ModRoot + "\n\ngo 1.23\n"
	if err := os.WriteFile(filepath.Join(dir, "go.mod"), []byte(gomod), 0o644); err != nil {
		return nil, err
	}
	return &Module{Dir: dir}, nil
}

// Write writes files given by path relative to the module root.
func (m *Module) Write(files map[string]string) error {
	for rel, content := range files {
		p := filepath.Join(m.Dir, rel)
		if err := os.MkdirAll(filepath.Dir(p), 0o755); err != nil {
			return err
		}
		if err := os.WriteFile(p, []byte(content), 0o644); err != nil {
			return err
		}
	}
	return nil
}

func (m *Module) Abs(rel string) string { return filepath.Join(m.Dir, rel) }

// Load loads the packages containing the given files (relative to the module root) with the real loader.
func (m *Module) Load(rels []string) ([]*packages.Package, string, error) {
	abs := make([]string, len(rels))
	for i, r := range rels {
		abs[i] = m.Abs(r)
	}
	return analysis.LoadSources(abs)
}

// SortedKeys returns the keys of a string map in order.
func SortedKeys[V any](m map[string]V) []string {
	out := make([]string, 0, len(m))
	for k := range m {
		out = append(out, k)
	}
	sort.Strings(out)
	return out
}

// GoQuote renders a Go string literal.
func GoQuote(s string) string { return fmt.Sprintf("%q", s) }

// Indent prefixes every line with a tab.
func Indent(s string) string {
	lines := strings.Split(strings.TrimRight(s, "\n"), "\n")
	for i, l := range lines {
		lines[i] = "\t" + l
	}
	return strings.Join(lines, "\n") + "\n"
}

// Outcome classes of running real code in isolation (C18 vocabulary, used by every family).
const (
	OutOK      = "ok"
	OutDiag    = "diag"    // panic carrying a string / non-runtime error: gomacro's way of refusing input
	OutRuntime = "runtime" // panic carrying a runtime.Error
)

// Guard runs f and classifies a panic.
func Guard(f func()) (class string, msg string) {
	defer func() {
		if r := recover(); r != nil {
			msg = fmt.Sprint(r)
			if _, isRuntime := r.(interface{ RuntimeError() }); isRuntime {
				class = OutRuntime
			} else {
				class = OutDiag
			}
		}
	}()
	f()
	return OutOK, ""
}
