package zcrud

import _ "embed"

// Source is the text of the engine, written into scratch modules.
//
//go:embed engine.go
var Source string
