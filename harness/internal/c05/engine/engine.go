// Package zcrud is the generic part of the C05 driver compiled into scratch modules next to the
// generated CRUD code: it builds random rows by reflection (inside what the SQL types can hold),
// calls the generated functions through the table descriptors the per-package driver registers,
// and logs one event per call: arguments, canonical rows returned, error class.
package zcrud

import (
	"database/sql"
	"encoding/json"
	"errors"
	"fmt"
	"io"
	"math/rand"
	"reflect"
	"sort"
	"strconv"
	"strings"
	"time"
)

type ColMeta struct {
	Field    string   `json:"field"`
	Col      string   `json:"col"`
	FK       string   `json:"fk"` // Go name of the target table, "" if none
	OnDelete string   `json:"ondelete"`
	Nullable bool     `json:"nullable"`
	Enum     []string `json:"enum"` // allowed values as Go literals without quotes; empty: not an enum
	Date     bool     `json:"date"`
}

type TableMeta struct {
	Go      string     `json:"go"`
	SQL     string     `json:"sql"`
	IDField string     `json:"idfield"` // "" for link tables
	Cols    []ColMeta  `json:"cols"`    // the columns read and written by the CRUD code, in field order, without the ID
	Uniques [][]string `json:"uniques"` // field names
	Keys    [][]string `json:"keys"`
	UniqFK  []string   `json:"uniqfk"`  // foreign key fields carrying a UNIQUE constraint
	Queries [][]string `json:"queries"` // custom queries: name, set field, where field
}

type Table struct {
	Go    string
	New   func() any // pointer to a zero item
	Funcs map[string]any
}

type Package struct {
	Tables []Table
}

type Event struct {
	Ev    string      `json:"ev"`
	Op    string      `json:"op"`
	Fn    string      `json:"fn"`
	Table string      `json:"table"`
	Cols  []string    `json:"cols"` // field names of a by-columns operation
	Row   []string    `json:"row"`  // canonical argument row (columns of Cols meta order)
	Rows  [][]string  `json:"rows"` // argument rows (InsertMany)
	ID    int64       `json:"id"`   // argument id
	IDs   []int64     `json:"ids"`  // argument ids
	Vals  []string    `json:"vals"` // argument values of a by-columns operation (canonical)
	Err   string      `json:"err"`  // "" | norows | unique | fk | check | notnull | other
	Msg   string      `json:"msg"`
	Found bool        `json:"found"`
	Out   []OutRow    `json:"out"`            // rows returned
	OutID []int64     `json:"outids"`         // ids returned
	Meta  []TableMeta `json:"meta,omitempty"` // reset event
	Case  int         `json:"case"`
	Seed  int64       `json:"seed"`
}

type OutRow struct {
	ID int64    `json:"id"`
	C  []string `json:"c"`
}

type session struct {
	pkg   Package
	meta  []TableMeta
	db    *sql.DB
	rng   *rand.Rand
	w     io.Writer
	ids   map[string][]int64 // ids ever returned by Insert, per table (some may be deleted since)
	case_ int
	seed  int64
	dbT   reflect.Type
}

func (s *session) emit(e Event) {
	e.Case, e.Seed = s.case_, s.seed
	if e.IDs == nil {
		e.IDs = []int64{}
	}
	if e.Cols == nil {
		e.Cols = []string{}
	}
	if e.Row == nil {
		e.Row = []string{}
	}
	if e.Rows == nil {
		e.Rows = [][]string{}
	}
	if e.Vals == nil {
		e.Vals = []string{}
	}
	if e.Out == nil {
		e.Out = []OutRow{}
	}
	if e.OutID == nil {
		e.OutID = []int64{}
	}
	b, _ := json.Marshal(e)
	s.w.Write(append(b, '\n'))
}

func classify(err error) (string, string) {
	if err == nil {
		return "", ""
	}
	if errors.Is(err, sql.ErrNoRows) {
		return "norows", ""
	}
	m := err.Error()
	switch {
	case strings.Contains(m, "unique constraint"):
		return "unique", m
	case strings.Contains(m, "foreign key constraint"):
		return "fk", m
	case strings.Contains(m, "check constraint"):
		return "check", m
	case strings.Contains(m, "not-null constraint"):
		return "notnull", m
	}
	return "other", m
}

func (s *session) metaOf(goName string) *TableMeta {
	for i := range s.meta {
		if s.meta[i].Go == goName {
			return &s.meta[i]
		}
	}
	return nil
}

func (s *session) tableOf(goName string) *Table {
	for i := range s.pkg.Tables {
		if s.pkg.Tables[i].Go == goName {
			return &s.pkg.Tables[i]
		}
	}
	return nil
}

// ---------------------------------------------------------------- canonical rows

func isNullable(t reflect.Type) (dataField int, ok bool) {
	if t.Kind() != reflect.Struct || t.NumField() != 2 {
		return 0, false
	}
	for i := 0; i < 2; i++ {
		if t.Field(i).Name == "Valid" && t.Field(i).Type.Kind() == reflect.Bool {
			return 1 - i, true
		}
	}
	return 0, false
}

var timeT = reflect.TypeOf(time.Time{})

func canonValue(v reflect.Value) string {
	t := v.Type()
	if t.ConvertibleTo(timeT) && t.Kind() == reflect.Struct {
		return v.Convert(timeT).Interface().(time.Time).UTC().Format(time.RFC3339)
	}
	if df, ok := isNullable(t); ok {
		if !v.Field(1 - df).Bool() {
			return "NULL"
		}
		return canonValue(v.Field(df))
	}
	switch t.Kind() {
	case reflect.Int, reflect.Int8, reflect.Int16, reflect.Int32, reflect.Int64:
		return strconv.FormatInt(v.Int(), 10)
	case reflect.Uint, reflect.Uint8, reflect.Uint16, reflect.Uint32, reflect.Uint64:
		return strconv.FormatUint(v.Uint(), 10)
	case reflect.String:
		return "s:" + v.String()
	case reflect.Bool:
		return strconv.FormatBool(v.Bool())
	case reflect.Float32, reflect.Float64:
		return strconv.FormatFloat(v.Float(), 'g', -1, 64)
	}
	if t.Kind() == reflect.Slice {
		if t.Elem().Kind() == reflect.Uint8 {
			return fmt.Sprintf("b:%x", v.Bytes()) // bytea: nil and empty are the same value
		}
		if v.IsNil() {
			return "[]" // a nil Go slice and an empty one are the same row value (NULL array read back as empty)
		}
	}
	b, err := json.Marshal(v.Interface())
	if err != nil {
		return "!" + err.Error()
	}
	return string(b)
}

func (s *session) canonRow(m *TableMeta, item reflect.Value) []string {
	out := make([]string, len(m.Cols))
	for i, c := range m.Cols {
		out[i] = canonValue(item.FieldByName(c.Field))
	}
	return out
}

func (s *session) idOf(m *TableMeta, item reflect.Value) int64 {
	if m.IDField == "" {
		return 0
	}
	return item.FieldByName(m.IDField).Int()
}

func (s *session) outRow(m *TableMeta, item reflect.Value) OutRow {
	return OutRow{ID: s.idOf(m, item), C: s.canonRow(m, item)}
}

// ---------------------------------------------------------------- random values

var words = []string{"", "a", "b", "hello", "it's", "two words", "é€", "x\"y", "NULL", "{}", "(1,2)", "a,b", "back\\slash"}

func (s *session) fill(v reflect.Value, depth int) {
	t := v.Type()
	if t.ConvertibleTo(timeT) && t.Kind() == reflect.Struct {
		tm := time.Date(2000+s.rng.Intn(40), time.Month(1+s.rng.Intn(12)), 1+s.rng.Intn(28), s.rng.Intn(24), s.rng.Intn(60), s.rng.Intn(60), 0, time.UTC)
		v.Set(reflect.ValueOf(tm).Convert(t))
		return
	}
	if df, ok := isNullable(t); ok {
		if s.rng.Intn(3) == 0 {
			v.Set(reflect.Zero(t))
			return
		}
		v.Field(1 - df).SetBool(true)
		s.fill(v.Field(df), depth+1)
		return
	}
	switch t.Kind() {
	case reflect.Int8:
		v.SetInt(int64(s.rng.Intn(256) - 128))
	case reflect.Int16:
		v.SetInt(int64(s.rng.Intn(65536) - 32768))
	case reflect.Int, reflect.Int32, reflect.Int64:
		switch s.rng.Intn(6) {
		case 0:
			v.SetInt(2147483647)
		case 1:
			v.SetInt(-2147483648)
		default:
			v.SetInt(int64(s.rng.Intn(2001) - 1000))
		}
	case reflect.Uint8:
		v.SetUint(uint64(s.rng.Intn(256)))
	case reflect.Uint16:
		v.SetUint(uint64([]int{0, 1, 255, 256, 32767, 32768, 65535}[s.rng.Intn(7)]))
	case reflect.Uint, reflect.Uint32, reflect.Uint64:
		v.SetUint(uint64(s.rng.Intn(100000)))
	case reflect.String:
		v.SetString(words[s.rng.Intn(len(words))])
	case reflect.Bool:
		v.SetBool(s.rng.Intn(2) == 0)
	case reflect.Float32, reflect.Float64:
		v.SetFloat(float64(s.rng.Intn(81)-40) / 4)
	case reflect.Slice:
		switch s.rng.Intn(4) {
		case 0:
			v.Set(reflect.Zero(t))
		case 1:
			v.Set(reflect.MakeSlice(t, 0, 0))
		default:
			n := 1 + s.rng.Intn(3)
			sl := reflect.MakeSlice(t, n, n)
			for i := 0; i < n; i++ {
				s.fill(sl.Index(i), depth+1)
			}
			v.Set(sl)
		}
	case reflect.Array:
		for i := 0; i < t.Len(); i++ {
			s.fill(v.Index(i), depth+1)
		}
	case reflect.Map:
		if s.rng.Intn(3) == 0 {
			v.Set(reflect.Zero(t))
			return
		}
		m := reflect.MakeMap(t)
		for i := s.rng.Intn(3); i > 0; i-- {
			k := reflect.New(t.Key()).Elem()
			s.fill(k, depth+1)
			e := reflect.New(t.Elem()).Elem()
			s.fill(e, depth+1)
			m.SetMapIndex(k, e)
		}
		v.Set(m)
	case reflect.Struct:
		for i := 0; i < t.NumField(); i++ {
			if t.Field(i).IsExported() {
				s.fill(v.Field(i), depth+1)
			}
		}
	}
}

func setEnum(v reflect.Value, lit string) {
	switch v.Kind() {
	case reflect.String:
		v.SetString(lit)
	case reflect.Int, reflect.Int8, reflect.Int16, reflect.Int32, reflect.Int64:
		n, _ := strconv.ParseInt(lit, 10, 64)
		v.SetInt(n)
	default:
		n, _ := strconv.ParseUint(lit, 10, 64)
		v.SetUint(n)
	}
}

// fillEnums overrides enum typed leaves (by Go type name) so that they carry declared values.
func (s *session) fixEnums(v reflect.Value, enums map[string][]string) {
	t := v.Type()
	if vals, ok := enums[t.String()]; ok && len(vals) > 0 {
		setEnum(v, vals[s.rng.Intn(len(vals))])
		return
	}
	switch t.Kind() {
	case reflect.Slice, reflect.Array:
		for i := 0; i < v.Len(); i++ {
			s.fixEnums(v.Index(i), enums)
		}
	case reflect.Struct:
		if t.ConvertibleTo(timeT) {
			return
		}
		for i := 0; i < t.NumField(); i++ {
			if t.Field(i).IsExported() {
				s.fixEnums(v.Field(i), enums)
			}
		}
	}
}

func (s *session) pickID(table string, mostlyLive bool) int64 {
	ids := s.ids[table]
	if len(ids) == 0 || (!mostlyLive && s.rng.Intn(4) == 0) || s.rng.Intn(25) == 0 {
		return int64(90 + s.rng.Intn(5)) // an id that never exists
	}
	return ids[s.rng.Intn(len(ids))]
}

func (s *session) setFK(f reflect.Value, id int64, null bool) {
	t := f.Type()
	if df, ok := isNullable(t); ok {
		if null {
			f.Set(reflect.Zero(t))
			return
		}
		f.Field(1 - df).SetBool(true)
		f.Field(df).SetInt(id)
		return
	}
	f.SetInt(id)
}

// newItem builds a random item of the table; foreign keys mostly point to existing rows.
func (s *session) newItem(m *TableMeta, enums map[string][]string) reflect.Value {
	ptr := reflect.ValueOf(s.tableOf(m.Go).New())
	item := ptr.Elem()
	for _, c := range m.Cols {
		f := item.FieldByName(c.Field)
		s.fill(f, 0)
		s.fixEnums(f, enums)
		if c.Date {
			tm := f.Convert(timeT).Interface().(time.Time)
			f.Set(reflect.ValueOf(time.Date(tm.Year(), tm.Month(), tm.Day(), 0, 0, 0, 0, time.UTC)).Convert(f.Type()))
		}
		if c.FK != "" {
			s.setFK(f, s.pickID(c.FK, true), c.Nullable && s.rng.Intn(3) == 0)
		}
	}
	return item
}

// ---------------------------------------------------------------- calls

func (s *session) call(fn any, args ...any) []reflect.Value {
	f := reflect.ValueOf(fn)
	ft := f.Type()
	in := make([]reflect.Value, 0, len(args))
	for i, a := range args {
		var want reflect.Type
		if ft.IsVariadic() && i >= ft.NumIn()-1 {
			want = ft.In(ft.NumIn() - 1).Elem()
		} else {
			want = ft.In(i)
		}
		av, isV := a.(reflect.Value)
		if !isV {
			av = reflect.ValueOf(a)
		}
		if av.Type() != want && av.Type().ConvertibleTo(want) && want.Kind() != reflect.Interface {
			av = av.Convert(want)
		}
		in = append(in, av)
	}
	return f.Call(in)
}

func errOf(v reflect.Value) error {
	if v.IsNil() {
		return nil
	}
	return v.Interface().(error)
}

// collect turns a returned map / slice of items into canonical rows.
func (s *session) collect(m *TableMeta, v reflect.Value) []OutRow {
	var out []OutRow
	switch v.Kind() {
	case reflect.Map:
		it := v.MapRange()
		for it.Next() {
			r := s.outRow(m, it.Value())
			if it.Key().Int() != r.ID {
				r.C = append(r.C, fmt.Sprintf("!map key %d", it.Key().Int()))
			}
			out = append(out, r)
		}
	case reflect.Slice:
		for i := 0; i < v.Len(); i++ {
			out = append(out, s.outRow(m, v.Index(i)))
		}
	}
	sort.Slice(out, func(i, j int) bool {
		if out[i].ID != out[j].ID {
			return out[i].ID < out[j].ID
		}
		return strings.Join(out[i].C, "\x00") < strings.Join(out[j].C, "\x00")
	})
	return out
}

func idList(v reflect.Value) []int64 {
	out := []int64{}
	for i := 0; i < v.Len(); i++ {
		out = append(out, v.Index(i).Int())
	}
	sort.Slice(out, func(i, j int) bool { return out[i] < out[j] })
	return out
}

func (s *session) someIDs(table string) []int64 {
	n := s.rng.Intn(4)
	out := []int64{}
	for i := 0; i < n; i++ {
		out = append(out, s.pickID(table, false))
	}
	return out
}

func (s *session) step(enums map[string][]string, force *TableMeta) {
	m := &s.meta[s.rng.Intn(len(s.meta))]
	if force != nil {
		m = force
	}
	t := s.tableOf(m.Go)
	var ops []string
	for k := range t.Funcs {
		ops = append(ops, k)
	}
	sort.Strings(ops)
	if m.IDField == "" {
		ops = append(ops, "Delete", "Delete", "Delete", "InsertMany") // rarer otherwise: link tables have many by-key helpers
	}
	for _, k := range ops {
		if strings.HasPrefix(k, "Query/") || strings.HasPrefix(k, "SelectByUnique/") || strings.HasPrefix(k, "SelectByUniqueFK/") || strings.HasPrefix(k, "DeleteByKeys/") || strings.HasPrefix(k, "SelectByKeys/") {
			ops = append(ops, k, k, k, k) // the helpers derived from comment directives exist in few tables
		}
	}
	// inserts are more frequent
	op := ops[s.rng.Intn(len(ops))]
	if s.rng.Intn(3) == 0 || force != nil {
		op = "Insert"
	}
	fn := t.Funcs[op]
	base, arg := op, ""
	if i := strings.IndexByte(op, '/'); i >= 0 {
		base, arg = op[:i], op[i+1:]
	}
	ev := Event{Ev: "call", Op: base, Fn: op, Table: m.Go}
	fields := strings.Split(arg, "And")
	colOf := func(field string) *ColMeta {
		for i := range m.Cols {
			if m.Cols[i].Field == field {
				return &m.Cols[i]
			}
		}
		return nil
	}
	// values for a by-columns operation: mostly taken from a fresh random item, sometimes from a stored one
	colArgs := func() ([]any, []string) {
		item := s.newItem(m, enums)
		if all := s.call(t.Funcs["SelectAll"], s.db); errOf(all[1]) == nil && all[0].Len() > 0 && s.rng.Intn(3) != 0 {
			rows := all[0]
			if rows.Kind() == reflect.Map {
				keys := rows.MapKeys()
				sort.Slice(keys, func(i, j int) bool { return keys[i].Int() < keys[j].Int() })
				item = rows.MapIndex(keys[s.rng.Intn(len(keys))])
			} else {
				item = rows.Index(s.rng.Intn(rows.Len()))
			}
		}
		var args []any
		var vals []string
		for _, f := range fields {
			fv := item.FieldByName(f)
			args = append(args, fv)
			vals = append(vals, canonValue(fv))
		}
		return args, vals
	}
	switch base {
	case "Insert":
		item := s.newItem(m, enums)
		ev.Row = s.canonRow(m, item)
		if m.IDField != "" {
			res := s.call(fn, item, s.db)
			ev.Err, ev.Msg = classify(errOf(res[1]))
			if ev.Err == "" {
				ev.Out = []OutRow{s.outRow(m, res[0])}
				s.ids[m.Go] = append(s.ids[m.Go], ev.Out[0].ID)
			}
		} else {
			res := s.call(fn, item, s.db)
			ev.Err, ev.Msg = classify(errOf(res[0]))
		}
	case "InsertMany":
		n := s.rng.Intn(4)
		args := []any{}
		for i := 0; i < n; i++ {
			item := s.newItem(m, enums)
			ev.Rows = append(ev.Rows, s.canonRow(m, item))
			args = append(args, item)
		}
		if ev.Rows == nil {
			ev.Rows = [][]string{}
		}
		tx, err := s.db.Begin()
		if err != nil {
			panic(err)
		}
		res := s.call(fn, append([]any{tx}, args...)...)
		err = errOf(res[0])
		if err != nil {
			tx.Rollback()
		} else if err = tx.Commit(); err != nil {
			panic(err)
		}
		ev.Err, ev.Msg = classify(err)
	case "Update":
		item := s.newItem(m, enums)
		ev.ID = s.pickID(m.Go, true)
		item.FieldByName(m.IDField).SetInt(ev.ID)
		ev.Row = s.canonRow(m, item)
		res := s.call(fn, item, s.db)
		ev.Err, ev.Msg = classify(errOf(res[1]))
		if ev.Err == "" {
			ev.Out = []OutRow{s.outRow(m, res[0])}
		}
	case "Select", "DeleteById":
		ev.ID = s.pickID(m.Go, base == "Select")
		res := s.call(fn, s.db, ev.ID)
		ev.Err, ev.Msg = classify(errOf(res[1]))
		if ev.Err == "" {
			ev.Out = []OutRow{s.outRow(m, res[0])}
		}
	case "SelectMany":
		ev.IDs = s.someIDs(m.Go)
		args := []any{s.db}
		for _, id := range ev.IDs {
			args = append(args, id)
		}
		res := s.call(fn, args...)
		ev.Err, ev.Msg = classify(errOf(res[1]))
		ev.Out = s.collect(m, res[0])
	case "SelectAll":
		res := s.call(fn, s.db)
		ev.Err, ev.Msg = classify(errOf(res[1]))
		ev.Out = s.collect(m, res[0])
	case "DeleteByIDs":
		ev.IDs = s.someIDs(m.Go)
		args := []any{s.db}
		for _, id := range ev.IDs {
			args = append(args, id)
		}
		res := s.call(fn, args...)
		ev.Err, ev.Msg = classify(errOf(res[1]))
		if ev.Err == "" {
			ev.OutID = idList(res[0])
		}
	case "SelectByFK", "DeleteByFK":
		c := colOf(arg)
		ev.Cols = []string{arg}
		ev.IDs = s.someIDs(c.FK)
		args := []any{s.db}
		for _, id := range ev.IDs {
			args = append(args, id)
		}
		res := s.call(fn, args...)
		ev.Err, ev.Msg = classify(errOf(res[1]))
		if ev.Err == "" {
			if base == "DeleteByFK" && m.IDField != "" {
				ev.OutID = idList(res[0])
			} else {
				ev.Out = s.collect(m, res[0])
			}
		}
	case "SelectByUniqueFK":
		c := colOf(arg)
		ev.Cols = []string{arg}
		ev.ID = s.pickID(c.FK, true)
		res := s.call(fn, s.db, ev.ID)
		ev.Err, ev.Msg = classify(errOf(res[2]))
		ev.Found = res[1].Bool()
		if ev.Err == "" && ev.Found {
			ev.Out = []OutRow{s.outRow(m, res[0])}
		}
	case "SelectByUnique":
		ev.Cols = fields
		args, vals := colArgs()
		ev.Vals = vals
		res := s.call(fn, append([]any{s.db}, args...)...)
		ev.Err, ev.Msg = classify(errOf(res[2]))
		ev.Found = res[1].Bool()
		if ev.Err == "" && ev.Found {
			ev.Out = []OutRow{s.outRow(m, res[0])}
		}
	case "SelectByKeys", "DeleteByKeys":
		ev.Cols = fields
		args, vals := colArgs()
		ev.Vals = vals
		res := s.call(fn, append([]any{s.db}, args...)...)
		ev.Err, ev.Msg = classify(errOf(res[1]))
		if ev.Err == "" {
			ev.Out = s.collect(m, res[0])
		}
	case "Query": // custom query  UPDATE t SET <set> = $v$ WHERE <where> = $w$ : arg = Name/SetField/WhereField
		parts := strings.Split(arg, "/")
		ev.Cols = []string{parts[1], parts[2]}
		fields = []string{parts[1]}
		setArgs, setVals := colArgs()
		fields = []string{parts[2]}
		whereArgs, whereVals := colArgs()
		ev.Vals = []string{setVals[0], whereVals[0]}
		res := s.call(fn, s.db, setArgs[0], whereArgs[0])
		ev.Err, ev.Msg = classify(errOf(res[0]))
	case "Delete": // link tables: by the foreign keys of the item
		item := s.newItem(m, enums)
		if all := s.call(t.Funcs["SelectAll"], s.db); errOf(all[1]) == nil && all[0].Len() > 0 && s.rng.Intn(4) != 0 {
			stored := all[0].Index(s.rng.Intn(all[0].Len()))
			if s.rng.Intn(3) == 0 {
				// a near miss: a stored link with ONE of its keys changed (it is another link: nothing must go)
				near := reflect.New(stored.Type()).Elem()
				near.Set(stored)
				var keys []int
				for i, c := range m.Cols {
					if c.FK != "" {
						keys = append(keys, i)
					}
				}
				if len(keys) > 0 {
					c := m.Cols[keys[s.rng.Intn(len(keys))]]
					s.setFK(near.FieldByName(c.Field), s.pickID(c.FK, true), false)
				}
				item = near
			} else {
				item = stored
			}
		}
		ev.Row = s.canonRow(m, item)
		res := s.call(fn, item, s.db)
		ev.Err, ev.Msg = classify(errOf(res[0]))
	default:
		panic("zcrud: unknown operation " + op)
	}
	s.emit(ev)
}

// Run executes nOps random calls against a fresh database and writes the events to w.
func Run(pkg Package, meta []TableMeta, enums map[string][]string, db *sql.DB, w io.Writer, case_ int, seed int64, nOps int) {
	s := &session{pkg: pkg, meta: meta, db: db, rng: rand.New(rand.NewSource(seed)), w: w, ids: map[string][]int64{}, case_: case_, seed: seed}
	s.emit(Event{Ev: "reset", Meta: meta})
	// warm-up: two rows per table, in declaration order (targets of foreign keys first)
	for k := 0; k < 2; k++ {
		for i := range s.meta {
			s.step(enums, &s.meta[i])
		}
	}
	for i := 0; i < nOps; i++ {
		s.step(enums, nil)
	}
	// final observation of every table
	for i := range s.meta {
		m := &s.meta[i]
		res := s.call(s.tableOf(m.Go).Funcs["SelectAll"], s.db)
		ev := Event{Ev: "call", Op: "SelectAll", Table: m.Go}
		ev.Err, ev.Msg = classify(errOf(res[1]))
		ev.Out = s.collect(m, res[0])
		s.emit(ev)
	}
}

// ---------------------------------------------------------------- scripted sessions (spec -> code)

// ScriptStep is one step of a behaviour of spec/CrudReplay.tla, in the vocabulary of the model file:
// ids are the ABSTRACT ids of the specification (the driver keeps the correspondence with the ids the
// database hands out, which differ as soon as an insert was refused: a sequence value is not given back).
type ScriptStep struct {
	Op    string         `json:"op"` // insert | update | delete | unlink
	Table string         `json:"t"`
	C     []string       `json:"c"`   // canonical column values, foreign keys as abstract ids
	ID    int64          `json:"id"`  // insert: the abstract id the row gets if accepted; update: the row's abstract id
	IDs   []int64        `json:"ids"` // delete: abstract ids
	Last  string         `json:"last"`
	Sizes map[string]int `json:"sizes"`
}

// setCanon stores a canonical value (the vocabulary of the replay model file: strings, integers) into a field.
func setCanon(f reflect.Value, v string) {
	switch f.Kind() {
	case reflect.String:
		f.SetString(strings.TrimPrefix(v, "s:"))
	case reflect.Int, reflect.Int8, reflect.Int16, reflect.Int32, reflect.Int64:
		n, err := strconv.ParseInt(v, 10, 64)
		if err != nil {
			panic("zcrud: script value " + v + " is not an integer")
		}
		f.SetInt(n)
	default:
		panic("zcrud: script value for unsupported field kind " + f.Kind().String())
	}
}

// RunScript steps the generated functions through one exported behaviour against a fresh database; after every
// step all tables are read back.  The events are those of Run (judged by TraceCrud).
func RunScript(pkg Package, meta []TableMeta, db *sql.DB, w io.Writer, case_ int, script int, steps []ScriptStep) {
	s := &session{pkg: pkg, meta: meta, db: db, rng: rand.New(rand.NewSource(1)), w: w, ids: map[string][]int64{}, case_: case_, seed: int64(script)}
	s.emit(Event{Ev: "reset", Meta: meta})
	real := map[string]map[int64]int64{} // table -> abstract id -> database id
	realID := func(table string, abs int64) int64 {
		if r, ok := real[table][abs]; ok {
			return r
		}
		return 900 + abs // never handed out
	}
	build := func(m *TableMeta, c []string) reflect.Value {
		item := reflect.ValueOf(s.tableOf(m.Go).New()).Elem()
		for i, col := range m.Cols {
			f := item.FieldByName(col.Field)
			if col.FK != "" {
				if c[i] == "NULL" {
					s.setFK(f, 0, true)
				} else {
					abs, _ := strconv.ParseInt(c[i], 10, 64)
					s.setFK(f, realID(col.FK, abs), false)
				}
				continue
			}
			setCanon(f, c[i])
		}
		return item
	}
	for _, st := range steps {
		m := s.metaOf(st.Table)
		t := s.tableOf(st.Table)
		switch st.Op {
		case "insert":
			item := build(m, st.C)
			ev := Event{Ev: "call", Op: "Insert", Fn: "Insert", Table: m.Go, Row: s.canonRow(m, item)}
			if m.IDField != "" {
				res := s.call(t.Funcs["Insert"], item, s.db)
				ev.Err, ev.Msg = classify(errOf(res[1]))
				if ev.Err == "" {
					ev.Out = []OutRow{s.outRow(m, res[0])}
					if real[m.Go] == nil {
						real[m.Go] = map[int64]int64{}
					}
					real[m.Go][st.ID] = ev.Out[0].ID
				}
			} else {
				res := s.call(t.Funcs["Insert"], item, s.db)
				ev.Err, ev.Msg = classify(errOf(res[0]))
			}
			s.emit(ev)
		case "update":
			item := build(m, st.C)
			ev := Event{Ev: "call", Op: "Update", Fn: "Update", Table: m.Go, ID: realID(m.Go, st.ID)}
			item.FieldByName(m.IDField).SetInt(ev.ID)
			ev.Row = s.canonRow(m, item)
			res := s.call(t.Funcs["Update"], item, s.db)
			ev.Err, ev.Msg = classify(errOf(res[1]))
			if ev.Err == "" {
				ev.Out = []OutRow{s.outRow(m, res[0])}
			}
			s.emit(ev)
		case "delete":
			ev := Event{Ev: "call", Op: "DeleteByIDs", Fn: "DeleteByIDs", Table: m.Go}
			args := []any{s.db}
			for _, abs := range st.IDs {
				ev.IDs = append(ev.IDs, realID(m.Go, abs))
				args = append(args, realID(m.Go, abs))
			}
			res := s.call(t.Funcs["DeleteByIDs"], args...)
			ev.Err, ev.Msg = classify(errOf(res[1]))
			if ev.Err == "" {
				ev.OutID = idList(res[0])
			}
			s.emit(ev)
		case "unlink":
			item := build(m, st.C)
			ev := Event{Ev: "call", Op: "Delete", Fn: "Delete", Table: m.Go, Row: s.canonRow(m, item)}
			res := s.call(t.Funcs["Delete"], item, s.db)
			ev.Err, ev.Msg = classify(errOf(res[0]))
			s.emit(ev)
		case "delkey": // st.C[0] is the key field, st.IDs abstract ids of the table it points to
			var col *ColMeta
			for i := range m.Cols {
				if m.Cols[i].Field == st.C[0] {
					col = &m.Cols[i]
				}
			}
			ev := Event{Ev: "call", Op: "DeleteByFK", Fn: "DeleteByFK/" + st.C[0], Table: m.Go, Cols: []string{st.C[0]}}
			args := []any{s.db}
			for _, abs := range st.IDs {
				ev.IDs = append(ev.IDs, realID(col.FK, abs))
				args = append(args, realID(col.FK, abs))
			}
			res := s.call(t.Funcs["DeleteByFK/"+st.C[0]], args...)
			ev.Err, ev.Msg = classify(errOf(res[1]))
			if ev.Err == "" {
				if m.IDField != "" {
					ev.OutID = idList(res[0])
				} else {
					ev.Out = s.collect(m, res[0])
				}
			}
			s.emit(ev)
		default:
			panic("zcrud: unknown script operation " + st.Op)
		}
		for i := range s.meta {
			mm := &s.meta[i]
			res := s.call(s.tableOf(mm.Go).Funcs["SelectAll"], s.db)
			ev := Event{Ev: "call", Op: "SelectAll", Fn: "SelectAll", Table: mm.Go}
			ev.Err, ev.Msg = classify(errOf(res[1]))
			ev.Out = s.collect(mm, res[0])
			s.emit(ev)
		}
	}
}
