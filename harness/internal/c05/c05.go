// Package c05 checks property C05 (generated CRUD code agrees with the generated schema and behaves
// like the map model) — spec/CrudDef.tla, CrudModel.tla, TraceCrud.tla.
//
// For every model file the REAL analysis, SQL generator and sqlcrud generator run; the generated
// schema is parsed (proj.ParseDDL) and loaded into pgmini, an in-memory database that implements
// exactly those tables and constraints; the generated CRUD code is compiled with a driver that
// performs random call histories against it; TLC replays the histories on the map model.
package c05

import (
	"encoding/json"
	"fmt"
	"math/rand"
	"os"
	"os/exec"
	"path/filepath"
	"sort"
	"strings"
	"time"

	"github.com/benoitkugler/gomacro/analysis"
	"golang.org/x/tools/go/packages"

	zcrud "verif/harness/internal/c05/engine"
	"verif/harness/internal/c08"
	"verif/harness/internal/core"
	"verif/harness/internal/gens"
	"verif/harness/internal/pgmini"
	"verif/harness/internal/pqshim"
	"verif/harness/internal/proj"
	"verif/harness/internal/sqlprog"
	"verif/harness/internal/synth"
	"verif/harness/internal/wire"
)

type workIn struct {
	Models []*sqlprog.Model `json:"models"`
	Seeds  []int64          `json:"seeds"`
	NOps   int              `json:"nops"`
	// behaviours exported by spec/CrudReplay.tla, per model id: such a model is stepped through them instead of random calls
	Scripts map[int][][]zcrud.ScriptStep `json:"scripts,omitempty"`
}

type modelOut struct {
	Case    int               `json:"case"`
	Skipped string            `json:"skipped"` // non-empty: no history for this model, with the reason
	Harness string            `json:"harness"` // non-empty: the harness could not do its job
	Source  string            `json:"source"`
	SQL     string            `json:"sql"`
	Crud    string            `json:"crud"`
	Meta    []zcrud.TableMeta `json:"meta"`
	Events  []json.RawMessage `json:"events"`
	Died    string            `json:"died"`
}

type workOut struct {
	Models []modelOut `json:"models"`
	Note   string     `json:"note"`
}

// ---------------------------------------------------------------- meta derived from the abstract model

func declOf(m *sqlprog.Model, key string) *sqlprog.EnvDecl {
	for i := range m.Env {
		if m.Env[i].Key == key {
			return &m.Env[i]
		}
	}
	return nil
}

func isIDName(local string) string {
	l := strings.ToLower(local)
	if len(local) > 2 && strings.HasPrefix(l, "id") {
		return local[2:]
	}
	if len(local) > 2 && strings.HasSuffix(l, "id") {
		return local[:len(local)-2]
	}
	return ""
}

// fkTarget mirrors the documented rule: a field typed by the ID type of another table, or tagged gomacro-sql-foreign.
func fkTarget(m *sqlprog.Model, t *sqlprog.Table, f sqlprog.Field) string {
	if f.TE.K == "ref" {
		if d := declOf(m, f.TE.Key); d != nil && d.K == "named" && d.Under.K == "basic" && d.Under.Name == "int64" {
			if tg := isIDName(d.Local); tg != "" && tg != t.Goname {
				return tg
			}
		}
	}
	return f.Foreign
}

func sqlLitToGo(v string) string {
	if len(v) >= 2 && strings.HasPrefix(v, "'") && strings.HasSuffix(v, "'") {
		return strings.ReplaceAll(v[1:len(v)-1], "''", "'")
	}
	return v
}

func commentCols(c, prefix string) []string {
	i := strings.Index(c, prefix)
	if i < 0 {
		return nil
	}
	rest := c[i+len(prefix):]
	a, b := strings.Index(rest, "("), strings.Index(rest, ")")
	if a < 0 || b < a {
		return nil
	}
	var out []string
	for _, p := range strings.Split(rest[a+1:b], ",") {
		out = append(out, strings.TrimSpace(p))
	}
	return out
}

// MetaOf describes the tables of a model file for the engine and the TLA+ model.
func MetaOf(m *sqlprog.Model) []zcrud.TableMeta {
	var out []zcrud.TableMeta
	for ti := range m.Tables {
		t := &m.Tables[ti]
		tm := zcrud.TableMeta{Go: t.Goname, Uniques: [][]string{}, Keys: [][]string{}, UniqFK: []string{}, Cols: []zcrud.ColMeta{}}
		fks := map[string]bool{}
		for _, f := range t.Fields {
			if !f.Exported || f.Guard.K != "none" {
				continue
			}
			if strings.ToLower(f.Name) == "id" {
				tm.IDField = f.Name
				continue
			}
			cm := zcrud.ColMeta{Field: f.Name, Col: strings.ToLower(f.Name), Enum: []string{}}
			if tg := fkTarget(m, t, f); tg != "" {
				cm.FK, cm.OnDelete = tg, f.OnDelete
				cm.Nullable = f.TE.K == "ref" && (f.TE.Key == "sql.NullInt64" || f.TE.Key == "OptId")
				fks[f.Name] = true
			}
			if f.TE.K == "ref" {
				if d := declOf(m, f.TE.Key); d != nil {
					cm.Date = d.Date
				}
			}
			tm.Cols = append(tm.Cols, cm)
		}
		for _, c := range t.Comments {
			if cols := commentCols(c, "ADD UNIQUE"); cols != nil {
				tm.Uniques = append(tm.Uniques, cols)
				if len(cols) == 1 && fks[cols[0]] {
					tm.UniqFK = append(tm.UniqFK, cols[0])
				}
			}
			if cols := commentCols(c, "_SELECT KEY"); cols != nil {
				tm.Keys = append(tm.Keys, cols)
			}
			// gomacro:QUERY <Name> UPDATE <T> SET <A> = $v$ WHERE <B> = $w$
			if f := strings.Fields(c); len(f) >= 12 && f[0] == "gomacro:QUERY" && f[2] == "UPDATE" && f[4] == "SET" && f[8] == "WHERE" {
				tm.Queries = append(tm.Queries, []string{f[1], f[5], f[9]})
			}
		}
		out = append(out, tm)
	}
	return out
}

// expectedFuncs lists the generated functions the documentation promises, keyed for the engine.
func expectedFuncs(tm zcrud.TableMeta) map[string]string {
	n := tm.Go
	fs := map[string]string{}
	if tm.IDField != "" {
		fs["Insert"] = n + ".Insert"
		fs["Update"] = n + ".Update"
		fs["Select"] = "Select" + n
		fs["SelectMany"] = "Select" + n + "s"
		fs["SelectAll"] = "SelectAll" + n + "s"
		fs["DeleteById"] = "Delete" + n + "ById"
		fs["DeleteByIDs"] = "Delete" + n + "sByIDs"
	} else {
		fs["Insert"] = n + ".Insert"
		fs["InsertMany"] = "InsertMany" + n + "s"
		fs["Delete"] = n + ".Delete"
		fs["SelectAll"] = "SelectAll" + n + "s"
	}
	uniq := map[string]bool{}
	for _, f := range tm.UniqFK {
		uniq[f] = true
	}
	for _, c := range tm.Cols {
		if c.FK == "" {
			continue
		}
		fs["SelectByFK/"+c.Field] = "Select" + n + "sBy" + c.Field + "s"
		fs["DeleteByFK/"+c.Field] = "Delete" + n + "sBy" + c.Field + "s"
		if uniq[c.Field] {
			fs["SelectByUniqueFK/"+c.Field] = "Select" + n + "By" + c.Field
		}
	}
	for _, u := range tm.Uniques {
		if len(u) == 1 && uniq[u[0]] {
			continue
		}
		fs["SelectByUnique/"+strings.Join(u, "And")] = "Select" + n + "By" + strings.Join(u, "And")
	}
	for _, q := range tm.Queries {
		fs["Query/"+strings.Join(q, "/")] = q[0]
	}
	for _, k := range tm.Keys {
		fs["SelectByKeys/"+strings.Join(k, "And")] = "Select" + n + "sBy" + strings.Join(k, "And")
		fs["DeleteByKeys/"+strings.Join(k, "And")] = "Delete" + n + "sBy" + strings.Join(k, "And")
	}
	return fs
}

func driverSource(pkg string, meta []zcrud.TableMeta) string {
	var b strings.Builder
	fmt.Fprintf(&b, "package %s\n\nimport \"verif.test/org/zcrud\"\n\n// ZZCrud registers the generated CRUD functions of the package.\nfunc ZZCrud() zcrud.Package {\n\treturn zcrud.Package{Tables: []zcrud.Table{\n", pkg)
	for _, tm := range meta {
		fmt.Fprintf(&b, "\t\t{Go: %q, New: func() any { return new(%s) }, Funcs: map[string]any{\n", tm.Go, tm.Go)
		fs := expectedFuncs(tm)
		for _, k := range synth.SortedKeys(fs) {
			fmt.Fprintf(&b, "\t\t\t%q: %s,\n", k, fs[k])
		}
		b.WriteString("\t\t}},\n")
	}
	b.WriteString("\t}}\n}\n")
	return b.String()
}

// ---------------------------------------------------------------- schema for pgmini, from the generated SQL

func pgSchema(s *proj.Schema) (*pgmini.Schema, error) {
	comps := map[string]bool{}
	for _, c := range s.Composites {
		comps[strings.ToLower(c.Name)] = true
	}
	out := &pgmini.Schema{}
	byName := map[string]*pgmini.TableDef{}
	for _, t := range s.Tables {
		td := pgmini.TableDef{Name: strings.ToLower(t.Name), Uniques: [][]string{}, FKs: []pgmini.ForeignKey{}}
		for _, c := range t.Cols {
			ty := strings.ToLower(strings.TrimSpace(c.Type))
			base := strings.TrimSuffix(ty, "[]")
			switch {
			case comps[base]:
				ty = "composite:" + base
			case base == "serial" || base == "integer" || base == "smallint" || base == "bigint" || base == "real" || base == "text" || base == "boolean" || base == "date" || base == "bytea" || base == "jsonb" || strings.HasPrefix(base, "timestamp"):
			case base == "int" || base == "int4":
				ty = strings.Replace(ty, base, "integer", 1)
			case base == "varchar":
				ty = strings.Replace(ty, base, "text", 1)
			default:
				return nil, fmt.Errorf("column %s.%s: SQL type %q is not known to pgmini", t.Name, c.Name, c.Type)
			}
			col := pgmini.Column{Name: strings.ToLower(c.Name), Type: ty, NotNull: c.NotNull || c.Primary, Primary: c.Primary, ArrLen: -1}
			switch c.Check.K {
			case "in":
				for _, v := range c.Check.Vals {
					// pgmini compares values in its own canonical form: the SQL literal with the doubled quotes undone
					if len(v) >= 2 && strings.HasPrefix(v, "'") {
						v = "'" + strings.ReplaceAll(v[1:len(v)-1], "''", "'") + "'"
					}
					col.In = append(col.In, v)
				}
			case "arraylen":
				col.ArrLen = c.Check.N
			}
			td.Cols = append(td.Cols, col)
		}
		out.Tables = append(out.Tables, td)
	}
	for i := range out.Tables {
		byName[out.Tables[i].Name] = &out.Tables[i]
	}
	colOf := func(table, col string) (*pgmini.Column, error) {
		t := byName[strings.ToLower(table)]
		if t == nil {
			return nil, fmt.Errorf("statement on unknown table %s", table)
		}
		for i := range t.Cols {
			if t.Cols[i].Name == strings.ToLower(col) {
				return &t.Cols[i], nil
			}
		}
		return nil, fmt.Errorf("statement on unknown column %s.%s", table, col)
	}
	for _, fk := range s.FKs {
		t := byName[strings.ToLower(fk.Table)]
		if t == nil {
			return nil, fmt.Errorf("foreign key on unknown table %s", fk.Table)
		}
		if _, err := colOf(fk.Table, fk.Col); err != nil {
			return nil, err
		}
		t.FKs = append(t.FKs, pgmini.ForeignKey{Col: strings.ToLower(fk.Col), Ref: strings.ToLower(fk.Ref), OnDelete: fk.OnDelete})
	}
	for _, d := range s.Defaults {
		c, err := colOf(d.Table, d.Col)
		if err != nil {
			return nil, err
		}
		c.HasDef, c.Default = true, strings.TrimSpace(d.Value)
	}
	for _, ck := range s.Checks {
		parts := strings.Fields(ck.Text)
		if len(parts) == 3 && parts[1] == "=" {
			if c, err := colOf(ck.Table, parts[0]); err == nil {
				c.HasEq, c.Equals = true, parts[2]
			}
		}
	}
	for _, st := range s.Statements {
		// ALTER TABLE t ADD UNIQUE ( a , b )   |   ALTER TABLE t ADD PRIMARY KEY ( a , b )
		if len(st) > 6 && strings.EqualFold(st[0], "ALTER") && strings.EqualFold(st[1], "TABLE") && strings.EqualFold(st[3], "ADD") {
			i := 4
			if strings.EqualFold(st[i], "UNIQUE") {
				i++
			} else if strings.EqualFold(st[i], "PRIMARY") && strings.EqualFold(st[i+1], "KEY") {
				i += 2
			} else {
				continue
			}
			if st[i] != "(" {
				continue
			}
			var cols []string
			for _, x := range st[i+1:] {
				if x == ")" {
					break
				}
				if x != "," {
					if _, err := colOf(st[2], x); err != nil {
						return nil, err
					}
					cols = append(cols, strings.ToLower(x))
				}
			}
			t := byName[strings.ToLower(st[2])]
			if t == nil {
				return nil, fmt.Errorf("constraint on unknown table %s", st[2])
			}
			t.Uniques = append(t.Uniques, cols)
		}
	}
	return out, nil
}

// ---------------------------------------------------------------- worker

const mainSrc = `package main

import (
	"bufio"
	"database/sql"
	"encoding/json"
	"fmt"
	"os"
	"strconv"

	"verif.test/org/zcrud"
	"verif.test/org/zpgmini"
%s)

var pkgs = map[int]func() zcrud.Package{
%s}

type caseFile struct {
	Schema json.RawMessage     ` + "`json:\"schema\"`" + `
	Meta   []zcrud.TableMeta   ` + "`json:\"meta\"`" + `
	Enums  map[string][]string ` + "`json:\"enums\"`" + `
}

// usage: crudbin <dir> <case> <seed> <nOps>   |   crudbin <dir> <case> script
func main() {
	c, _ := strconv.Atoi(os.Args[2])
	b, err := os.ReadFile(fmt.Sprintf("%%s/case%%d.json", os.Args[1], c))
	if err != nil {
		panic(err)
	}
	var cf caseFile
	if err := json.Unmarshal(b, &cf); err != nil {
		panic(err)
	}
	if os.Args[3] == "script" {
		sb, err := os.ReadFile(fmt.Sprintf("%%s/script%%d.json", os.Args[1], c))
		if err != nil {
			panic(err)
		}
		var scripts [][]zcrud.ScriptStep
		if err := json.Unmarshal(sb, &scripts); err != nil {
			panic(err)
		}
		w := bufio.NewWriter(os.Stdout)
		defer w.Flush()
		for k, steps := range scripts {
			name := fmt.Sprintf("c%%d-script%%d", c, k)
			if _, err := zpgmini.Create(name, cf.Schema); err != nil {
				panic(err)
			}
			db, err := sql.Open("pgmini", name)
			if err != nil {
				panic(err)
			}
			zcrud.RunScript(pkgs[c](), cf.Meta, db, w, c, k+1, steps)
			db.Close()
		}
		return
	}
	seed, _ := strconv.ParseInt(os.Args[3], 10, 64)
	nOps, _ := strconv.Atoi(os.Args[4])
	name := fmt.Sprintf("c%%d-%%d", c, seed)
	if _, err := zpgmini.Create(name, cf.Schema); err != nil {
		panic(err)
	}
	db, err := sql.Open("pgmini", name)
	if err != nil {
		panic(err)
	}
	w := bufio.NewWriter(os.Stdout)
	defer w.Flush()
	zcrud.Run(pkgs[c](), cf.Meta, cf.Enums, db, w, c, seed, nOps)
}
`

func Worker(args []string) {
	core.WorkerIO(args, func(in workIn, dir string) workOut {
		var out workOut
		mod, err := synth.NewModule(dir)
		if err != nil {
			panic(err)
		}
		var rels []string
		for _, m := range in.Models {
			mod.Write(sqlprog.Render(m))
			rels = append(rels, sqlprog.Dir(m.ID)+"/models.go")
		}
		mod.Write(map[string]string{
			"zcrud/engine.go":   zcrud.Source,
			"zpgmini/pgmini.go": strings.Replace(pgmini.Source, "package pgmini", "package zpgmini", 1),
		})
		if err := pqshim.Install(mod.Dir); err != nil {
			out.Note = "pq stand-in: " + err.Error()
			return out
		}
		pkgs, root, err := mod.Load(rels)
		if err != nil {
			out.Note = "load failed: " + err.Error()
			return out
		}
		caseDir := filepath.Join(dir, "cases")
		os.MkdirAll(caseDir, 0o755)
		out.Models = make([]modelOut, len(in.Models))
		var built []int
		for i, m := range in.Models {
			o := &out.Models[i]
			o.Case = m.ID
			o.Source = sqlprog.Render(m)[rels[i]]
			o.Meta = MetaOf(m)
			file := mod.Abs(rels[i])
			var ana *analysis.Analysis
			class, msg := synth.Guard(func() { ana = analysis.NewAnalysisFromFile(pkgs[i], file) })
			if class != synth.OutOK {
				o.Skipped = "analysis " + class + ": " + msg
				continue
			}
			sq := gens.Run("sql", pkgs[i], file, ana, root)
			if sq.Class != synth.OutOK {
				o.Skipped = "sql generator " + sq.Class + ": " + sq.Msg
				continue
			}
			o.SQL = sq.Text
			cr := gens.Run("go/sqlcrud", pkgs[i], file, ana, root)
			if cr.Class != synth.OutOK {
				o.Skipped = "sqlcrud generator " + cr.Class + ": " + cr.Msg
				continue
			}
			fixed, err := wire.FixImports(filepath.Join(mod.Dir, sqlprog.Dir(m.ID), "gen_crud.go"), cr.Text)
			if err != nil {
				o.Skipped = "generated Go code does not parse (C01): " + err.Error()
				continue
			}
			o.Crud = fixed
			sch, err := proj.ParseDDL(sq.Text)
			if err != nil {
				o.Harness = "SQL output not understood: " + err.Error()
				continue
			}
			ps, err := pgSchema(sch)
			if err != nil {
				o.Harness = "SQL output not understood: " + err.Error()
				continue
			}
			enums := map[string][]string{}
			for _, d := range m.Env {
				if d.K != "enum" {
					continue
				}
				pkgName := sqlprog.Dir(m.ID)
				if strings.HasPrefix(d.Key, "sub.") {
					pkgName = "sub"
				}
				var vals []string
				for _, v := range d.Values {
					vals = append(vals, sqlLitToGo(v))
				}
				enums[pkgName+"."+d.Local] = vals
			}
			sb, _ := json.Marshal(ps)
			cf, _ := json.Marshal(map[string]any{"schema": json.RawMessage(sb), "meta": o.Meta, "enums": enums})
			os.WriteFile(filepath.Join(caseDir, fmt.Sprintf("case%d.json", m.ID)), cf, 0o644)
			mod.Write(map[string]string{sqlprog.Dir(m.ID) + "/gen_crud.go": fixed})
			built = append(built, i)
		}
		// type-check generated code alone, then with the driver
		check := func(idx []int) map[int]string {
			errs := map[int]string{}
			if len(idx) == 0 {
				return errs
			}
			var paths []string
			for _, i := range idx {
				paths = append(paths, synth.ModRoot+"/"+sqlprog.Dir(in.Models[i].ID))
			}
			cfg := &packages.Config{Dir: mod.Dir, Mode: packages.NeedName | packages.NeedTypes | packages.NeedSyntax | packages.NeedFiles | packages.NeedTypesInfo}
			checked, err := packages.Load(cfg, paths...)
			if err != nil {
				for _, i := range idx {
					errs[i] = err.Error()
				}
				return errs
			}
			byPath := map[string]*packages.Package{}
			for _, c := range checked {
				byPath[c.PkgPath] = c
			}
			for k, i := range idx {
				if c := byPath[paths[k]]; c == nil {
					errs[i] = "package not loaded"
				} else if len(c.Errors) > 0 {
					errs[i] = c.Errors[0].Error()
				}
			}
			return errs
		}
		e1 := check(built)
		var ok1 []int
		for _, i := range built {
			if e1[i] != "" {
				out.Models[i].Skipped = "generated Go code does not type-check (C01): " + e1[i]
				os.Remove(mod.Abs(sqlprog.Dir(in.Models[i].ID) + "/gen_crud.go"))
				continue
			}
			mod.Write(map[string]string{sqlprog.Dir(in.Models[i].ID) + "/zz_crud_driver.go": driverSource(sqlprog.Dir(in.Models[i].ID), out.Models[i].Meta)})
			ok1 = append(ok1, i)
		}
		e2 := check(ok1)
		var imp, reg strings.Builder
		n := 0
		for _, i := range ok1 {
			if e2[i] != "" {
				out.Models[i].Skipped = "a documented CRUD function is missing or has another signature: " + e2[i]
				os.Remove(mod.Abs(sqlprog.Dir(in.Models[i].ID) + "/gen_crud.go"))
				os.Remove(mod.Abs(sqlprog.Dir(in.Models[i].ID) + "/zz_crud_driver.go"))
				continue
			}
			id := in.Models[i].ID
			fmt.Fprintf(&imp, "\t%s %q\n", sqlprog.Dir(id), synth.ModRoot+"/"+sqlprog.Dir(id))
			fmt.Fprintf(&reg, "\t%d: %s.ZZCrud,\n", id, sqlprog.Dir(id))
			n++
		}
		if n == 0 {
			return out
		}
		mod.Write(map[string]string{"zcrudmain/main.go": fmt.Sprintf(mainSrc, imp.String(), reg.String())})
		bin := filepath.Join(dir, "crudbin")
		cmd := exec.Command("go", "build", "-o", bin, "./zcrudmain")
		cmd.Dir = mod.Dir
		cmd.Env = append(os.Environ(), "GOFLAGS=-mod=mod", "GOPROXY=off", "GOSUMDB=off", "GOTOOLCHAIN=local")
		if b, err := cmd.CombinedOutput(); err != nil {
			out.Note = "building the CRUD binary: " + err.Error() + "\n" + core.Tail(string(b), 25)
			return out
		}
		for _, i := range ok1 {
			o := &out.Models[i]
			if o.Skipped != "" {
				continue
			}
			seeds := in.Seeds
			scripts, scripted := in.Scripts[o.Case]
			if scripted {
				sb, _ := json.Marshal(scripts)
				os.WriteFile(filepath.Join(caseDir, fmt.Sprintf("script%d.json", o.Case)), sb, 0o644)
				seeds = []int64{0}
			}
			for _, seed := range seeds {
				run := exec.Command(bin, caseDir, fmt.Sprint(o.Case), fmt.Sprint(seed), fmt.Sprint(in.NOps))
				if scripted {
					run = exec.Command(bin, caseDir, fmt.Sprint(o.Case), "script")
				}
				var stderr strings.Builder
				run.Stderr = &stderr
				done := make(chan struct{})
				var stdout []byte
				var rerr error
				go func() { stdout, rerr = run.Output(); close(done) }()
				select {
				case <-done:
				case <-time.After(map[bool]time.Duration{false: 60 * time.Second, true: 5 * time.Minute}[scripted]):
					run.Process.Kill()
					<-done
					rerr = fmt.Errorf("timeout")
				}
				for _, line := range strings.Split(strings.TrimSpace(string(stdout)), "\n") {
					if strings.HasPrefix(line, "{") {
						o.Events = append(o.Events, json.RawMessage(line))
					}
				}
				if rerr != nil {
					o.Died = fmt.Sprintf("seed %d: %v\n%s", seed, rerr, core.Tail(stderr.String(), 30))
					break
				}
			}
		}
		return out
	})
}

// ---------------------------------------------------------------- check

func Run(c *core.Ctx, replay string) (*core.Result, error) {
	res := &core.Result{Level: "model_checking"}
	res.Assumptions = []string{
		"the database is pgmini (harness/internal/pgmini), an in-memory database/sql driver loaded only from the SQL generator's output through harness/internal/proj/ddl.go; it implements the documented PostgreSQL behaviour of exactly the statement forms sqlcrud emits (self-tested on every run); PostgreSQL itself is not available in the sandbox",
		"github.com/lib/pq is replaced by the stand-in of harness/internal/pqshim (array / NullTime / CopyIn wire forms)",
		"rows are drawn inside what the SQL types hold: 32-bit integers in integer columns, quarter-valued floats in real columns, whole-second UTC times, enum columns carry declared constants",
		"composite / array / JSON column types of another package must bring their own Valuer / Scanner (documented): such columns are not part of the model files",
		"ON DELETE SET NULL on a plain int64 (NOT NULL) key is not a valid table struct: the outcome of a delete depends on PostgreSQL's trigger order; such columns are not part of the model files",
	}
	if err := pgmini.SelfTest(); err != nil {
		return nil, core.Inconcl("%v", err)
	}
	// design level: the map model keeps integrity / uniqueness / atomicity under every operation sequence
	type dcfg struct{ od, ub, nb string }
	var cfgs []dcfg
	if c.Thorough() {
		for _, od := range []string{`"CASCADE"`, `""`, `"SET NULL"`} {
			for _, ub := range []string{"FALSE", "TRUE"} {
				for _, nb := range []string{"FALSE", "TRUE"} {
					cfgs = append(cfgs, dcfg{od, ub, nb})
				}
			}
		}
	} else {
		cfgs = []dcfg{{`"CASCADE"`, "FALSE", "TRUE"}, {`"CASCADE"`, "TRUE", "FALSE"}, {`""`, "FALSE", "TRUE"}, {`"SET NULL"`, "FALSE", "TRUE"}, {`"SET NULL"`, "FALSE", "FALSE"}}
	}
	for _, k := range cfgs {
		nv := "1"
		if c.Thorough() {
			nv = "2"
		}
		cfg := fmt.Sprintf("SPECIFICATION Spec\nCONSTANTS\n  OD = %s\n  MaxRows = 2\n  UniqB = %s\n  NV = %s\n  NullB = %s\nINVARIANTS IntegrityInv UniqueInv IdsInv\nPROPERTIES Atomic DeleteShrinks\n", k.od, k.ub, nv, k.nb)
		t, err := c.RunTLC(core.TLCOpts{Module: "CrudModel", ConfigText: cfg, Workers: c.Workers, Timeout: 30 * time.Minute})
		if err != nil {
			return nil, err
		}
		if err := t.MustClean("CrudModel " + k.od); err != nil {
			return nil, err
		}
		res.AddTLC(t)
	}
	// non-vacuity: a cascade emptying both tables and a refused delete are reachable
	for _, w := range []struct{ inv, od string }{{"NoCascadeSeen", `"CASCADE"`}, {"NoRefusalSeen", `""`}} {
		cfg := fmt.Sprintf("SPECIFICATION Spec\nCONSTANTS\n  OD = %s\n  MaxRows = 2\n  UniqB = FALSE\n  NV = 1\n  NullB = FALSE\nINVARIANT %s\n", w.od, w.inv)
		t, err := c.RunTLC(core.TLCOpts{Module: "CrudModel", ConfigText: cfg, Workers: 1, Timeout: 10 * time.Minute})
		if err != nil {
			return nil, err
		}
		if t.ErrorKind != "invariant" {
			return nil, core.Inconcl("CrudModel: the witness %s is not reachable (%s): the design-level model is vacuous", w.inv, t.ErrorKind)
		}
	}
	u, err := c08.LoadUniverse(c, res)
	if err != nil {
		return nil, err
	}
	var models []*sqlprog.Model
	seeds := []int64{c.Seed*1000 + 1, c.Seed*1000 + 2}
	nOps := 60
	if replay != "" {
		var m sqlprog.Model
		if err := core.LoadReplay(replay, &m); err != nil {
			return nil, err
		}
		models = []*sqlprog.Model{&m}
		seeds = append(seeds, c.Seed*1000+3, c.Seed*1000+4, c.Seed*1000+5)
	} else {
		rng := rand.New(rand.NewSource(c.Seed))
		rounds := 1
		if c.Thorough() {
			rounds = 8
			nOps = 120
			for k := int64(3); k <= 6; k++ {
				seeds = append(seeds, c.Seed*1000+k)
			}
		}
		for r := 0; r < rounds; r++ {
			models = append(models, sqlprog.ComposeCrud(u, rng, len(models)+1)...)
		}
		for k, w := range sqlprog.CrudWitnesses(u) {
			models = append(models, sqlprog.WitnessModel(u, w, 9001+k))
		}
	}
	// spec -> code: behaviours of CrudReplay.tla (tlc -simulate) stepped through the code generated for the model
	// file that declares CrudModel's own tables
	scripts := map[int][][]zcrud.ScriptStep{}
	expect := map[int][][]zcrud.ScriptStep{}
	if replay == "" {
		type rcfg struct {
			od           string
			uniqB, nullB bool
		}
		rcfgs := []rcfg{{"CASCADE", false, true}, {"", true, false}, {"SET NULL", false, true}}
		nBeh, steps := 100, 14
		if c.Thorough() {
			rcfgs = append(rcfgs, rcfg{"CASCADE", true, false}, rcfg{"", false, true}, rcfg{"SET NULL", true, true}, rcfg{"CASCADE", false, false}, rcfg{"", false, false})
			nBeh, steps = 1000, 16
		}
		for k, rc := range rcfgs {
			ef := filepath.Join(c.Scratch, fmt.Sprintf("replay-%d.ndjson", k))
			b2s := map[bool]string{false: "FALSE", true: "TRUE"}
			cfg := fmt.Sprintf("SPECIFICATION RSpec\nCONSTANTS\n  OD = %q\n  MaxRows = 3\n  UniqB = %s\n  NV = 2\n  NullB = %s\n  Steps = %d\nINVARIANTS ExportInv IntegrityInv UniqueInv IdsInv\nPOSTCONDITION ExportPost\n", rc.od, b2s[rc.uniqB], b2s[rc.nullB], steps)
			t, err := c.RunTLC(core.TLCOpts{Module: "CrudReplay", ConfigText: cfg, Workers: 1, Simulate: fmt.Sprintf("num=%d", nBeh), Depth: steps + 2, Seed: c.Seed + int64(k),
				Env: map[string]string{"VERIF_EXPORT": ef}, Timeout: 20 * time.Minute})
			if err != nil {
				return nil, err
			}
			if err := t.MustClean("CrudReplay " + rc.od); err != nil {
				return nil, err
			}
			res.AddTLC(t)
			recs, err := core.ReadNDJSON(ef)
			if err != nil || len(recs) == 0 {
				return nil, core.Inconcl("CrudReplay: no behaviour exported (%v)", err)
			}
			id := 8001 + k
			for _, r := range recs {
				b, _ := json.Marshal(r["steps"])
				var sc []zcrud.ScriptStep
				if err := json.Unmarshal(b, &sc); err != nil {
					return nil, core.Inconcl("CrudReplay: exported behaviour does not parse: %v", err)
				}
				for i := range sc {
					sc[i].Table = sqlprog.ReplayNames[sc[i].Table]
					sizes := map[string]int{}
					for n, v := range sc[i].Sizes {
						sizes[sqlprog.ReplayNames[n]] = v
					}
					sc[i].Sizes = sizes
				}
				scripts[id] = append(scripts[id], sc)
			}
			expect[id] = scripts[id]
			models = append(models, sqlprog.ReplayModel(u, id, rc.od, rc.uniqB, rc.nullB))
		}
	}
	var out workOut
	log, err := c.RunSelfWorker("c05", workIn{Models: models, Seeds: seeds, NOps: nOps, Scripts: scripts}, &out, 40*time.Minute)
	if err != nil {
		return nil, core.Inconcl("c05 worker: %v\n%s", err, core.Tail(log, 20))
	}
	if out.Note != "" {
		return nil, core.Inconcl("c05 worker: %s", out.Note)
	}
	var recs []any
	byCase := map[int]modelOut{}
	modelByCase := map[int]*sqlprog.Model{}
	for _, m := range models {
		modelByCase[m.ID] = m
	}
	calls, sessions, ran := 0, 0, 0
	ops := map[string]int{}
	errsSeen := map[string]int{}
	for i, o := range out.Models {
		byCase[o.Case] = o
		if o.Harness != "" {
			return nil, core.Inconcl("model %d: %s\n%s", o.Case, o.Harness, o.SQL)
		}
		if o.Skipped != "" {
			// the generators refuse or break on a supported model file: a failure of the premise of C05
			key := o.Skipped
			if j := strings.Index(key, ": "); j > 0 {
				key = key[:j]
			}
			res.Violations = append(res.Violations, core.Violation{Key: "no CRUD code to run: " + normalise(o.Skipped), What: fmt.Sprintf("model %d: %s\n%s", o.Case, o.Skipped, o.Source), Replay: modelByCase[o.Case]})
			continue
		}
		ran++
		if o.Died != "" {
			res.Violations = append(res.Violations, core.Violation{Key: "the generated code panics or hangs: " + normalise(firstLine(o.Died)), What: fmt.Sprintf("model %d: the CRUD binary died: %s\n%s", o.Case, o.Died, o.Source), Replay: modelByCase[o.Case]})
		}
		for _, e := range o.Events {
			var m map[string]any
			d := json.NewDecoder(strings.NewReader(string(e)))
			d.UseNumber()
			if err := d.Decode(&m); err != nil {
				return nil, core.Inconcl("event of model %d does not parse: %v", o.Case, err)
			}
			if m["ev"] == "reset" {
				sessions++
				// the TLA+ model takes the table descriptions in its own vocabulary
				m["meta"] = tlaMeta(o.Meta)
			} else {
				calls++
				ops[core.Str(m, "op")]++
				errsSeen[core.Str(m, "err")]++
			}
			recs = append(recs, m)
		}
		if i == 0 {
			res.Sample(map[string]any{"source": o.Source, "sql": firstLines(o.SQL, 40), "events": len(o.Events)})
		}
	}
	if calls == 0 && len(res.Violations) == 0 {
		return nil, core.Inconcl("no call history was produced")
	}
	// spec -> code: what the replayed behaviours predicted (outcome of each step, table sizes after it) against what
	// the generated code did.  The calls themselves are judged by TraceCrud below; a disagreement here that
	// TraceCrud does not report would mean that the driver mistranslates the behaviours.
	type disagreement struct {
		caseID, script int
		what           string
	}
	var disagreements []disagreement
	replayed, replayedSteps := 0, 0
	stepKinds := map[string]int{}
	for id, scs := range expect {
		o, ok := byCase[id]
		if !ok || o.Skipped != "" || o.Died != "" {
			continue
		}
		var evs []map[string]any
		for _, e := range o.Events {
			var m map[string]any
			d := json.NewDecoder(strings.NewReader(string(e)))
			d.UseNumber()
			d.Decode(&m)
			evs = append(evs, m)
		}
		nT := len(o.Meta)
		pos := 0
		for k, sc := range scs {
			if pos >= len(evs) || evs[pos]["ev"] != "reset" {
				return nil, core.Inconcl("replay of model %d: script %d has no session in the call history", id, k+1)
			}
			pos++
			replayed++
			for i, st := range sc {
				if pos+nT >= len(evs) {
					return nil, core.Inconcl("replay of model %d: script %d stops at step %d", id, k+1, i+1)
				}
				call := evs[pos]
				replayedSteps++
				stepKinds[st.Op+": "+st.Last]++
				okReal := core.Str(call, "err") == ""
				okSpec := strings.HasSuffix(st.Last, " ok")
				if okReal != okSpec {
					disagreements = append(disagreements, disagreement{id, k + 1, fmt.Sprintf("step %d (%s %s %v): the specification says %q, the call ended with error class %q (%s)", i+1, st.Op, st.Table, st.C, st.Last, core.Str(call, "err"), core.Str(call, "msg"))})
					break
				}
				for j := 1; j <= nT; j++ {
					sel := evs[pos+j]
					outs, _ := sel["out"].([]any)
					if want := st.Sizes[core.Str(sel, "table")]; len(outs) != want {
						disagreements = append(disagreements, disagreement{id, k + 1, fmt.Sprintf("step %d (%s %s %v): table %s holds %d rows afterwards, the specification says %d", i+1, st.Op, st.Table, st.C, core.Str(sel, "table"), len(outs), want)})
					}
				}
				pos += 1 + nT
			}
			// skip to the next session
			for pos < len(evs) && evs[pos]["ev"] != "reset" {
				pos++
			}
		}
	}
	if len(recs) > 0 {
		bad, err := c.JudgeTraceChunkedAt(res, "TraceCrud", recs, 32<<20, func(r any) bool { m, ok := r.(map[string]any); return ok && m["ev"] == "reset" })
		if err != nil {
			return nil, err
		}
		for _, v := range bad {
			o := byCase[core.Int(v, "case")]
			why := core.Str(v, "why")
			line := core.Int(v, "line")
			ctx := ""
			if line >= 1 && line <= len(recs) {
				b, _ := json.Marshal(recs[line-1])
				ctx = string(b)
			}
			key := normalise(why)
			if strings.HasPrefix(why, "SQL error: ") {
				if j := strings.LastIndex(why, " (in "); j > 0 {
					key = normalise(why[:j])
				}
			}
			res.Violations = append(res.Violations, core.Violation{Key: key,
				What:   fmt.Sprintf("model %d seed %d: %s\nevent: %s\n%s\n-- generated SQL:\n%s", o.Case, core.Int(v, "seed"), why, ctx, o.Source, firstLines(o.SQL, 60)),
				Replay: modelByCase[o.Case]})
		}
	}
	if len(disagreements) > 0 {
		reported := map[[2]int]bool{}
		for _, v := range res.Violations {
			if m, ok := v.Replay.(*sqlprog.Model); ok && m != nil {
				reported[[2]int{m.ID, 0}] = true
			}
		}
		for _, d := range disagreements {
			if !reported[[2]int{d.caseID, 0}] {
				return nil, core.Inconcl("replay of CrudReplay behaviours, model %d script %d: %s — but TraceCrud accepts the call history: the replay driver and the specification disagree on the translation", d.caseID, d.script, d.what)
			}
		}
	}
	if replay == "" && ran > 0 {
		for _, need := range []string{"insert: insert ok", "insert: insert refused", "update: update ok", "update: update refused", "delete: delete ok", "delete: delete refused", "unlink: delete ok", "delkey: delete ok"} {
			if stepKinds[need] == 0 {
				return nil, core.Inconcl("replayed behaviours never contain a step %q", need)
			}
		}
	}
	// coverage of the operation vocabulary
	var opList []string
	for k, n := range ops {
		opList = append(opList, fmt.Sprintf("%s:%d", k, n))
	}
	sort.Strings(opList)
	for _, need := range []string{"Query", "Insert", "InsertMany", "Update", "Select", "SelectMany", "SelectAll", "DeleteById", "DeleteByIDs", "SelectByFK", "DeleteByFK", "Delete", "SelectByUniqueFK", "SelectByUnique", "SelectByKeys", "DeleteByKeys"} {
		if ops[need] == 0 && replay == "" && ran > 0 {
			return nil, core.Inconcl("operation %s was never exercised", need)
		}
	}
	res.Extra = map[string]any{"replayed_behaviours": replayed, "replayed_steps": replayedSteps, "replayed_step_kinds": stepKinds, "operations": opList, "error_classes_observed": errsSeen, "models_run": ran, "sessions": sessions}
	res.Evaluations = calls
	res.TracesVsImpl = sessions
	res.Nontrivial = calls - errsSeen[""]
	res.Rule = fmt.Sprintf("%d model files composed from the supported column specifications of PgDDLModel.tla (every column kind appears in some table; UNIQUE, _SELECT KEY, unique / nullable foreign keys, ON DELETE CASCADE / SET NULL / NO ACTION chains, link table); %d sessions of %d random calls (ids mostly live, sometimes dangling; rows mostly legal, foreign keys sometimes dangling, unique keys sometimes colliding) + a final SelectAll of every table; plus %d behaviours (%d steps) of CrudReplay.tla produced by tlc -simulate and stepped through the code generated for CrudModel's own tables, every table read back after each step; nontrivial = calls that ended in an error class (norows / unique / fk)", len(models), sessions, nOps, replayed, replayedSteps)
	return res, nil
}

func tlaMeta(meta []zcrud.TableMeta) []any {
	var out []any
	for _, t := range meta {
		cols := []any{}
		fks := []any{}
		for _, c := range t.Cols {
			cols = append(cols, c.Field)
			if c.FK != "" {
				fks = append(fks, map[string]any{"field": c.Field, "ref": c.FK, "ondelete": c.OnDelete, "nullable": c.Nullable})
			}
		}
		uniques := []any{}
		for _, u := range t.Uniques {
			uniques = append(uniques, u)
		}
		out = append(out, map[string]any{"go": t.Go, "primary": t.IDField != "", "cols": cols, "fks": fks, "uniques": uniques})
	}
	return out
}

func firstLine(s string) string {
	if i := strings.IndexByte(s, '\n'); i >= 0 {
		return s[:i]
	}
	return s
}

func firstLines(s string, n int) string {
	ls := strings.Split(s, "\n")
	if len(ls) > n {
		ls = ls[:n]
	}
	return strings.Join(ls, "\n")
}

// normalise removes names and numbers that vary from one model file to the next.
func normalise(s string) string {
	var b strings.Builder
	words := strings.Fields(s)
	for i, w := range words {
		if i > 0 {
			b.WriteByte(' ')
		}
		isNum := true
		for _, r := range strings.Trim(w, ":,()") {
			if r < '0' || r > '9' {
				isNum = false
			}
		}
		switch {
		case isNum && strings.Trim(w, ":,()") != "":
			b.WriteString("N")
		case strings.ContainsAny(w, "0123456789") && len(w) < 30:
			b.WriteString("X")
		default:
			b.WriteString(w)
		}
	}
	out := b.String()
	if len(out) > 160 {
		out = out[:160]
	}
	return out
}
