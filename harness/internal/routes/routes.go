// Package routes renders abstract route files (spec/HttpApi.tla) to Go and runs the real extractor.
package routes

import (
	"encoding/json"
	"fmt"
	"math/rand"
	"strings"

	"github.com/benoitkugler/gomacro/analysis"
	"github.com/benoitkugler/gomacro/analysis/httpapi"

	"verif/harness/internal/synth"
)

type Form struct {
	Values   []string `json:"values"`
	File     string   `json:"file"`
	JSON     string   `json:"json"`
	JSONKind string   `json:"jsonkind"` // "" | struct | string
}

type Reg struct {
	Verb    string   `json:"verb"`
	Path    []string `json:"path"`
	Handler string   `json:"handler"`
	Input   string   `json:"input"`
	Query   []string `json:"query"`
	Form    Form     `json:"form"`
	Ret     string   `json:"ret"`
	Where   string   `json:"where"` // "" statement of routes() | closure (inside a function literal passed to a method) | block (inside an if)
}

// Dims are the dimension value sets exported by HttpApiModel.tla.
type Dims struct {
	Verbs    []string   `json:"verbs"`
	Paths    [][]string `json:"paths"`
	Handlers []string   `json:"handlers"`
	Inputs   []string   `json:"inputs"`
	Queries  [][]string `json:"queries"`
	Forms    []Form     `json:"forms"`
	Rets     []string   `json:"rets"`
	Wheres   []string   `json:"wheres"`
}

func ParseDims(rec map[string]any) (*Dims, error) {
	b, _ := json.Marshal(rec)
	var d Dims
	if err := json.Unmarshal(b, &d); err != nil {
		return nil, err
	}
	if len(d.Verbs) == 0 || len(d.Paths) == 0 {
		return nil, fmt.Errorf("empty dimensions")
	}
	return &d, nil
}

// RandomFile draws n registrations.
func (d *Dims) RandomFile(rng *rand.Rand, n int, noPointerInput bool) []Reg {
	var regs []Reg
	for i := 0; i < n; i++ {
		r := Reg{Verb: d.Verbs[rng.Intn(len(d.Verbs))], Path: d.Paths[rng.Intn(len(d.Paths))], Handler: d.Handlers[rng.Intn(len(d.Handlers))],
			Input: d.Inputs[rng.Intn(len(d.Inputs))], Query: d.Queries[rng.Intn(len(d.Queries))], Form: d.Forms[rng.Intn(len(d.Forms))], Ret: d.Rets[rng.Intn(len(d.Rets))]}
		if len(d.Wheres) > 0 && rng.Intn(3) == 0 {
			r.Where = d.Wheres[rng.Intn(len(d.Wheres))]
			if r.Where == "stmt" {
				r.Where = ""
			}
		}
		if noPointerInput && r.Input == "ptr" {
			r.Input = "struct"
		}
		if noPointerInput && r.Input != "none" && rng.Intn(8) != 0 {
			// a bound body together with other inputs is the recorded finding of C14: kept rare
			r.Query, r.Form = []string{}, Form{Values: []string{}}
		}
		if r.Handler == "localtwin" {
			for _, prev := range regs {
				if prev.Handler == "localtwin" || (noPointerInput && prev.Handler == "importedfunc" && prev.Verb != "Static") {
					r.Handler = "func" // one declaration of TopLevel per file (and, for clients, one method per name)
				}
			}
		}
		if noPointerInput { // client universe: every handler name once (a method per endpoint, named after its handler)
			for _, prev := range regs {
				if (prev.Handler == r.Handler || (prev.Handler == "localtwin" && r.Handler == "importedfunc")) && (r.Handler == "importedfunc" || r.Handler == "importedmethod") && prev.Verb != "Static" {
					r.Handler = "method"
				}
			}
		}
		if r.Query == nil {
			r.Query = []string{}
		}
		if r.Form.Values == nil {
			r.Form.Values = []string{}
		}
		regs = append(regs, r)
	}
	return regs
}

// Stubs are the shared packages every route file imports.
func Stubs() map[string]string {
	return map[string]string{
		"zecho/echo.go": `// Package echo is a substitute for the http framework echo.
package echo

import "mime/multipart"

type Context interface {
	Bind(interface{}) error
	JSON(int, interface{}) error
	JSONPretty(int, interface{}, string) error
	QueryParam(string) string
	Blob(code int, contentType string, b []byte) error
	FormValue(name string) string
	FormFile(name string) (*multipart.FileHeader, error)
}

type Echo struct{}

func (Echo) GET(string, func(Context) error)    {}
func (Echo) POST(string, func(Context) error)   {}
func (Echo) PUT(string, func(Context) error)    {}
func (Echo) DELETE(string, func(Context) error) {}
func (Echo) Static(string, string)              {}
`,
		"zinner/inner.go": `package inner

import (
	"fmt"

	echo "verif.test/org/zecho"
)

const Url = "/imported_const/"

type Controller struct{}

func (Controller) HandleExt(c echo.Context) error {
	var in []int64
	t, v := c.QueryParam("query1"), c.QueryParam("query2")
	err := c.Bind(&in)
	_ = fmt.Errorf("%s%s%s", t, v, err)
	var out map[string][]int
	return c.JSON(200, out)
}

func TopLevel(c echo.Context) error {
	return nil
}

// a generic typed query helper living in another package
func QueryParamInt[T ~int64](echo.Context, string) (T, error) { return 0, nil }
`,
	}
}

func pathExpr(p []string) string {
	parts := make([]string, len(p))
	for i, a := range p {
		switch a {
		case "local":
			parts[i] = "localConst"
		case "pkg":
			parts[i] = "pkgConst"
		case "imported":
			parts[i] = "inner.Url"
		case "shadow":
			parts[i] = "shadowed"
		default:
			parts[i] = fmt.Sprintf("%q", strings.TrimPrefix(a, "lit:"))
		}
	}
	return strings.Join(parts, " + ")
}

func body(r Reg) string {
	var b strings.Builder
	var used []string
	switch r.Input {
	case "int":
		b.WriteString("\tvar in int\n\tif err := c.Bind(&in); err != nil {\n\t\treturn err\n\t}\n")
	case "struct":
		b.WriteString("\tvar in Payload\n\tif err := c.Bind(&in); err != nil {\n\t\treturn err\n\t}\n")
	case "slice":
		b.WriteString("\tvar in []int64\n\terr := c.Bind(&in)\n\tif err != nil {\n\t\treturn err\n\t}\n")
	case "ptr":
		b.WriteString("\tin := new(Payload)\n\tif err := c.Bind(in); err != nil {\n\t\treturn err\n\t}\n")
	}
	for i, q := range r.Query {
		kind, name, _ := strings.Cut(q, ":")
		v := fmt.Sprintf("q%d", i)
		used = append(used, v)
		switch kind {
		case "plain":
			fmt.Fprintf(&b, "\t%s := c.QueryParam(%q)\n", v, name)
		case "bool":
			fmt.Fprintf(&b, "\t%s := theCt.QueryParamBool(c, %q)\n", v, name)
		case "int64":
			fmt.Fprintf(&b, "\t%s := theCt.QueryParamInt64(c, %q)\n", v, name)
		case "generic":
			fmt.Fprintf(&b, "\t%s, err%d := QueryParamInt[IdDossier](c, %q)\n\tif err%d != nil {\n\t\treturn err%d\n\t}\n", v, i, name, i, i)
		case "late": // read after a nested block that answers early (with the handler's own kind of answer)
			early := "return nil"
			switch r.Ret {
			case "json", "jsonlit":
				early = "return c.JSON(200, Result{})"
			case "pretty":
				early = "return c.JSONPretty(200, map[string][]int{}, \" \")"
			case "blob":
				early = "return c.Blob(200, \"application/pdf\", nil)"
			}
			fmt.Fprintf(&b, "\tif len(fmt.Sprint()) == 1 {\n\t\t%s\n\t}\n\t%s := c.QueryParam(%q)\n", early, v, name)
		case "pkggeneric": // the same helper, referenced through a package qualifier
			fmt.Fprintf(&b, "\t%s, err%d := inner.QueryParamInt[IdDossier](c, %q)\n\tif err%d != nil {\n\t\treturn err%d\n\t}\n", v, i, name, i, i)
		}
	}
	for i, n := range r.Form.Values {
		v := fmt.Sprintf("fv%d", i)
		used = append(used, v)
		fmt.Fprintf(&b, "\t%s := c.FormValue(%q)\n", v, n)
	}
	if r.Form.File != "" {
		used = append(used, "ff")
		fmt.Fprintf(&b, "\tff, _ := c.FormFile(%q)\n", r.Form.File)
	}
	if r.Form.JSON != "" && r.Form.JSONKind == "string" {
		fmt.Fprintf(&b, "\tvar label string\n\t_ = FormValueJSON(c, %q, &label)\n", r.Form.JSON)
	} else if r.Form.JSON != "" {
		fmt.Fprintf(&b, "\tvar extra Extra\n\t_ = FormValueJSON(c, %q, &extra)\n", r.Form.JSON)
	}
	if len(used) > 0 {
		fmt.Fprintf(&b, "\tfmt.Println(%s)\n", strings.Join(used, ", "))
	}
	switch r.Ret {
	case "json":
		b.WriteString("\tvar out Result\n\treturn c.JSON(200, out)\n")
	case "jsonlit":
		b.WriteString("\treturn c.JSON(200, Result{})\n")
	case "pretty":
		b.WriteString("\tvar out map[string][]int\n\treturn c.JSONPretty(200, out, \" \")\n")
	case "blob":
		b.WriteString("\tvar output []byte\n\treturn c.Blob(200, \"application/pdf\", output)\n")
	default:
		b.WriteString("\treturn nil\n")
	}
	return b.String()
}

// Render writes the route file of case id.
func Render(id int, regs []Reg) (files map[string]string, source string) {
	dir := fmt.Sprintf("r%d", id)
	var decls, calls strings.Builder
	for i, r := range regs {
		idx := i + 1
		var h string
		switch r.Handler {
		case "method":
			fmt.Fprintf(&decls, "func (ct controller) handle%d(c echo.Context) error {\n%s}\n\n", idx, body(r))
			h = fmt.Sprintf("ct.handle%d", idx)
		case "ptrmethod":
			fmt.Fprintf(&decls, "func (ct controller) handle%d(c echo.Context) error {\n%s}\n\n", idx, body(r))
			h = fmt.Sprintf("ctp.handle%d", idx)
		case "func":
			fmt.Fprintf(&decls, "func plain%d(c echo.Context) error {\n%s}\n\n", idx, body(r))
			h = fmt.Sprintf("plain%d", idx)
		case "localtwin": // a local function with the short name of the imported handler (declared once per file)
			fmt.Fprintf(&decls, "func TopLevel(c echo.Context) error {\n%s}\n\n", body(r))
			h = "TopLevel"
		case "importedfunc":
			h = "inner.TopLevel"
		case "importedmethod":
			h = "ct2.HandleExt"
		case "literal":
			h = "func(c echo.Context) error {\n" + strings.ReplaceAll(body(r), "\n\t", "\n\t\t") + "\t}"
			h = strings.Replace(h, "{\n\t", "{\n\t\t", 1)
		}
		open, close := "\t", ""
		switch r.Where {
		case "closure":
			open, close = "\tct.secured(func() {\n\t\t", "\t})\n"
		case "block":
			open, close = "\tif len(pkgConst) > 0 {\n\t\t", "\t}\n"
		}
		if r.Verb == "Static" {
			fmt.Fprintf(&calls, "%se.Static(%s, \"assets\")\n%s", open, pathExpr(r.Path), close)
			if r.Handler == "literal" || r.Handler == "importedfunc" || r.Handler == "importedmethod" {
				continue
			}
			// the declared handler stays unused: register nothing for it
			continue
		}
		if r.Where != "" {
			h = strings.ReplaceAll(h, "\n\t", "\n\t\t")
		}
		fmt.Fprintf(&calls, "%se.%s(%s, %s)\n%s", open, r.Verb, pathExpr(r.Path), h, close)
	}
	src := fmt.Sprintf(`package %s

import (
	"fmt"

	echo "verif.test/org/zecho"
	inner "verif.test/org/zinner"
)

const pkgConst = "/pkg_const/"

const shadowed = "/shadow_pkg" // hidden by a local constant inside routes()

type IdDossier int64

type Payload struct {
	A int
	B string
}

type Result struct {
	Ok    bool
	Items []string
}

type Extra struct {
	N int
}

type controller struct{}

var theCt controller

var _ = fmt.Sprint

func QueryParamInt[T ~int64](echo.Context, string) (T, error) { return 0, nil }
func (controller) QueryParamInt64(echo.Context, string) int64 { return 0 }
func (controller) QueryParamBool(echo.Context, string) bool   { return false }
func (controller) secured(register func())                    { register() }
func FormValueJSON(echo.Context, string, any) error           { return nil }

%sfunc routes(e *echo.Echo, ct controller, ctp *controller, ct2 inner.Controller) {
	const localConst = "/local_const"
	const shadowed = "/shadow_local"
	_, _ = localConst, shadowed
%s}
`, dir, decls.String(), calls.String())
	return map[string]string{dir + "/routes.go": src}, dir + "/routes.go"
}

type Param struct {
	Name string `json:"name"`
	Type string `json:"type"`
}

// Endpoint is the projection of httpapi.Endpoint into the vocabulary of HttpApi.tla.
type Endpoint struct {
	Method   string   `json:"method"`
	URL      string   `json:"url"`
	Name     string   `json:"name"`
	Input    string   `json:"input"`
	Ret      string   `json:"ret"`
	Blob     bool     `json:"blob"`
	Query    []Param  `json:"query"`
	Values   []string `json:"values"`
	File     string   `json:"file"`
	JSON     string   `json:"json"`
	JSONType string   `json:"jsontype"`
}

func typeStr(t analysis.Type, pkgPath string) string {
	if t == nil {
		return ""
	}
	return strings.ReplaceAll(t.Type().String(), pkgPath, "PKG")
}

// Project converts the real extractor's result.
func Project(api []httpapi.Endpoint, pkgPath string) []Endpoint {
	out := []Endpoint{}
	for _, e := range api {
		p := Endpoint{Method: e.Method, URL: e.Url, Name: e.Contract.Name, Input: typeStr(e.Contract.InputBody, pkgPath), Ret: typeStr(e.Contract.Return, pkgPath),
			Blob: e.Contract.IsReturnBlob, Query: []Param{}, Values: append([]string{}, e.Contract.InputForm.ValueNames...), File: e.Contract.InputForm.File,
			JSON: e.Contract.InputForm.JSON.Name}
		for _, q := range e.Contract.InputQueryParams {
			p.Query = append(p.Query, Param{Name: q.Name, Type: typeStr(q.Type, pkgPath)})
		}
		if e.Contract.InputForm.JSON.Name != "" {
			p.JSONType = typeStr(e.Contract.InputForm.JSON.Type, pkgPath)
			if p.JSONType == "" {
				p.JSONType = "<unresolved>"
			}
		}
		out = append(out, p)
	}
	return out
}

// PkgPath of the route file of case id.
func PkgPath(id int) string { return fmt.Sprintf("%s/r%d", synth.ModRoot, id) }
