// Package tsparse parses the TypeScript declaration subset gomacro emits (type aliases, interfaces,
// `as const` objects, label records, and — skipped as a unit — the Axios class) into a tagged AST
// that the TLA+ modules understand (no nulls, no floats).
package tsparse

import (
	"fmt"
	"strings"
	"unicode"
)

// Type is a TypeScript type expression.
type Type struct {
	T     string  `json:"t"` // ref | prim | lit | array | tuple | object | union | inter | record | valueof
	Name  string  `json:"name"`
	Kind  string  `json:"kind"` // lit: str | num
	V     string  `json:"v"`
	Elems []Type  `json:"elems"` // array: 1 elem; tuple; union alts; inter parts; record: key, value
	Props []Prop  `json:"props"`
}

type Prop struct {
	Name string `json:"name"`
	Type Type   `json:"type"`
}

type Entry struct {
	Key  string `json:"key"`
	Kind string `json:"kind"` // str | num | other
	V    string `json:"v"`
}

// Decl is a top-level declaration.
type Decl struct {
	D       string  `json:"d"` // type | interface | const | labels | class | import
	Name    string  `json:"name"`
	Type    Type    `json:"type"`
	Props   []Prop  `json:"props"`
	Entries []Entry `json:"entries"`
	Body    string  `json:"body"` // class: raw text
}

type File struct {
	Decls []Decl `json:"decls"`
}

// ---------------------------------------------------------------- lexer

type tok struct {
	k   string // id | str | num | punct | eof
	v   string
	pos int
}

type lexer struct {
	src  string
	toks []tok
}

func lex(src string) ([]tok, error) {
	var toks []tok
	i := 0
	for i < len(src) {
		c := src[i]
		switch {
		case c == ' ' || c == '\t' || c == '\n' || c == '\r':
			i++
		case strings.HasPrefix(src[i:], "//"):
			for i < len(src) && src[i] != '\n' {
				i++
			}
		case strings.HasPrefix(src[i:], "/*"):
			j := strings.Index(src[i+2:], "*/")
			if j < 0 {
				return nil, fmt.Errorf("unterminated comment at %d", i)
			}
			i += j + 4
		case c == '"' || c == '\'' || c == '`':
			j := i + 1
			var b strings.Builder
			for j < len(src) && src[j] != c {
				if src[j] == '\\' && j+1 < len(src) {
					switch src[j+1] {
					case 'n':
						b.WriteByte('\n')
					case 't':
						b.WriteByte('\t')
					default:
						b.WriteByte(src[j+1])
					}
					j += 2
					continue
				}
				if src[j] == '\n' && c != '`' {
					return nil, fmt.Errorf("unterminated string at %d", i)
				}
				b.WriteByte(src[j])
				j++
			}
			if j >= len(src) {
				return nil, fmt.Errorf("unterminated string at %d", i)
			}
			toks = append(toks, tok{"str", b.String(), i})
			i = j + 1
		case c >= '0' && c <= '9' || (c == '-' && i+1 < len(src) && src[i+1] >= '0' && src[i+1] <= '9'):
			j := i + 1
			for j < len(src) && (src[j] >= '0' && src[j] <= '9' || src[j] == '.' || src[j] == 'e' || src[j] == 'E' || src[j] == '+' && (src[j-1] == 'e' || src[j-1] == 'E') || src[j] == '-' && (src[j-1] == 'e' || src[j-1] == 'E')) {
				j++
			}
			toks = append(toks, tok{"num", src[i:j], i})
			i = j
		case c == '_' || c == '$' || unicode.IsLetter(rune(c)) || c >= 0x80:
			j := i
			for j < len(src) && (src[j] == '_' || src[j] == '$' || src[j] >= 0x80 || unicode.IsLetter(rune(src[j])) || unicode.IsDigit(rune(src[j]))) {
				j++
			}
			toks = append(toks, tok{"id", src[i:j], i})
			i = j
		default:
			if strings.HasPrefix(src[i:], "=>") || strings.HasPrefix(src[i:], "...") {
				n := 2
				if src[i] == '.' {
					n = 3
				}
				toks = append(toks, tok{"punct", src[i : i+n], i})
				i += n
			} else {
				toks = append(toks, tok{"punct", string(c), i})
				i++
			}
		}
	}
	toks = append(toks, tok{"eof", "", len(src)})
	return toks, nil
}

// ---------------------------------------------------------------- parser

type parser struct {
	src  string
	toks []tok
	p    int
}

type SyntaxError struct{ Msg string }

func (e *SyntaxError) Error() string { return e.Msg }

func (p *parser) peek() tok { return p.toks[p.p] }
func (p *parser) next() tok { t := p.toks[p.p]; p.p++; return t }
func (p *parser) is(v string) bool {
	t := p.peek()
	return (t.k == "punct" || t.k == "id") && t.v == v
}
func (p *parser) accept(v string) bool {
	if p.is(v) {
		p.p++
		return true
	}
	return false
}
func (p *parser) fail(format string, a ...any) {
	t := p.peek()
	lo := t.pos - 30
	if lo < 0 {
		lo = 0
	}
	hi := t.pos + 30
	if hi > len(p.src) {
		hi = len(p.src)
	}
	panic(&SyntaxError{fmt.Sprintf(format, a...) + fmt.Sprintf(" near %q", p.src[lo:hi])})
}
func (p *parser) expect(v string) {
	if !p.accept(v) {
		p.fail("expected %q, found %q", v, p.peek().v)
	}
}
func (p *parser) ident() string {
	t := p.next()
	if t.k != "id" {
		p.p--
		p.fail("expected identifier, found %q", t.v)
	}
	return t.v
}

// Parse parses a generated TypeScript file.
func Parse(src string) (f *File, err error) {
	toks, err := lex(src)
	if err != nil {
		return nil, &SyntaxError{err.Error()}
	}
	p := &parser{src: src, toks: toks}
	defer func() {
		if r := recover(); r != nil {
			if se, ok := r.(*SyntaxError); ok {
				err = se
				return
			}
			panic(r)
		}
	}()
	f = &File{}
	for p.peek().k != "eof" {
		if p.accept(";") {
			continue
		}
		f.Decls = append(f.Decls, p.decl())
	}
	return f, nil
}

func (p *parser) decl() Decl {
	if p.accept("import") {
		for !p.is(";") && p.peek().k != "eof" {
			// import type { X } from "y";   import X from "y"
			if p.peek().k == "str" {
				p.next()
				break
			}
			p.next()
		}
		p.accept(";")
		return Decl{D: "import"}
	}
	p.expect("export")
	switch {
	case p.accept("type"):
		name := p.ident()
		p.expect("=")
		t := p.typ()
		p.accept(";")
		return Decl{D: "type", Name: name, Type: t}
	case p.accept("interface"):
		name := p.ident()
		props := p.objectBody()
		return Decl{D: "interface", Name: name, Props: props}
	case p.accept("const"):
		name := p.ident()
		if p.accept(":") { // labels record: export const XLabels: Record<X, string> = { [X.A]: "..", };
			p.typ()
			p.expect("=")
			p.skipBalanced("{", "}")
			p.accept(";")
			return Decl{D: "labels", Name: name}
		}
		p.expect("=")
		p.expect("{")
		var entries []Entry
		for !p.is("}") {
			var key string
			t := p.next()
			switch t.k {
			case "id", "str", "num":
				key = t.v
			default:
				p.p--
				p.fail("expected property name in const object, found %q", t.v)
			}
			p.expect(":")
			v := p.next()
			e := Entry{Key: key, V: v.v, Kind: "other"}
			switch v.k {
			case "str":
				e.Kind = "str"
			case "num":
				e.Kind = "num"
			case "id":
				if v.v == "true" || v.v == "false" {
					e.Kind = "bool"
				}
			default:
				p.p--
				p.fail("expected literal value in const object, found %q", v.v)
			}
			entries = append(entries, e)
			if !p.accept(",") {
				break
			}
		}
		p.expect("}")
		p.expect("as")
		p.expect("const")
		p.accept(";")
		return Decl{D: "const", Name: name, Entries: entries}
	case p.accept("abstract"), p.is("class"):
		p.expect("class")
		name := p.ident()
		start := p.peek().pos
		p.skipBalanced("{", "}")
		end := p.toks[p.p-1].pos + 1
		return Decl{D: "class", Name: name, Body: p.src[start:end]}
	}
	p.fail("unknown declaration starting with %q", p.peek().v)
	return Decl{}
}

func (p *parser) skipBalanced(open, close string) {
	p.expect(open)
	depth := 1
	for depth > 0 {
		t := p.next()
		if t.k == "eof" {
			p.p--
			p.fail("unbalanced %s", open)
		}
		if t.k == "punct" && t.v == open {
			depth++
		} else if t.k == "punct" && t.v == close {
			depth--
		}
	}
}

// objectBody parses { name: T, "name": T; ... }
func (p *parser) objectBody() []Prop {
	p.expect("{")
	props := []Prop{}
	for !p.is("}") {
		t := p.next()
		var name string
		switch t.k {
		case "id", "str":
			name = t.v
		default:
			p.p--
			p.fail("expected property name, found %q", t.v)
		}
		p.accept("?")
		p.expect(":")
		ty := p.typ()
		props = append(props, Prop{Name: name, Type: ty})
		if !(p.accept(",") || p.accept(";")) {
			// newline-separated members are legal in interfaces
			if p.is("}") {
				break
			}
			nt := p.peek()
			if nt.k == "id" || nt.k == "str" {
				continue
			}
			p.fail("expected ',' or '}' in object type, found %q", nt.v)
		}
	}
	p.expect("}")
	return props
}

func (p *parser) typ() Type {
	p.accept("|") // leading bar
	alts := []Type{p.inter()}
	for p.accept("|") {
		alts = append(alts, p.inter())
	}
	if len(alts) == 1 {
		return alts[0]
	}
	return Type{T: "union", Elems: alts}
}

func (p *parser) inter() Type {
	parts := []Type{p.postfix()}
	for p.accept("&") {
		parts = append(parts, p.postfix())
	}
	if len(parts) == 1 {
		return parts[0]
	}
	return Type{T: "inter", Elems: parts}
}

func (p *parser) postfix() Type {
	t := p.primary()
	for p.is("[") {
		// T[]  or  (typeof X)[keyof typeof X]
		p.next()
		if p.accept("]") {
			t = Type{T: "array", Elems: []Type{t}}
			continue
		}
		if p.accept("keyof") {
			p.expect("typeof")
			name := p.ident()
			p.expect("]")
			if t.T == "typeof" && t.Name == name {
				t = Type{T: "valueof", Name: name}
				continue
			}
			p.fail("unsupported indexed access type")
		}
		p.fail("unsupported indexed access type")
	}
	return t
}

func (p *parser) primary() Type {
	t := p.peek()
	switch {
	case t.k == "punct" && t.v == "(":
		p.next()
		in := p.typ()
		p.expect(")")
		return in
	case t.k == "punct" && t.v == "{":
		return Type{T: "object", Props: p.objectBody()}
	case t.k == "punct" && t.v == "[":
		p.next()
		elems := []Type{}
		for !p.is("]") {
			elems = append(elems, p.typ())
			if !p.accept(",") {
				break
			}
		}
		p.expect("]")
		return Type{T: "tuple", Elems: elems}
	case t.k == "str":
		p.next()
		return Type{T: "lit", Kind: "str", V: t.v}
	case t.k == "num":
		p.next()
		return Type{T: "lit", Kind: "num", V: t.v}
	case t.k == "id":
		p.next()
		switch t.v {
		case "string", "number", "boolean", "null", "unknown", "never", "any", "undefined", "void":
			return Type{T: "prim", Name: t.v}
		case "true", "false":
			return Type{T: "lit", Kind: "bool", V: t.v}
		case "typeof":
			return Type{T: "typeof", Name: p.ident()}
		case "Record":
			p.expect("<")
			k := p.typ()
			p.expect(",")
			v := p.typ()
			p.expect(">")
			return Type{T: "record", Elems: []Type{k, v}}
		}
		if p.is("<") { // other generics: AxiosResponse<T> etc.
			p.next()
			args := []Type{p.typ()}
			for p.accept(",") {
				args = append(args, p.typ())
			}
			p.expect(">")
			return Type{T: "generic", Name: t.v, Elems: args}
		}
		return Type{T: "ref", Name: t.v}
	}
	p.fail("unexpected token %q in type", t.v)
	return Type{}
}

// Normalize fills nil slices so that the JSON form has no null (TLC's Json module rejects null).
func (t *Type) Normalize() {
	if t.Elems == nil {
		t.Elems = []Type{}
	}
	if t.Props == nil {
		t.Props = []Prop{}
	}
	for i := range t.Elems {
		t.Elems[i].Normalize()
	}
	for i := range t.Props {
		t.Props[i].Type.Normalize()
	}
}

func (f *File) Normalize() {
	for i := range f.Decls {
		d := &f.Decls[i]
		d.Type.Normalize()
		if d.Props == nil {
			d.Props = []Prop{}
		}
		if d.Entries == nil {
			d.Entries = []Entry{}
		}
		for j := range d.Props {
			d.Props[j].Type.Normalize()
		}
	}
}

// Find returns the declaration(s) named name.
func (f *File) Find(name string) []Decl {
	var out []Decl
	for _, d := range f.Decls {
		if d.Name == name && d.D != "labels" {
			out = append(out, d)
		}
	}
	return out
}
