package tsparse

import (
	"fmt"
	"strings"
)

// Method is one method of the generated Axios class.
type Method struct {
	Name   string  `json:"name"`
	Async  bool    `json:"async"`
	Params []Prop  `json:"params"`
}

type Class struct {
	Name    string   `json:"name"`
	Methods []Method `json:"methods"`
	JS      string   `json:"-"` // the class with the type syntax stripped
}

// skipBalancedText returns the index after the bracket closing the one at s[i].
func skipBalancedText(s string, i int) (int, error) {
	open := s[i]
	close := map[byte]byte{'(': ')', '{': '}', '[': ']', '<': '>'}[open]
	depth := 0
	for j := i; j < len(s); j++ {
		switch c := s[j]; {
		case c == '"' || c == '\'' || c == '`':
			k := j + 1
			for k < len(s) && s[k] != c {
				if s[k] == '\\' {
					k++
				}
				k++
			}
			j = k
		case c == open:
			depth++
		case c == close:
			depth--
			if depth == 0 {
				return j + 1, nil
			}
		}
	}
	return 0, fmt.Errorf("unbalanced %c", open)
}

// splitTopLevel splits a parameter list at commas that are not nested in brackets or strings.
func splitTopLevel(s string) []string {
	var out []string
	depth := 0
	start := 0
	for j := 0; j < len(s); j++ {
		switch c := s[j]; {
		case c == '"' || c == '\'':
			k := j + 1
			for k < len(s) && s[k] != c {
				k++
			}
			j = k
		case c == '(' || c == '{' || c == '[' || c == '<':
			depth++
		case c == ')' || c == '}' || c == ']' || c == '>':
			depth--
		case c == ',' && depth == 0:
			out = append(out, s[start:j])
			start = j + 1
		}
	}
	if strings.TrimSpace(s[start:]) != "" {
		out = append(out, s[start:])
	}
	return out
}

func isIdentStart(c byte) bool { return c == '_' || c == '$' || c >= 'a' && c <= 'z' || c >= 'A' && c <= 'Z' }
func isIdentChar(c byte) bool  { return isIdentStart(c) || c >= '0' && c <= '9' }

// ParseClass parses the generated class declaration (signatures only) and strips its type syntax.
// body is the text from the opening to the closing brace of the class.
func ParseClass(name, body string) (*Class, error) {
	cl := &Class{Name: name, Methods: []Method{}}
	var js strings.Builder
	js.WriteString("class " + name + " {\n")
	inner := body[1 : len(body)-1]
	i := 0
	for i < len(inner) {
		c := inner[i]
		switch {
		case c == ' ' || c == '\t' || c == '\n' || c == '\r' || c == ';':
			i++
		case strings.HasPrefix(inner[i:], "/*"):
			j := strings.Index(inner[i:], "*/")
			if j < 0 {
				return nil, fmt.Errorf("unterminated comment in class")
			}
			i += j + 2
		case strings.HasPrefix(inner[i:], "//"):
			for i < len(inner) && inner[i] != '\n' {
				i++
			}
		case isIdentStart(c):
			// member: modifiers* name ( params ) [: type] ( { body } | end of line )
			var words []string
			for {
				j := i
				for j < len(inner) && isIdentChar(inner[j]) {
					j++
				}
				words = append(words, inner[i:j])
				i = j
				for i < len(inner) && (inner[i] == ' ' || inner[i] == '\t') {
					i++
				}
				if i < len(inner) && isIdentStart(inner[i]) {
					continue
				}
				break
			}
			if i >= len(inner) || inner[i] != '(' {
				return nil, fmt.Errorf("class member %q: parameter list expected", strings.Join(words, " "))
			}
			end, err := skipBalancedText(inner, i)
			if err != nil {
				return nil, err
			}
			paramText := inner[i+1 : end-1]
			i = end
			mname := words[len(words)-1]
			mods := map[string]bool{}
			for _, w := range words[:len(words)-1] {
				mods[w] = true
			}
			var params []Prop
			var names []string
			for _, p := range splitTopLevel(paramText) {
				p = strings.TrimSpace(p)
				for _, m := range []string{"protected ", "private ", "public ", "readonly "} {
					p = strings.TrimPrefix(p, m)
				}
				pn, pt, hasType := strings.Cut(p, ":")
				pn = strings.TrimSpace(strings.TrimSuffix(strings.TrimSpace(pn), "?"))
				if pn == "" || !isIdentStart(pn[0]) {
					return nil, fmt.Errorf("method %s: bad parameter %q", mname, p)
				}
				prop := Prop{Name: pn, Type: Type{T: "prim", Name: "any"}}
				if hasType {
					f, err := Parse("export type X = " + pt)
					if err != nil {
						return nil, fmt.Errorf("method %s, parameter %s: %v", mname, pn, err)
					}
					prop.Type = f.Decls[0].Type
				}
				prop.Type.Normalize()
				params = append(params, prop)
				names = append(names, pn)
			}
			// optional return type annotation
			for i < len(inner) && (inner[i] == ' ' || inner[i] == '\t') {
				i++
			}
			if i < len(inner) && inner[i] == ':' {
				for i < len(inner) && inner[i] != '{' && inner[i] != '\n' {
					i++
				}
			}
			for i < len(inner) && (inner[i] == ' ' || inner[i] == '\t') {
				i++
			}
			if mods["abstract"] {
				for i < len(inner) && inner[i] != '\n' {
					i++
				}
				continue
			}
			if i >= len(inner) || inner[i] != '{' {
				return nil, fmt.Errorf("method %s: body expected", mname)
			}
			bend, err := skipBalancedText(inner, i)
			if err != nil {
				return nil, err
			}
			mbody := inner[i:bend]
			i = bend
			if mname == "constructor" {
				js.WriteString("constructor(" + strings.Join(names, ", ") + ") {\n")
				for _, n := range names {
					js.WriteString("this." + n + " = " + n + ";\n")
				}
				js.WriteString("}\n")
				continue
			}
			// the only type annotation of the bodies: const rep:AxiosResponse<T> =
			for {
				k := strings.Index(mbody, "const rep")
				if k < 0 {
					break
				}
				rest := mbody[k+len("const rep"):]
				trim := strings.TrimLeft(rest, " \t")
				if !strings.HasPrefix(trim, ":") {
					break
				}
				eq := -1
				depth := 0
				for x := 0; x < len(trim); x++ {
					if trim[x] == '<' {
						depth++
					} else if trim[x] == '>' {
						depth--
					} else if trim[x] == '=' && depth == 0 {
						eq = x
						break
					}
				}
				if eq < 0 {
					return nil, fmt.Errorf("method %s: unterminated annotation of rep", mname)
				}
				mbody = mbody[:k] + "const REP_ =" + trim[eq+1:]
			}
			mbody = strings.ReplaceAll(mbody, "const REP_ =", "const rep =")
			prefix := ""
			if mods["async"] {
				prefix = "async "
			}
			js.WriteString(prefix + mname + "(" + strings.Join(names, ", ") + ") " + mbody + "\n")
			if params == nil {
				params = []Prop{}
			}
			cl.Methods = append(cl.Methods, Method{Name: mname, Async: mods["async"], Params: params})
		default:
			return nil, fmt.Errorf("unexpected character %q in class body", string(c))
		}
	}
	js.WriteString("}\n")
	cl.JS = js.String()
	return cl, nil
}
