package tsparse

import "testing"

func TestParse(t *testing.T) {
	src := `// header
export type Int = number & { __opaque__: 'Int' };
// c
export type Ar2_Int = [Int,Int,]
export interface S {
	a: Int,
	"b-c": ( string[] | null),
	m: (Record<Kind,boolean> | null),
	u: unknown,
}
export type E = Record<string, never>
export const Kind = {
	A : 0,
	B : 1,
} as const;
export type Kind = (typeof Kind)[keyof typeof Kind];
export const KindLabels: Record<Kind, string> = {
	[Kind.A]: "x",
	[Kind.B]: "",
};
export type Shape =
	| { Kind : "Circle", Data: Circle}
	| { Kind : "Rect", Data: Rect}
`
	f, err := Parse(src)
	if err != nil {
		t.Fatal(err)
	}
	if len(f.Decls) != 8 {
		t.Fatalf("got %d decls", len(f.Decls))
	}
	if _, err := Parse("export interface S { a,omitempty: Int, }"); err == nil {
		t.Fatal("syntax error expected")
	}
}
