package wire

import (
	"go/printer"
	"go/token"
	"io"
)

func printerFprint(w io.Writer, fset *token.FileSet, node any) { printer.Fprint(w, fset, node) }
