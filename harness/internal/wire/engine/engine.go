// Package zengine is copied into the scratch modules: it runs inside binaries compiled from the
// synthesised packages plus the code gomacro generated for them.  It builds random values by
// reflection (unions from registered members, enums from registered constants), calls the generated
// rand functions, marshals / unmarshals with encoding/json, and prints value trees and tagged JSON
// documents (no null, no float: the vocabulary of spec/WireJSON.tla).
package zengine

import (
	"bytes"
	"encoding/base64"
	"encoding/json"
	"fmt"
	"io"
	"math/rand"
	"reflect"
	"sort"
	"strings"
	"time"
)

type TypeEntry struct {
	Name string
	Type reflect.Type
	Rand func() reflect.Value // the generated rand function (value typed statically), nil when absent
}

type Registry struct {
	Prog   int
	Types  []TypeEntry
	Unions map[reflect.Type][]reflect.Type // interface type -> member types
	Enums  map[reflect.Type][]any          // enum type -> all declared member values
	ExportedEnums map[reflect.Type][]any   // enum type -> exported member values
}

var timeType = reflect.TypeOf(time.Time{})

type M = map[string]any

// ---------------------------------------------------------------- building values

type builder struct {
	reg *Registry
	rng *rand.Rand
}

var sampleStrings = []string{"", "a", "hello", "héllo wörld", "q\"uote", "日本", "x y", "line\nbreak"}

func (b *builder) build(t reflect.Type, depth int) reflect.Value {
	v := reflect.New(t).Elem()
	if members, ok := b.reg.Unions[t]; ok && len(members) > 0 {
		m := members[b.rng.Intn(len(members))]
		v.Set(b.build(m, depth+1))
		return v
	}
	if vals, ok := b.reg.Enums[t]; ok && len(vals) > 0 {
		v.Set(reflect.ValueOf(vals[b.rng.Intn(len(vals))]).Convert(t))
		return v
	}
	if t.ConvertibleTo(timeType) && t.Kind() == reflect.Struct {
		tm := time.Unix(int64(b.rng.Intn(2000000000)), 0).UTC()
		v.Set(reflect.ValueOf(tm).Convert(t))
		return v
	}
	switch t.Kind() {
	case reflect.Struct:
		for i := 0; i < t.NumField(); i++ {
			// a field encoding/json never writes cannot come back: it keeps its zero value
			if v.Field(i).CanSet() && t.Field(i).Tag.Get("json") != "-" {
				v.Field(i).Set(b.build(t.Field(i).Type, depth+1))
			}
		}
	case reflect.Int, reflect.Int8, reflect.Int16, reflect.Int32, reflect.Int64:
		v.SetInt(int64([]int{0, 1, 7, -3, 42, 100}[b.rng.Intn(6)]))
	case reflect.Uint, reflect.Uint8, reflect.Uint16, reflect.Uint32, reflect.Uint64:
		v.SetUint(uint64([]int{0, 1, 7, 200}[b.rng.Intn(4)]))
	case reflect.Float32, reflect.Float64:
		v.SetFloat([]float64{0, 1.5, -2.25, 3, 1000000}[b.rng.Intn(5)])
	case reflect.Bool:
		v.SetBool(b.rng.Intn(2) == 0)
	case reflect.String:
		v.SetString(sampleStrings[b.rng.Intn(len(sampleStrings))])
	case reflect.Slice:
		switch c := b.rng.Intn(6); {
		case c == 0 || depth > 5: // nil
		case c == 1:
			v.Set(reflect.MakeSlice(t, 0, 0))
		default:
			n := 1 + b.rng.Intn(3)
			s := reflect.MakeSlice(t, n, n)
			for i := 0; i < n; i++ {
				s.Index(i).Set(b.build(t.Elem(), depth+1))
			}
			v.Set(s)
		}
	case reflect.Array:
		for i := 0; i < t.Len(); i++ {
			v.Index(i).Set(b.build(t.Elem(), depth+1))
		}
	case reflect.Map:
		switch c := b.rng.Intn(6); {
		case c == 0 || depth > 5:
		case c == 1:
			v.Set(reflect.MakeMap(t))
		default:
			m := reflect.MakeMap(t)
			for i := 0; i < 1+b.rng.Intn(3); i++ {
				m.SetMapIndex(b.build(t.Key(), depth+1), b.build(t.Elem(), depth+1))
			}
			v.Set(m)
		}
	case reflect.Pointer:
		if b.rng.Intn(3) != 0 && depth < 5 {
			p := reflect.New(t.Elem())
			p.Elem().Set(b.build(t.Elem(), depth+1))
			v.Set(p)
		}
	case reflect.Interface:
		// an interface that is not a registered union stays nil
	}
	return v
}

// ---------------------------------------------------------------- value trees

func typeName(t reflect.Type) string {
	if t.Name() == "" {
		return t.String()
	}
	p := t.PkgPath()
	if i := strings.LastIndex(p, "/org/"); i >= 0 {
		p = p[i+5:]
	}
	return p + "." + t.Name()
}

func jsonLit(v any) string {
	b, err := json.Marshal(v)
	if err != nil {
		return "<" + err.Error() + ">"
	}
	return string(b)
}

func (r *Registry) tree(v reflect.Value) M {
	t := v.Type()
	if _, ok := r.Unions[t]; ok {
		if v.IsNil() {
			return M{"k": "union", "iface": typeName(t), "nil": true, "dyn": "", "v": M{"k": "none"}}
		}
		e := v.Elem()
		return M{"k": "union", "iface": typeName(t), "nil": false, "dyn": e.Type().Name(), "v": r.tree(e)}
	}
	if _, ok := r.Enums[t]; ok {
		if t.Kind() == reflect.String {
			return M{"k": "enum", "type": typeName(t), "base": "str", "lit": v.String()}
		}
		members := []string{}
		for _, m := range r.Enums[t] {
			members = append(members, jsonLit(m))
		}
		return M{"k": "enum", "type": typeName(t), "base": "num", "lit": jsonLit(v.Interface()), "members": members}
	}
	if t.ConvertibleTo(timeType) && t.Kind() == reflect.Struct {
		tm := v.Convert(timeType).Interface().(time.Time)
		b, _ := tm.MarshalJSON()
		var s string
		json.Unmarshal(b, &s)
		return M{"k": "time", "type": typeName(t), "v": s}
	}
	switch t.Kind() {
	case reflect.Struct:
		fields := []any{}
		for i := 0; i < t.NumField(); i++ {
			f := t.Field(i)
			tag, has := f.Tag.Lookup("json")
			name, opts, found := strings.Cut(tag, ",")
			if found {
				opts = "," + opts
			}
			fm := M{"go": f.Name, "exp": f.IsExported(), "emb": f.Anonymous, "embstruct": f.Anonymous && f.Type.Kind() == reflect.Struct,
				"hasjson": has, "tagname": name, "tagopts": opts,
				"omitempty": strings.Contains(opts+",", ",omitempty,"), "asstring": strings.Contains(opts+",", ",string,"), "gomacro": f.Tag.Get("gomacro"), "data": f.Tag.Get("gomacro-data")}
			if f.IsExported() || (f.Anonymous && f.Type.Kind() == reflect.Struct) {
				fm["v"] = r.tree(v.Field(i))
			} else {
				fm["v"] = M{"k": "hidden", "zero": v.Field(i).IsZero()}
			}
			fields = append(fields, fm)
		}
		return M{"k": "struct", "type": typeName(t), "fields": fields}
	case reflect.Int, reflect.Int8, reflect.Int16, reflect.Int32, reflect.Int64, reflect.Uint, reflect.Uint8, reflect.Uint16, reflect.Uint32, reflect.Uint64:
		return M{"k": "int", "type": typeName(t), "lit": jsonLit(v.Interface())}
	case reflect.Float32, reflect.Float64:
		lit := jsonLit(v.Interface())
		return M{"k": "float", "type": typeName(t), "lit": lit, "intlit": !strings.ContainsAny(lit, ".eE")}
	case reflect.Bool:
		return M{"k": "bool", "type": typeName(t), "v": v.Bool()}
	case reflect.String:
		return M{"k": "string", "type": typeName(t), "v": v.String()}
	case reflect.Slice:
		if t.Elem().Kind() == reflect.Uint8 {
			if v.IsNil() {
				return M{"k": "bytes", "type": typeName(t), "nil": true, "b64": ""}
			}
			return M{"k": "bytes", "type": typeName(t), "nil": false, "b64": base64.StdEncoding.EncodeToString(v.Bytes())}
		}
		elems := []any{}
		for i := 0; i < v.Len(); i++ {
			elems = append(elems, r.tree(v.Index(i)))
		}
		return M{"k": "slice", "type": typeName(t), "nil": v.IsNil(), "elems": elems}
	case reflect.Array:
		elems := []any{}
		for i := 0; i < v.Len(); i++ {
			elems = append(elems, r.tree(v.Index(i)))
		}
		return M{"k": "array", "type": typeName(t), "len": t.Len(), "elems": elems}
	case reflect.Map:
		type ent struct {
			k string
			m M
		}
		var es []ent
		it := v.MapRange()
		for it.Next() {
			// key text as encoding/json writes it
			kb, _ := json.Marshal(it.Key().Interface())
			ks := string(kb)
			if len(ks) > 0 && ks[0] == '"' {
				json.Unmarshal(kb, &ks)
			}
			es = append(es, ent{ks, M{"key": ks, "kv": r.tree(it.Key()), "v": r.tree(it.Value())}})
		}
		sort.Slice(es, func(i, j int) bool { return es[i].k < es[j].k })
		entries := []any{}
		for _, e := range es {
			entries = append(entries, e.m)
		}
		return M{"k": "map", "type": typeName(t), "nil": v.IsNil(), "entries": entries}
	case reflect.Pointer:
		if v.IsNil() {
			return M{"k": "ptr", "nil": true, "v": M{"k": "none"}}
		}
		return M{"k": "ptr", "nil": false, "v": r.tree(v.Elem())}
	case reflect.Interface:
		return M{"k": "iface", "nil": v.IsNil()}
	}
	return M{"k": "other", "type": t.String()}
}

// normalise: a nil and an empty slice or map count as equal; a field encoding/json never writes
// (unexported, json:"-") cannot come back and is left out of the comparison
func normalise(x any) any {
	switch m := x.(type) {
	case M:
		if _, isField := m["go"]; isField {
			if m["exp"] == false && m["embstruct"] == false || (m["hasjson"] == true && m["tagname"] == "-" && m["tagopts"] == "") {
				return M{"go": m["go"], "skipped": true}
			}
		}
		// a pointer to a nil slice / map / nil pointer is written null and read back as a nil pointer (encoding/json)
		if m["k"] == "ptr" && m["nil"] == false {
			if inner, ok := m["v"].(M); ok {
				switch inner["k"] {
				case "slice", "map", "bytes", "ptr":
					if inner["nil"] == true {
						return M{"k": "ptr", "nil": true}
					}
				}
			}
		}
		if m["k"] == "ptr" && m["nil"] == true {
			return M{"k": "ptr", "nil": true}
		}
		out := M{}
		for k, v := range m {
			if k == "nil" && (m["k"] == "slice" || m["k"] == "map" || m["k"] == "bytes") {
				continue
			}
			out[k] = normalise(v)
		}
		return out
	case []any:
		out := make([]any, len(m))
		for i, v := range m {
			out[i] = normalise(v)
		}
		return out
	}
	return x
}

// ---------------------------------------------------------------- tagged documents

// Doc converts JSON text into the tagged form {"t":"obj","kv":[[k,doc]...]} ... preserving key order.
func Doc(b []byte) (M, error) {
	dec := json.NewDecoder(bytes.NewReader(b))
	dec.UseNumber()
	d, err := docValue(dec)
	if err != nil {
		return nil, err
	}
	if _, err := dec.Token(); err != io.EOF {
		return nil, fmt.Errorf("trailing data")
	}
	return d, nil
}

func docValue(dec *json.Decoder) (M, error) {
	tok, err := dec.Token()
	if err != nil {
		return nil, err
	}
	switch t := tok.(type) {
	case json.Delim:
		if t == '{' {
			kv := []any{}
			for dec.More() {
				kt, err := dec.Token()
				if err != nil {
					return nil, err
				}
				v, err := docValue(dec)
				if err != nil {
					return nil, err
				}
				kv = append(kv, []any{kt.(string), v})
			}
			dec.Token()
			return M{"t": "obj", "kv": kv}, nil
		}
		el := []any{}
		for dec.More() {
			v, err := docValue(dec)
			if err != nil {
				return nil, err
			}
			el = append(el, v)
		}
		dec.Token()
		return M{"t": "arr", "el": el}, nil
	case string:
		return M{"t": "str", "v": t}, nil
	case json.Number:
		s := t.String()
		return M{"t": "num", "int": !strings.ContainsAny(s, ".eE"), "lit": s}, nil
	case bool:
		return M{"t": "bool", "v": t}, nil
	case nil:
		return M{"t": "null"}, nil
	}
	return nil, fmt.Errorf("unexpected token %v", tok)
}

// ---------------------------------------------------------------- run

func emit(w io.Writer, m M) {
	b, err := json.Marshal(m)
	if err != nil {
		b, _ = json.Marshal(M{"ev": "error", "msg": err.Error()})
	}
	w.Write(append(b, '\n'))
}

func (r *Registry) observe(w io.Writer, te TypeEntry, src string, seq int, val reflect.Value) {
	rec := M{"ev": "value", "prog": r.Prog, "type": te.Name, "src": src, "seq": seq, "err": "", "roundtrip": false, "stable": false}
	func() {
		defer func() {
			if e := recover(); e != nil {
				rec["err"] = fmt.Sprint("panic: ", e)
			}
		}()
		tr := r.tree(val)
		rec["tree"] = tr
		ptr := reflect.New(val.Type())
		ptr.Elem().Set(val)
		b, err := json.Marshal(ptr.Interface())
		if err != nil {
			rec["err"] = "marshal: " + err.Error()
			return
		}
		// the wire format belongs to the value: marshalling it directly (not addressable) must give the same bytes
		if bv, errv := json.Marshal(val.Interface()); errv != nil || !bytes.Equal(bv, b) {
			b = bv
			if errv != nil {
				rec["err"] = "marshal (by value): " + errv.Error()
				return
			}
		}
		d, err := Doc(b)
		if err != nil {
			rec["err"] = "invalid JSON: " + err.Error()
			return
		}
		rec["doc"] = d
		back := reflect.New(val.Type())
		if err := json.Unmarshal(b, back.Interface()); err != nil {
			rec["err"] = "unmarshal: " + err.Error()
			return
		}
		n1, n2 := normalise(tr), normalise(r.tree(back.Elem()))
		rec["roundtrip"] = reflect.DeepEqual(n1, n2)
		if rec["roundtrip"] == false {
			rec["err"] = ""
			rec["rtdiff"] = firstDiff("", n1, n2)
		}
		b2, err := json.Marshal(back.Interface())
		rec["stable"] = err == nil && bytes.Equal(b, b2)
	}()
	if rec["tree"] == nil {
		rec["tree"] = M{"k": "none"}
	}
	if rec["doc"] == nil {
		rec["doc"] = M{"t": "none"}
	}
	emit(w, rec)
}

// Run prints nBuilt reflection-built values and nRand generated-random values per type.
// skip lists type names whose rand function must not be called (it died in an earlier run).
func Run(reg *Registry, w io.Writer, seed int64, nBuilt, nRand int, skip map[string]bool) {
	b := &builder{reg: reg, rng: rand.New(rand.NewSource(seed))}
	// the registries, in the vocabulary of the value trees
	enums, unions := []any{}, []any{}
	for t, vals := range reg.ExportedEnums {
		lits := []any{}
		for _, v := range vals {
			if t.Kind() == reflect.String {
				lits = append(lits, reflect.ValueOf(v).Convert(t).String())
			} else {
				lits = append(lits, jsonLit(v))
			}
		}
		enums = append(enums, M{"type": typeName(t), "exported": lits})
	}
	for t, ms := range reg.Unions {
		names := []any{}
		for _, m := range ms {
			names = append(names, m.Name())
		}
		unions = append(unions, M{"iface": typeName(t), "members": names})
	}
	emit(w, M{"ev": "registry", "prog": reg.Prog, "enums": enums, "unions": unions})
	for _, te := range reg.Types {
		for i := 0; i < nBuilt; i++ {
			var val reflect.Value
			ok := true
			func() {
				defer func() {
					if e := recover(); e != nil {
						ok = false
						emit(w, M{"ev": "error", "prog": reg.Prog, "type": te.Name, "msg": fmt.Sprint("builder panic: ", e)})
					}
				}()
				val = b.build(te.Type, 0)
			}()
			if ok {
				reg.observe(w, te, "built", i, val)
			}
		}
	}
	for _, te := range reg.Types {
		if te.Rand == nil || nRand == 0 || skip[te.Name] {
			continue
		}
		emit(w, M{"ev": "randstart", "prog": reg.Prog, "type": te.Name})
		for i := 0; i < nRand; i++ {
			var val reflect.Value
			ok := true
			func() {
				defer func() {
					if e := recover(); e != nil {
						ok = false
						emit(w, M{"ev": "randpanic", "prog": reg.Prog, "type": te.Name, "msg": fmt.Sprint(e)})
					}
				}()
				val = te.Rand()
			}()
			if !ok {
				break
			}
			reg.observe(w, te, "rand", i, val)
		}
		emit(w, M{"ev": "randend", "prog": reg.Prog, "type": te.Name})
	}
}

func firstDiff(path string, a, b any) string {
	switch x := a.(type) {
	case M:
		y, ok := b.(M)
		if !ok {
			return path + ": kinds differ"
		}
		keys := make([]string, 0, len(x))
		for k := range x {
			keys = append(keys, k)
		}
		sort.Strings(keys)
		for _, k := range keys {
			if !reflect.DeepEqual(x[k], y[k]) {
				label := k
				if g, ok := x["go"].(string); ok {
					label = g + "." + k
				}
				return firstDiff(path+"/"+label, x[k], y[k])
			}
		}
	case []any:
		y, ok := b.([]any)
		if !ok || len(x) != len(y) {
			return fmt.Sprintf("%s: lengths differ (%d vs %v)", path, len(x), b)
		}
		for i := range x {
			if !reflect.DeepEqual(x[i], y[i]) {
				return firstDiff(fmt.Sprintf("%s[%d]", path, i), x[i], y[i])
			}
		}
	}
	return fmt.Sprintf("%s: %v != %v", path, a, b)
}
