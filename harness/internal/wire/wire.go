// Package wire compiles synthesised programs together with the Go code gomacro generates for them
// (union wrappers, random data) into one binary and collects the values / JSON documents it prints.
package wire

import (
	"bufio"
	"bytes"
	_ "embed"
	"encoding/json"
	"fmt"
	"go/ast"
	"go/parser"
	"go/token"
	"go/types"
	"os"
	"os/exec"
	"path/filepath"
	"sort"
	"strings"
	"sync"
	"time"

	"github.com/benoitkugler/gomacro/analysis"
	"golang.org/x/tools/go/packages"
	"golang.org/x/tools/imports"

	"verif/harness/internal/absprog"
	"verif/harness/internal/gens"
	"verif/harness/internal/synth"
)

//go:embed engine/engine.go
var engineSrc string

// ProgBuild is the per-program result of preparing the binary.
type ProgBuild struct {
	Prog      *absprog.Prog
	Files     map[string]string // source files (relative to module)
	Gen       map[string]string // generated Go files after the import fixing pass
	Outs      map[string]gens.Out
	Skipped   string            // non-empty: the program is not part of the binary, with the reason
	TypeNames []string          // top-level value types of the source file, in order
	RandFuncs map[string]string // type name -> rand function name
}

// Session is a scratch module with a compiled wire binary.
type Session struct {
	Mod   *synth.Module
	Progs []*ProgBuild
	Pkgs  []*packages.Package
	Root  string
	Anas  []*analysis.Analysis
	bin   string
}

var fixMu sync.Mutex

// FixImports applies the import fixing pass gomacro itself applies to Go output (goimports).
func FixImports(filename, src string) (string, error) {
	// the pass resolves packages of the module the PROCESS stands in (go list in the working directory): stand
	// in the directory of the file, so that packages of the scratch module (a wrapper generated for a sub package)
	// can be found, as they are when goimports is run on the written file
	fixMu.Lock()
	defer fixMu.Unlock()
	if wd, err := os.Getwd(); err == nil {
		if os.Chdir(filepath.Dir(filename)) == nil {
			defer os.Chdir(wd)
		}
	}
	out, err := imports.Process(filename, []byte(src), &imports.Options{Comments: true, TabIndent: true, TabWidth: 8, FormatOnly: false})
	if err != nil {
		return "", err
	}
	return string(out), nil
}

func unionMembers(itf *types.Named) []*types.Named {
	it, ok := itf.Underlying().(*types.Interface)
	if !ok {
		return nil
	}
	scope := itf.Obj().Pkg().Scope()
	var out []*types.Named
	for _, n := range scope.Names() {
		tn, ok := scope.Lookup(n).(*types.TypeName)
		if !ok {
			continue
		}
		named, ok := tn.Type().(*types.Named)
		if !ok || named.TypeParams().Len() > 0 {
			continue
		}
		if _, isItf := named.Underlying().(*types.Interface); isItf {
			continue
		}
		if types.Implements(named, it) {
			out = append(out, named)
		}
	}
	return out
}

// Prepare writes the programs, runs the real analysis and the Go generators, fixes imports,
// type-checks every package with its generated code, writes drivers for the well-typed ones and
// builds the binary.
func Prepare(dir string, progs []*absprog.Prog, withRand bool) (*Session, error) {
	mod, err := synth.NewModule(dir)
	if err != nil {
		return nil, err
	}
	s := &Session{Mod: mod}
	var rels []string
	for _, p := range progs {
		files := absprog.Render(p, synth.ModRoot)
		mod.Write(files)
		s.Progs = append(s.Progs, &ProgBuild{Prog: p, Files: files, Gen: map[string]string{}, Outs: map[string]gens.Out{}, RandFuncs: map[string]string{}})
		rels = append(rels, fmt.Sprintf("p%d/defs.go", p.ID))
	}
	mod.Write(map[string]string{"zengine/engine.go": strings.Replace(engineSrc, "package zengine", "package zengine", 1)})
	// a union declared in the sub package is used through the wrapper generated for THAT package: its file gets
	// its own generated code
	type companion struct{ prog, idx int }
	var companions []companion
	for i, p := range progs {
		for _, d := range p.Decls {
			if d.K == "iface" && d.Pkg == "sub" {
				companions = append(companions, companion{i, len(rels)})
				rels = append(rels, fmt.Sprintf("p%d/sub/sub.go", p.ID))
				break
			}
		}
	}
	pkgs, root, err := mod.Load(rels)
	if err != nil {
		return nil, fmt.Errorf("loading synthesised programs: %w", err)
	}
	for _, cp := range companions {
		pb := s.Progs[cp.prog]
		file := mod.Abs(rels[cp.idx])
		var ana *analysis.Analysis
		if class, msg := synth.Guard(func() { ana = analysis.NewAnalysisFromFile(pkgs[cp.idx], file) }); class != synth.OutOK {
			pb.Skipped = "analysis of the sub package " + class + ": " + msg
			continue
		}
		o := gens.Run("go/unions", pkgs[cp.idx], file, ana, root)
		if o.Class != synth.OutOK {
			pb.Skipped = "go/unions on the sub package " + o.Class + ": " + o.Msg
			continue
		}
		fixed, err := FixImports(filepath.Join(mod.Dir, fmt.Sprintf("p%d/sub", pb.Prog.ID), "gen_unions.go"), o.Text)
		if err != nil {
			pb.Skipped = "go/unions output for the sub package does not parse: " + err.Error()
			continue
		}
		pb.Gen["sub/gen_unions.go"] = fixed
		mod.Write(map[string]string{fmt.Sprintf("p%d/sub/gen_unions.go", pb.Prog.ID): fixed})
	}
	pkgs = pkgs[:len(progs)]
	s.Pkgs, s.Root = pkgs, root
	s.Anas = make([]*analysis.Analysis, len(progs))
	for i, pb := range s.Progs {
		pkg := pkgs[i]
		file := mod.Abs(rels[i])
		if pb.Skipped != "" {
			continue
		}
		var ana *analysis.Analysis
		class, msg := synth.Guard(func() { ana = analysis.NewAnalysisFromFile(pkg, file) })
		if class != synth.OutOK {
			pb.Skipped = "analysis " + class + ": " + msg
			continue
		}
		s.Anas[i] = ana
		targets := []string{"go/unions"}
		if withRand {
			targets = append(targets, "go/randdata")
		}
		for _, tgt := range targets {
			o := gens.Run(tgt, pkg, file, ana, root)
			pb.Outs[tgt] = o
			if o.Class != synth.OutOK {
				pb.Skipped = tgt + " " + o.Class + ": " + o.Msg
				break
			}
			name := map[string]string{"go/unions": "gen_unions.go", "go/randdata": "gen_rand.go"}[tgt]
			fixed, err := FixImports(filepath.Join(mod.Dir, fmt.Sprintf("p%d", pb.Prog.ID), name), o.Text)
			if err != nil {
				pb.Skipped = tgt + " output does not parse: " + err.Error()
				break
			}
			pb.Gen[name] = fixed
			mod.Write(map[string]string{fmt.Sprintf("p%d/%s", pb.Prog.ID, name): fixed})
		}
	}
	// type-check source + generated code per package; broken packages leave the binary
	rel2 := []string{}
	idx := []int{}
	for i, pb := range s.Progs {
		if pb.Skipped == "" {
			rel2 = append(rel2, fmt.Sprintf("%s/p%d", synth.ModRoot, pb.Prog.ID))
			idx = append(idx, i)
		}
	}
	if len(rel2) > 0 {
		cfg := &packages.Config{Dir: mod.Dir, Mode: packages.NeedName | packages.NeedTypes | packages.NeedSyntax | packages.NeedFiles | packages.NeedTypesInfo}
		checked, err := packages.Load(cfg, rel2...)
		if err != nil {
			return nil, err
		}
		byPath := map[string]*packages.Package{}
		for _, c := range checked {
			byPath[c.PkgPath] = c
		}
		for k, i := range idx {
			c := byPath[rel2[k]]
			pb := s.Progs[i]
			if c == nil {
				pb.Skipped = "package not loaded"
				continue
			}
			if len(c.Errors) > 0 {
				pb.Skipped = "generated Go code does not type-check: " + c.Errors[0].Error()
				for _, f := range []string{"gen_unions.go", "gen_rand.go"} {
					os.Remove(mod.Abs(fmt.Sprintf("p%d/%s", pb.Prog.ID, f)))
				}
				continue
			}
			s.writeDriver(pb, c, withRand)
		}
	}
	// main
	var imp, calls strings.Builder
	for _, pb := range s.Progs {
		if pb.Skipped != "" {
			continue
		}
		fmt.Fprintf(&imp, "\tp%d %q\n", pb.Prog.ID, fmt.Sprintf("%s/p%d", synth.ModRoot, pb.Prog.ID))
		fmt.Fprintf(&calls, "\t%d: p%d.VerifRegistry,\n", pb.Prog.ID, pb.Prog.ID)
	}
	main := "package main\n\nimport (\n\t\"bufio\"\n\t\"os\"\n\t\"runtime/debug\"\n\t\"strconv\"\n\t\"strings\"\n\t\"verif.test/org/zengine\"\n" + imp.String() + ")\n\nvar regs = map[int]func() *zengine.Registry{\n" + calls.String() + "}\n" + mainBody
	mod.Write(map[string]string{"zwire/main.go": main})
	s.bin = filepath.Join(dir, "wirebin")
	cmd := exec.Command("go", "build", "-o", s.bin, "./zwire")
	cmd.Dir = mod.Dir
	cmd.Env = append(os.Environ(), "GOFLAGS=-mod=mod", "GOPROXY=off", "GOSUMDB=off", "GOTOOLCHAIN=local")
	if out, err := cmd.CombinedOutput(); err != nil {
		return nil, fmt.Errorf("building the wire binary: %v\n%s", err, tail(string(out), 25))
	}
	return s, nil
}

const mainBody = `
// usage: wirebin <prog> <seed> <nBuilt> <nRand> [skip,type,names]
func main() {
	debug.SetMaxStack(48 << 20) // unbounded recursion dies quickly
	prog, _ := strconv.Atoi(os.Args[1])
	seed, _ := strconv.ParseInt(os.Args[2], 10, 64)
	nBuilt, _ := strconv.Atoi(os.Args[3])
	nRand, _ := strconv.Atoi(os.Args[4])
	skip := map[string]bool{}
	if len(os.Args) > 5 {
		for _, s := range strings.Split(os.Args[5], ",") {
			skip[s] = true
		}
	}
	w := bufio.NewWriterSize(os.Stdout, 1<<16)
	defer w.Flush()
	reg := regs[prog]()
	zengine.Run(reg, flusher{w}, seed, nBuilt, nRand, skip)
}

type flusher struct{ w *bufio.Writer }

func (f flusher) Write(b []byte) (int, error) { n, err := f.w.Write(b); f.w.Flush(); return n, err }
`

func tail(s string, n int) string {
	ls := strings.Split(strings.TrimRight(s, "\n"), "\n")
	if len(ls) > n {
		ls = ls[len(ls)-n:]
	}
	return strings.Join(ls, "\n")
}

// writeDriver writes p<i>/zz_verif_driver.go: the registry of value types, unions, enums and rand functions.
func (s *Session) writeDriver(pb *ProgBuild, pkg *packages.Package, withRand bool) {
	scope := pkg.Types.Scope()
	// imported packages may share a name: every path gets its own alias
	aliases := map[string]string{}
	usedAlias := map[string]bool{"reflect": true, "zengine": true}
	aliasOf := func(p *types.Package) string {
		if a, ok := aliases[p.Path()]; ok {
			return a
		}
		a := p.Name()
		for n := 2; usedAlias[a]; n++ {
			a = fmt.Sprintf("%s%d", p.Name(), n)
		}
		usedAlias[a] = true
		aliases[p.Path()] = a
		return a
	}
	qual := func(p *types.Package) string {
		if p == pkg.Types {
			return ""
		}
		return aliasOf(p)
	}
	imports := map[string]bool{}
	typeExpr := func(t types.Type) string {
		if n, ok := t.(*types.Named); ok && n.Obj().Pkg() != nil && n.Obj().Pkg() != pkg.Types {
			imports[n.Obj().Pkg().Path()] = true
		}
		return types.TypeString(t, qual)
	}
	// rand functions found in the generated file: name -> result type text
	randByType := map[string]string{}
	if src, ok := pb.Gen["gen_rand.go"]; ok && withRand {
		fset := token.NewFileSet()
		if f, err := parser.ParseFile(fset, "gen_rand.go", src, 0); err == nil {
			for _, d := range f.Decls {
				fd, ok := d.(*ast.FuncDecl)
				if !ok || fd.Recv != nil || !strings.HasPrefix(fd.Name.Name, "rand") || fd.Type.Results == nil || len(fd.Type.Results.List) != 1 {
					continue
				}
				var b bytes.Buffer
				printerFprint(&b, fset, fd.Type.Results.List[0].Type)
				randByType[b.String()] = fd.Name.Name
			}
		}
	}
	var typesB, unionsB, enumsB, expEnumsB strings.Builder
	for _, d := range pb.Prog.Decls {
		if d.Pkg != "" || d.File != "" || d.K == "iface" || d.K == "generic" || d.K == "alias" {
			continue
		}
		pb.TypeNames = append(pb.TypeNames, d.Name)
		rnd := "nil"
		if fn, ok := randByType[d.Name]; ok {
			rnd = fmt.Sprintf("func() reflect.Value { x := %s(); return reflect.ValueOf(&x).Elem() }", fn)
			pb.RandFuncs[d.Name] = fn
		}
		fmt.Fprintf(&typesB, "\t\t{Name: %q, Type: reflect.TypeOf((*%s)(nil)).Elem(), Rand: %s},\n", d.Name, d.Name, rnd)
	}
	// unions and enums of the whole package tree reachable by name
	seenPkg := map[*types.Package]bool{}
	var visit func(p *types.Package)
	visit = func(p *types.Package) {
		if seenPkg[p] || !strings.HasPrefix(p.Path(), synth.ModRoot) {
			return
		}
		seenPkg[p] = true
		sc := p.Scope()
		enumConsts := map[*types.Named][]*types.Const{}
		for _, n := range sc.Names() {
			switch o := sc.Lookup(n).(type) {
			case *types.TypeName:
				named, ok := o.Type().(*types.Named)
				if !ok || named.TypeParams().Len() > 0 || (p != pkg.Types && !o.Exported()) {
					continue
				}
				if ms := unionMembers(named); len(ms) > 0 {
					var ts []string
					for _, m := range ms {
						if p == pkg.Types || m.Obj().Exported() {
							ts = append(ts, fmt.Sprintf("reflect.TypeOf((*%s)(nil)).Elem()", typeExpr(m)))
						}
					}
					fmt.Fprintf(&unionsB, "\t\treflect.TypeOf((*%s)(nil)).Elem(): {%s},\n", typeExpr(named), strings.Join(ts, ", "))
				}
			case *types.Const:
				if named, ok := o.Type().(*types.Named); ok && named.Obj().Pkg() == p {
					enumConsts[named] = append(enumConsts[named], o)
				}
			}
		}
		var keys []*types.Named
		for k := range enumConsts {
			keys = append(keys, k)
		}
		sort.Slice(keys, func(i, j int) bool { return keys[i].Obj().Name() < keys[j].Obj().Name() })
		for _, named := range keys {
			if p != pkg.Types && !named.Obj().Exported() {
				continue
			}
			var all, exp []string
			for _, c := range enumConsts[named] {
				ref := c.Name()
				if p != pkg.Types {
					if !c.Exported() {
						continue
					}
					ref = aliasOf(p) + "." + c.Name()
					imports[p.Path()] = true
				}
				all = append(all, ref)
				if c.Exported() {
					exp = append(exp, ref)
				}
			}
			fmt.Fprintf(&enumsB, "\t\treflect.TypeOf((*%s)(nil)).Elem(): {%s},\n", typeExpr(named), strings.Join(all, ", "))
			fmt.Fprintf(&expEnumsB, "\t\treflect.TypeOf((*%s)(nil)).Elem(): {%s},\n", typeExpr(named), strings.Join(exp, ", "))
		}
		for _, imp := range p.Imports() {
			visit(imp)
		}
	}
	visit(pkg.Types)
	_ = scope
	var impB strings.Builder
	for _, i := range synth.SortedKeys(imports) {
		fmt.Fprintf(&impB, "\t%s %q\n", aliases[i], i)
	}
	src := fmt.Sprintf(`package %s

import (
	"reflect"

	"verif.test/org/zengine"
%s)

// VerifRegistry describes the value types of this package to the verification engine.
func VerifRegistry() *zengine.Registry {
	return &zengine.Registry{
		Prog: %d,
		Types: []zengine.TypeEntry{
%s		},
		Unions: map[reflect.Type][]reflect.Type{
%s		},
		Enums: map[reflect.Type][]any{
%s		},
		ExportedEnums: map[reflect.Type][]any{
%s		},
	}
}
`, absprog.PkgName(pb.Prog.ID), impB.String(), pb.Prog.ID, typesB.String(), unionsB.String(), enumsB.String(), expEnumsB.String())
	s.Mod.Write(map[string]string{fmt.Sprintf("p%d/zz_verif_driver.go", pb.Prog.ID): src})
}

// Record is one line printed by the binary.
type Record map[string]any

// RunProg runs the binary for one program. A crash or a timeout is reported through died/log; the lines
// printed so far are returned.
func (s *Session) RunProg(prog int, seed int64, nBuilt, nRand int, skip []string, timeout time.Duration) (recs []Record, died string, err error) {
	args := []string{fmt.Sprint(prog), fmt.Sprint(seed), fmt.Sprint(nBuilt), fmt.Sprint(nRand)}
	if len(skip) > 0 {
		args = append(args, strings.Join(skip, ","))
	}
	cmd := exec.Command(s.bin, args...)
	var out, errb bytes.Buffer
	cmd.Stdout = &out
	cmd.Stderr = &errb
	if err := cmd.Start(); err != nil {
		return nil, "", err
	}
	done := make(chan error, 1)
	go func() { done <- cmd.Wait() }()
	select {
	case e := <-done:
		if e != nil {
			died = "crash: " + firstFatal(errb.String())
		}
	case <-time.After(timeout):
		cmd.Process.Kill()
		<-done
		died = "timeout"
	}
	sc := bufio.NewScanner(&out)
	sc.Buffer(make([]byte, 1<<20), 1<<28)
	for sc.Scan() {
		var r Record
		d := json.NewDecoder(bytes.NewReader(sc.Bytes()))
		d.UseNumber()
		if e := d.Decode(&r); e == nil {
			recs = append(recs, r)
		}
	}
	return recs, died, nil
}

func firstFatal(s string) string {
	for _, l := range strings.Split(s, "\n") {
		if strings.Contains(l, "fatal error") || strings.HasPrefix(l, "panic:") {
			return strings.TrimSpace(l)
		}
	}
	if len(s) > 200 {
		return s[:200]
	}
	return s
}
