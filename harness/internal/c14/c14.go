// Package c14 checks property C14 (generated Axios client) — spec/AxiosSem.tla, TraceAxios.tla.
package c14

import (
	_ "embed"
	"encoding/json"
	"fmt"
	"math/rand"
	"os"
	"os/exec"
	"path/filepath"
	"strings"
	"time"

	"github.com/benoitkugler/gomacro/analysis/httpapi"
	"github.com/benoitkugler/gomacro/generator/typescript"

	"verif/harness/internal/c13"
	"verif/harness/internal/core"
	"verif/harness/internal/routes"
	"verif/harness/internal/synth"
	"verif/harness/internal/tsparse"
)

//go:embed driver.js
var driverJS string

const bodyAndQueryKey = "an endpoint with a bound body and further inputs (query parameters, form fields) only takes the body argument"

type Case struct {
	Case      int               `json:"case"`
	Regs      []routes.Reg      `json:"regs"`
	Outcome   string            `json:"outcome"`
	Endpoints []routes.Endpoint `json:"endpoints"`
	TS        string            `json:"ts,omitempty"`
	Source    string            `json:"source,omitempty"`
	Note      string            `json:"note,omitempty"`
}

type workIn struct {
	Cases []Case `json:"cases"`
}

func Worker(args []string) {
	core.WorkerIO(args, func(in workIn, dir string) workIn {
		mod, err := synth.NewModule(dir)
		if err != nil {
			panic(err)
		}
		mod.Write(routes.Stubs())
		var rels []string
		for i := range in.Cases {
			files, src := routes.Render(in.Cases[i].Case, in.Cases[i].Regs)
			mod.Write(files)
			in.Cases[i].Source = files[src]
			rels = append(rels, src)
		}
		pkgs, _, err := mod.Load(rels)
		for i := range in.Cases {
			c := &in.Cases[i]
			c.Endpoints = []routes.Endpoint{}
			if err != nil {
				c.Note = "load failed: " + err.Error()
				continue
			}
			var api []httpapi.Endpoint
			class, msg := synth.Guard(func() { api = httpapi.ParseEcho(pkgs[i], mod.Abs(rels[i]), "") })
			if class != synth.OutOK {
				c.Outcome = "extraction " + class + ": " + msg
				continue
			}
			c.Endpoints = routes.Project(api, routes.PkgPath(c.Case))
			class, msg = synth.Guard(func() { c.TS = typescript.GenerateAxios(api) })
			if class != synth.OutOK {
				c.Outcome = class + ": " + msg
				continue
			}
			c.Outcome = "ok"
		}
		return in
	})
}

type argSpec struct {
	K       string      `json:"k"`
	Text    string      `json:"text,omitempty"`
	Name    string      `json:"name,omitempty"`
	Entries [][3]string `json:"entries,omitempty"`
}

type callSpec struct {
	ID   int       `json:"id"`
	Name string    `json:"name"`
	Argv []argSpec `json:"argv"`
}

type clientSpec struct {
	Case  int        `json:"case"`
	JS    string     `json:"js"`
	Calls []callSpec `json:"calls"`
}

func Run(c *core.Ctx, replay string) (*core.Result, error) {
	res := &core.Result{Level: "model_checking"}
	res.Assumptions = []string{
		"no TypeScript compiler is installed: the client is parsed by the harness (signatures, declarations), its type syntax is stripped and Node 20 executes every method against a recording stand-in for axios (FormData, File are Node globals)",
		"the recorded call is positional; by the generator's convention the second argument is the body when the contract has one and the last the config. Whether real axios honours a data argument on get / delete is not judged",
	}
	dims, err := c13.LoadDims(c, res)
	if err != nil {
		return nil, err
	}
	var cases []Case
	rng := rand.New(rand.NewSource(c.Seed))
	if replay != "" {
		var cs Case
		if err := core.LoadReplay(replay, &cs); err != nil {
			return nil, err
		}
		cases = []Case{{Case: 1, Regs: cs.Regs}}
	} else {
		n := 50
		if c.Thorough() {
			n = 700
		}
		for k := 0; k < n; k++ {
			regs := dims.RandomFile(rng, 1+rng.Intn(5), true)
			cases = append(cases, Case{Case: k + 1, Regs: regs})
		}
		// route files with ONE endpoint whose only typed part is its query parameters (or its JSON form field):
		// every type the client mentions must be declared even when nothing else in the file needs it
		for _, q := range dims.Queries {
			if len(q) == 0 {
				continue
			}
			cases = append(cases, Case{Case: len(cases) + 1, Regs: []routes.Reg{{Verb: "GET", Path: []string{"lit:/only"}, Handler: "method", Input: "none",
				Query: q, Form: routes.Form{Values: []string{}}, Ret: "none"}}})
		}
		for _, f := range dims.Forms {
			if f.JSON != "" {
				cases = append(cases, Case{Case: len(cases) + 1, Regs: []routes.Reg{{Verb: "POST", Path: []string{"lit:/form"}, Handler: "func", Input: "none",
					Query: []string{}, Form: f, Ret: "none"}}})
			}
		}
	}
	var out workIn
	const chunk = 100
	for i := 0; i < len(cases); i += chunk {
		j := i + chunk
		if j > len(cases) {
			j = len(cases)
		}
		var part workIn
		log, err := c.RunSelfWorker("c14", workIn{Cases: cases[i:j]}, &part, 10*time.Minute)
		if err != nil {
			return nil, core.Inconcl("c14 worker: %v\n%s", err, core.Tail(log, 20))
		}
		out.Cases = append(out.Cases, part.Cases...)
	}
	// parse clients, build the calls
	var recs []any
	var specs []clientSpec
	clientRec := map[int]map[string]any{}
	type callInfo struct {
		cs   Case
		ep   routes.Endpoint
		args map[string]any
	}
	calls := map[int]callInfo{}
	callID := 0
	for _, cs := range out.Cases {
		if cs.Note != "" {
			return nil, core.Inconcl("case %d: %s\n%s", cs.Case, cs.Note, cs.Source)
		}
		rec := map[string]any{"ev": "client", "case": cs.Case, "outcome": cs.Outcome, "syntax": "", "decls": []any{}, "methods": []any{}, "endpoints": cs.Endpoints}
		clientRec[cs.Case] = rec
		if cs.Outcome != "ok" {
			continue
		}
		f, perr := tsparse.Parse(cs.TS)
		if perr != nil {
			rec["syntax"] = perr.Error()
			continue
		}
		f.Normalize()
		var cl *tsparse.Class
		var decls []tsparse.Decl
		for _, d := range f.Decls {
			if d.D == "class" {
				if cl, perr = tsparse.ParseClass(d.Name, d.Body); perr != nil {
					rec["syntax"] = perr.Error()
				}
			} else if d.D != "import" {
				decls = append(decls, d)
			}
		}
		if rec["syntax"] != "" {
			continue
		}
		if cl == nil {
			rec["syntax"] = "no class AbstractAPI in the generated file"
			continue
		}
		var methods []tsparse.Method
		for _, m := range cl.Methods {
			if m.Name != "getHeaders" {
				methods = append(methods, m)
			}
		}
		if decls == nil {
			decls = []tsparse.Decl{}
		}
		if methods == nil {
			methods = []tsparse.Method{}
		}
		rec["decls"], rec["methods"] = decls, methods
		spec := clientSpec{Case: cs.Case, JS: cl.JS}
		for mi, m := range methods {
			if mi >= len(cs.Endpoints) || cs.Endpoints[mi].Name != m.Name {
				break // reported by the client line
			}
			ep := cs.Endpoints[mi]
			for rep := 0; rep < 2; rep++ {
				callID++
				body := ""
				switch ep.Input {
				case "int":
					body = []string{"7", "0"}[rep]
				case "PKG.Payload":
					body = []string{`{"A":1,"B":"x"}`, `{"A":0,"B":""}`}[rep]
				case "[]int64":
					body = []string{`[1,2]`, `[]`}[rep]
				}
				var q [][3]string
				qargs := []map[string]string{}
				for _, p := range ep.Query {
					kind, v := "string", []string{"x y", ""}[rep]
					switch p.Type {
					case "bool":
						kind, v = "boolean", []string{"true", "false"}[rep]
					case "int64", "PKG.IdDossier":
						kind, v = "number", []string{"7", "0"}[rep]
					}
					q = append(q, [3]string{p.Name, kind, v})
					qargs = append(qargs, map[string]string{"name": p.Name, "kind": kind, "v": v})
				}
				var fv [][3]string
				fvargs := []map[string]string{}
				for _, n := range ep.Values {
					v := []string{"val " + n, ""}[rep]
					fv = append(fv, [3]string{n, "string", v})
					fvargs = append(fvargs, map[string]string{"name": n, "v": v})
				}
				formjson := `{"N":5}`
				if ep.JSONType == "string" {
					formjson = []string{`"some \"quoted\" text"`, `""`}[rep]
				}
				filename := "up load.txt"
				args := map[string]any{"body": body, "formvalues": fvargs, "filename": filename, "formjson": formjson, "query": qargs}
				var argv []argSpec
				for _, p := range m.Params {
					switch p.Name {
					case "params":
						if body != "" {
							argv = append(argv, argSpec{K: "json", Text: body})
						} else {
							argv = append(argv, argSpec{K: "object", Entries: q})
						}
					case "formParams":
						argv = append(argv, argSpec{K: "object", Entries: fv})
					case "file":
						argv = append(argv, argSpec{K: "file", Name: filename})
					case "formValue":
						argv = append(argv, argSpec{K: "json", Text: formjson})
					default:
						argv = append(argv, argSpec{K: "undefined"})
					}
				}
				spec.Calls = append(spec.Calls, callSpec{ID: callID, Name: m.Name, Argv: argv})
				calls[callID] = callInfo{cs, ep, args}
			}
		}
		specs = append(specs, spec)
	}
	// Node
	nodeDir := c.Sub("node")
	os.WriteFile(filepath.Join(nodeDir, "driver.js"), []byte(driverJS), 0o644)
	sb, _ := json.Marshal(specs)
	os.WriteFile(filepath.Join(nodeDir, "spec.json"), sb, 0o644)
	cmd := exec.Command("node", "driver.js", "spec.json", "out.ndjson")
	cmd.Dir = nodeDir
	if outb, err := cmd.CombinedOutput(); err != nil {
		return nil, core.Inconcl("node driver failed: %v\n%s", err, core.Tail(string(outb), 15))
	}
	nodeOut, err := core.ReadNDJSON(filepath.Join(nodeDir, "out.ndjson"))
	if err != nil {
		return nil, core.Inconcl("node output: %v", err)
	}
	callRecs := map[int]map[string]any{}
	for _, r := range nodeOut {
		switch r["ev"] {
		case "jssyntax":
			if e := core.Str(r, "error"); e != "" {
				clientRec[core.Int(r, "case")]["syntax"] = "Node rejects the stripped client: " + e
			}
		case "call":
			callRecs[core.Int(r, "id")] = r
		}
	}
	caseOf := map[int]Case{}
	id := 0
	for _, cs := range out.Cases {
		id++
		rec := clientRec[cs.Case]
		rec["case"] = id
		recs = append(recs, rec)
		caseOf[id] = cs
	}
	nCalls := 0
	for cid := 1; cid <= callID; cid++ {
		r, ok := callRecs[cid]
		if !ok {
			continue
		}
		id++
		ci := calls[cid]
		r["case"], r["endpoint"], r["args"] = id, ci.ep, ci.args
		recs = append(recs, r)
		caseOf[id] = ci.cs
		nCalls++
		if cid%37 == 1 {
			res.Sample(map[string]any{"endpoint": ci.ep, "args": ci.args, "recorded": r["calls"], "ret": r["ret"]})
		}
	}
	if len(out.Cases) > 0 {
		res.Sample(map[string]any{"generated_client_of_case_1": firstLines(out.Cases[0].TS, 60)})
	}
	bad, err := c.JudgeTrace(res, "TraceAxios", recs)
	if err != nil {
		return nil, err
	}
	for _, v := range bad {
		cs := caseOf[core.Int(v, "case")]
		why := core.Str(v, "why")
		key := why
		if i := strings.Index(why, ": "); i > 0 {
			key = why[:i]
		}
		rec := recs[core.Int(v, "case")-1].(map[string]any)
		detail := ""
		if rec["ev"] == "call" {
			ep := rec["endpoint"].(routes.Endpoint)
			hasForm := len(ep.Values) > 0 || ep.File != "" || ep.JSON != ""
			if ep.Input != "" && (len(ep.Query) > 0 || hasForm) && (strings.HasPrefix(why, "the request does not carry") || strings.HasPrefix(why, "calling the method failed")) {
				key = bodyAndQueryKey
			}
			b, _ := json.Marshal(map[string]any{"endpoint": ep, "recorded": rec["calls"], "ret": rec["ret"], "error": rec["error"]})
			detail = string(b)
		}
		res.Violations = append(res.Violations, core.Violation{Key: key, What: fmt.Sprintf("%s\n%.900s\n%s", why, detail, firstLines(cs.TS, 70)), Replay: Case{Regs: cs.Regs}})
	}
	res.Evaluations = nCalls
	res.TracesVsImpl = len(recs)
	res.Nontrivial = len(cases)
	res.Rule = "route files of 1-5 registrations drawn (seeded) from the TLC-exported dimensions of HttpApiModel.tla, passed through the real extractor and the real client generator; per client one record (parsed declarations and signatures, syntax verdicts) and per method two invocations under Node with different argument values (numbers 7 / 0, booleans true / false, strings with a space / empty); evaluations = method invocations; distinct = route files"
	return res, nil
}

func firstLines(s string, n int) string {
	ls := strings.Split(s, "\n")
	if len(ls) > n {
		ls = ls[:n]
	}
	return strings.Join(ls, "\n")
}
