// Runs generated Axios clients (type syntax stripped) against a recording stand-in for axios.
// usage: node driver.js spec.json out.ndjson
const fs = require("fs");
const spec = JSON.parse(fs.readFileSync(process.argv[2], "utf8"));
const out = [];

function describeArg(a) {
  if (a === null) return { k: "null" };
  if (a === undefined) return { k: "undefined" };
  if (typeof FormData !== "undefined" && a instanceof FormData) {
    const entries = [];
    for (const [name, v] of a.entries()) {
      if (typeof v === "string") entries.push({ name, kind: "string", v });
      else entries.push({ name, kind: "file", v: v.name });
    }
    return { k: "form", entries };
  }
  if (typeof a === "object" && a.headers !== undefined) {
    const params = [];
    if (a.params) for (const name of Object.keys(a.params)) params.push({ name, type: typeof a.params[name], v: String(a.params[name]) });
    return { k: "config", auth: String(a.headers.Authorization), hasparams: a.params !== undefined, params, responseType: a.responseType === undefined ? "" : String(a.responseType) };
  }
  return { k: "json", text: JSON.stringify(a) };
}

async function main() {
  for (const client of spec) {
    let API;
    let calls = [];
    const resp = { data: { sentinel: 42 }, headers: { "content-disposition": "attachment; filename=my%20file.pdf" } };
    const mk = (verb) => async (...args) => { calls.push({ verb, url: String(args[0]), args: args.slice(1).map(describeArg) }); return resp; };
    const Axios = { get: mk("get"), post: mk("post"), put: mk("put"), delete: mk("delete") };
    try {
      API = new Function("Axios", client.js + "\nreturn AbstractAPI;")(Axios);
    } catch (e) {
      out.push({ ev: "jssyntax", case: client.case, error: String(e) });
      continue;
    }
    out.push({ ev: "jssyntax", case: client.case, error: "" });
    let started = 0, handled = 0;
    class Impl extends API {
      handleError(e) { handled++; this.lastError = String(e); }
      startRequest() { started++; }
    }
    for (const m of client.calls || []) {
      calls = []; started = 0; handled = 0;
      const api = new Impl("BASE", "TOKEN");
      const args = (m.argv || []).map((a) => {
        if (a.k === "json") return JSON.parse(a.text);
        if (a.k === "file") return new File(["abc"], a.name);
        if (a.k === "object") { const o = {}; for (const [n, kind, v] of a.entries) o[n] = kind === "number" ? Number(v) : kind === "boolean" ? v === "true" : v; return o; }
        return undefined;
      });
      let ret, error = "";
      try {
        if (typeof api[m.name] !== "function") throw new Error("no method " + m.name);
        ret = await api[m.name](...args);
      } catch (e) { error = String(e); }
      let rd;
      if (ret === true) rd = { k: "true" };
      else if (ret === resp.data) rd = { k: "data" };
      else if (ret && typeof ret === "object" && ret.blob === resp.data) rd = { k: "blob", filename: String(ret.filename) };
      else rd = { k: "other", v: JSON.stringify(ret) === undefined ? "undefined" : JSON.stringify(ret) };
      out.push({ ev: "call", id: m.id, calls, ret: rd, started, handled, error: error || (handled ? "handleError: " + api.lastError : "") });
    }
  }
  fs.writeFileSync(process.argv[3], out.map((o) => JSON.stringify(o)).join("\n") + "\n");
}
main().catch((e) => { console.error(e); process.exit(1); });
