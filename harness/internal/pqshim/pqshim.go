// Package pqshim carries the source of the stand-in for github.com/lib/pq written into scratch modules.
package pqshim

import (
	_ "embed"
	"os"
	"path/filepath"
)

//go:embed pq.go.txt
var src string

// Install writes the shim next to the scratch module and makes its go.mod use it.
func Install(modDir string) error {
	dir := filepath.Join(modDir, "zpqshim")
	if err := os.MkdirAll(dir, 0o755); err != nil {
		return err
	}
	if err := os.WriteFile(filepath.Join(dir, "pq.go"), []byte(src), 0o644); err != nil {
		return err
	}
	if err := os.WriteFile(filepath.Join(dir, "go.mod"), []byte("module github.com/lib/pq\n\ngo 1.23\n"), 0o644); err != nil {
		return err
	}
	gm, err := os.ReadFile(filepath.Join(modDir, "go.mod"))
	if err != nil {
		return err
	}
	gm = append(gm, []byte("\nrequire github.com/lib/pq v0.0.0\n\nreplace github.com/lib/pq => ./zpqshim\n")...)
	return os.WriteFile(filepath.Join(modDir, "go.mod"), gm, 0o644)
}
