// Package sqlprog builds SQL "model files" (table structs) from the column universe exported by
// spec/PgDDLModel.tla and renders them, together with the type declarations Env0, to Go.
package sqlprog

import (
	"encoding/json"
	"fmt"
	"math/rand"
	"strings"

	"verif/harness/internal/synth"
)

// TE is a type expression in the vocabulary of spec/PgDDL.tla.
type TE struct {
	K    string `json:"k"`
	Name string `json:"name,omitempty"`
	Key  string `json:"key,omitempty"`
	Len  int    `json:"len,omitempty"`
	Elem *TE    `json:"elem,omitempty"`
}

type EnvField struct {
	Name string `json:"name"`
	TE   TE     `json:"te"`
}

type EnvDecl struct {
	Key     string     `json:"key"`
	K       string     `json:"k"`
	Local   string     `json:"local"`
	IsLocal bool       `json:"islocal"`
	Under   TE         `json:"under"`
	Date    bool       `json:"date"`
	Values  []string   `json:"values"`
	Names   []string   `json:"names"`
	Fields  []EnvField `json:"fields"`
}

type Guard struct {
	K     string `json:"k"` // none | lit | enum
	V     string `json:"v,omitempty"`
	Type  string `json:"type,omitempty"`
	Const string `json:"const,omitempty"`
}

// ColSpec is one element of the universe of PgDDLModel.
type ColSpec struct {
	TE       TE     `json:"te"`
	Exported bool   `json:"exported"`
	Guard    Guard  `json:"guard"`
	Foreign  string `json:"foreign"`
	OnDelete string `json:"ondelete"`
	JSONDash bool   `json:"jsondash"`
}

type Field struct {
	Name     string `json:"name"`
	Exported bool   `json:"exported"`
	TE       TE     `json:"te"`
	Guard    Guard  `json:"guard"`
	Foreign  string `json:"foreign"`
	OnDelete string `json:"ondelete"`
	JSONDash bool   `json:"jsondash"`
	JSONName string `json:"jsonname,omitempty"`
}

type Table struct {
	Goname   string   `json:"goname"`
	Fields   []Field  `json:"fields"`
	Comments []string `json:"comments,omitempty"`
}

type Model struct {
	ID     int       `json:"id"`
	Env    []EnvDecl `json:"env"`
	Tables []Table   `json:"tables"`
}

// Universe is the TLC export: Env0 and the column specifications.
type Universe struct {
	Env   []EnvDecl
	Specs []ColSpec
}

func ParseUniverse(recs []map[string]any) (*Universe, error) {
	u := &Universe{}
	for i, r := range recs {
		b, _ := json.Marshal(r)
		if i == 0 {
			var e struct {
				Env []EnvDecl `json:"env"`
			}
			if err := json.Unmarshal(b, &e); err != nil {
				return nil, err
			}
			u.Env = e.Env
			continue
		}
		var s struct {
			Spec ColSpec `json:"spec"`
		}
		if err := json.Unmarshal(b, &s); err != nil {
			return nil, err
		}
		u.Specs = append(u.Specs, s.Spec)
	}
	if len(u.Env) == 0 || len(u.Specs) == 0 {
		return nil, fmt.Errorf("empty universe")
	}
	return u, nil
}

// goType renders a type expression as seen from the root package.
func goType(te TE, inSub bool) string {
	switch te.K {
	case "basic":
		return te.Name
	case "ref":
		if inSub {
			return strings.TrimPrefix(te.Key, "sub.")
		}
		return te.Key // "Kind", "sub.Level", "sql.NullInt64", "time.Duration"
	case "slice":
		return "[]" + goType(*te.Elem, inSub)
	case "array":
		return fmt.Sprintf("[%d]%s", te.Len, goType(*te.Elem, inSub))
	case "map":
		return "map[string]int"
	case "union":
		return "Shape"
	case "time":
		return "time.Time"
	}
	panic("unknown TE " + te.K)
}

func goLiteral(sqlLit string) string {
	if strings.HasPrefix(sqlLit, "'") && strings.HasSuffix(sqlLit, "'") && len(sqlLit) >= 2 {
		// the value of a standard SQL string literal: outer quotes off, doubled quotes undone, backslashes literal
		return fmt.Sprintf("%q", strings.ReplaceAll(sqlLit[1:len(sqlLit)-1], "''", "'"))
	}
	return sqlLit
}

func renderDecl(d EnvDecl, inSub bool) string {
	var b strings.Builder
	switch d.K {
	case "named":
		fmt.Fprintf(&b, "type %s %s\n", d.Local, goType(d.Under, inSub))
		if d.Under.K == "time" {
			if d.Date {
				fmt.Fprintf(&b, "func NewDateFrom(t time.Time) %[1]s { return %[1]s(t) }\nfunc (d %[1]s) Time() time.Time { return time.Time(d) }\n", d.Local)
			}
			fmt.Fprintf(&b, "func (d %[1]s) MarshalJSON() ([]byte, error) { return time.Time(d).MarshalJSON() }\nfunc (d *%[1]s) UnmarshalJSON(b []byte) error { return (*time.Time)(d).UnmarshalJSON(b) }\n", d.Local)
		}
	case "enum":
		fmt.Fprintf(&b, "type %s %s\n\nconst (\n", d.Local, goType(d.Under, inSub))
		for i, n := range d.Names {
			fmt.Fprintf(&b, "\t%s %s = %s\n", n, d.Local, goLiteral(d.Values[i]))
		}
		b.WriteString(")\n")
		if d.Local == "Kind" {
			// a labelled enum (fmt.Stringer): its VALUE, not its label, is what the database stores
			fmt.Fprintf(&b, "\nfunc (k Kind) String() string { return [...]string{\"first\", \"second\", \"third\"}[int(k)%%3] }\n")
		}
	case "struct":
		fmt.Fprintf(&b, "type %s struct {\n", d.Local)
		for _, f := range d.Fields {
			fmt.Fprintf(&b, "\t%s %s\n", f.Name, goType(f.TE, inSub))
		}
		b.WriteString("}\n")
	}
	b.WriteString("\n")
	return b.String()
}

const unionPrelude = `type Shape interface{ isShape() }

type Circle struct{ R int }

func (Circle) isShape() {}

type Square struct{ Side int }

func (Square) isShape() {}

`

func tagOf(f Field) string {
	var parts []string
	if f.JSONDash {
		parts = append(parts, `json:"-"`)
	} else if f.JSONName != "" {
		parts = append(parts, fmt.Sprintf(`json:"%s"`, f.JSONName))
	}
	switch f.Guard.K {
	case "lit":
		parts = append(parts, fmt.Sprintf(`gomacro-sql-guard:"%s"`, f.Guard.V))
	case "enum":
		parts = append(parts, fmt.Sprintf(`gomacro-sql-guard:"#[%s.%s]"`, f.Guard.Type, f.Guard.Const))
	}
	if f.Foreign != "" {
		parts = append(parts, fmt.Sprintf(`gomacro-sql-foreign:"%s"`, f.Foreign))
	}
	if f.OnDelete != "" {
		parts = append(parts, fmt.Sprintf(`gomacro-sql-on-delete:"%s"`, f.OnDelete))
	}
	if len(parts) == 0 {
		return ""
	}
	return " `" + strings.Join(parts, " ") + "`"
}

func (m *Model) hasEnv(key string) bool {
	for _, d := range m.Env {
		if d.Key == key {
			return true
		}
	}
	return false
}

// FarTarget tells whether the column is a foreign key to the table declared outside the analysed file.
func FarTarget(s ColSpec) bool {
	return s.Foreign == "HTTPOwner" || (s.TE.K == "ref" && s.TE.Key == "IdHTTPOwner")
}

// Dir / PkgName of a model.
func Dir(id int) string { return fmt.Sprintf("s%d", id) }

// Render returns the files of the model: s<id>/models.go (the analysed file), s<id>/types.go (Env0),
// s<id>/sub/sub.go.
func Render(m *Model) map[string]string {
	dir := Dir(m.ID)
	var types, sub, models strings.Builder
	fmt.Fprintf(&types, "package %s\n\nimport \"time\"\n\nvar _ time.Time\n\n%s", dir, unionPrelude)
	sub.WriteString("package sub\n\n")
	for _, d := range m.Env {
		switch {
		case strings.HasPrefix(d.Key, "sub."):
			sub.WriteString(renderDecl(d, true))
		case strings.Contains(d.Key, "."):
			// standard library
		default:
			types.WriteString(renderDecl(d, false))
		}
	}
	if m.hasEnv("IdHTTPOwner") {
		// a table struct declared in another file of the package: foreign keys may point to it
		types.WriteString("type HTTPOwner struct {\n\tId IdHTTPOwner\n\tName string\n}\n\n")
	}
	imports := map[string]bool{}
	var body strings.Builder
	var note func(te TE)
	note = func(te TE) {
		switch {
		case te.K == "time":
			imports["time"] = true
		case te.K == "ref" && strings.HasPrefix(te.Key, "sql."):
			imports["database/sql"] = true
		case te.K == "ref" && strings.HasPrefix(te.Key, "time."):
			imports["time"] = true
		case te.K == "ref" && strings.HasPrefix(te.Key, "sub."):
			imports[synth.ModRoot+"/"+dir+"/sub"] = true
		case te.Elem != nil:
			note(*te.Elem)
		}
	}
	for _, t := range m.Tables {
		for _, c := range t.Comments {
			fmt.Fprintf(&body, "// %s\n", c)
		}
		fmt.Fprintf(&body, "type %s struct {\n", t.Goname)
		for _, f := range t.Fields {
			note(f.TE)
			fmt.Fprintf(&body, "\t%s %s%s\n", f.Name, goType(f.TE, false), tagOf(f))
		}
		body.WriteString("}\n\n")
	}
	fmt.Fprintf(&models, "package %s\n\n", dir)
	if len(imports) > 0 {
		models.WriteString("import (\n")
		for _, i := range synth.SortedKeys(imports) {
			fmt.Fprintf(&models, "\t%q\n", i)
		}
		models.WriteString(")\n\n")
	}
	models.WriteString(body.String())
	return map[string]string{dir + "/models.go": models.String(), dir + "/types.go": types.String(), dir + "/sub/sub.go": sub.String()}
}

var noGuard = Guard{K: "none"}

func plain(name string, te TE) Field {
	return Field{Name: name, Exported: true, TE: te, Guard: noGuard}
}

func basic(n string) TE { return TE{K: "basic", Name: n} }
func ref(k string) TE   { return TE{K: "ref", Key: k} }

// fieldOf turns a column specification into the n-th field of a table.
func fieldOf(s ColSpec, n int) Field {
	name := fmt.Sprintf("C%d", n)
	if !s.Exported {
		name = fmt.Sprintf("g%d", n)
	}
	return Field{Name: name, Exported: s.Exported, TE: s.TE, Guard: s.Guard, Foreign: s.Foreign, OnDelete: s.OnDelete, JSONDash: s.JSONDash}
}

// targets are the tables foreign keys point to.
func targets() []Table {
	return []Table{
		{Goname: "Other", Fields: []Field{plain("Id", ref("IdOther")), plain("Name", basic("string"))}},
		{Goname: "Parent", Fields: []Field{plain("ID", ref("ParentId")), plain("Rank", basic("int"))}},
	}
}

// Compose builds model files so that every specification of the universe is the column of some table.
func Compose(u *Universe, rng *rand.Rand, colsPerTable int, firstID int) []*Model {
	return compose(u, rng, colsPerTable, firstID, []string{"int64"})
}

// ComposeAnyID is Compose with id fields of several integer types (schema only: the CRUD generator needs int64 ids).
func ComposeAnyID(u *Universe, rng *rand.Rand, colsPerTable int, firstID int) []*Model {
	return compose(u, rng, colsPerTable, firstID, []string{"int64", "int", "int32", "int64"})
}

func compose(u *Universe, rng *rand.Rand, colsPerTable int, firstID int, idTypes []string) []*Model {
	var models []*Model
	order := rng.Perm(len(u.Specs))
	names := []string{"Item", "HTTPLog", "UserAccount2", "X", "OrderLine", "APIKey", "Tag"}
	id := firstID
	for i := 0; i < len(order); {
		m := &Model{ID: id, Env: u.Env, Tables: targets()}
		id++
		for t := 0; t < 3 && i < len(order); t++ {
			tb := Table{Goname: names[rng.Intn(len(names))] + fmt.Sprint(t)}
			idName := []string{"Id", "ID"}[rng.Intn(2)]
			idPos := rng.Intn(colsPerTable + 1)
			n := 0
			for c := 0; c <= colsPerTable && i <= len(order); c++ {
				if c == idPos {
					// the primary key is the field NAMED id, whatever its integer type
					tb.Fields = append(tb.Fields, plain(idName, basic(idTypes[rng.Intn(len(idTypes))])))
					continue
				}
				if i == len(order) {
					break
				}
				n++
				tb.Fields = append(tb.Fields, fieldOf(u.Specs[order[i]], n))
				i++
			}
			// the same jsonb column (name and type) in every table: each needs its own validator CHECK
			tb.Fields = append(tb.Fields, plain("Shared", ref("Flags")), plain("SharedToo", ref("Flags")))
			// an unexported field never is a column
			tb.Fields = append(tb.Fields, Field{Name: "hidden", Exported: false, TE: basic("string"), Guard: noGuard})
			m.Tables = append(m.Tables, tb)
		}
		// a link table: no id, two foreign keys
		m.Tables = append(m.Tables, Table{Goname: "Link", Fields: []Field{
			{Name: "IdOther", Exported: true, TE: ref("IdOther"), Guard: noGuard, OnDelete: "CASCADE"},
			{Name: "Parent", Exported: true, TE: ref("ParentId"), Guard: noGuard},
			plain("Weight", basic("float64")),
		}})
		models = append(models, m)
	}
	return models
}

// CrudOK tells whether sqlcrud documents the column kind as supported: the Valuer / Scanner
// methods can only be attached to named types, and unions are refused as columns.
func CrudOK(s ColSpec) bool {
	return s.TE.K == "basic" || s.TE.K == "time" || s.TE.K == "ref"
}

// Filter returns the universe restricted to the specifications keep accepts.
func (u *Universe) Filter(keep func(ColSpec) bool) *Universe {
	out := &Universe{Env: u.Env}
	for _, s := range u.Specs {
		if keep(s) {
			out.Specs = append(out.Specs, s)
		}
	}
	return out
}

// CrudSupported restricts CrudOK to the column kinds whose Go type carries (or is given by sqlcrud)
// the Valuer / Scanner methods: composite / array / JSON types of ANOTHER package are documented
// as the user's responsibility.
func CrudSupported(s ColSpec) bool {
	if !CrudOK(s) {
		return false
	}
	if s.OnDelete == "SET NULL" && !(s.TE.K == "ref" && (s.TE.Key == "sql.NullInt64" || s.TE.Key == "OptId")) {
		// ON DELETE SET NULL on a NOT NULL column (plain int64 key): PostgreSQL accepts the schema, and what a
		// delete then does depends on the firing order of the referential triggers; not a valid table struct
		return false
	}
	if FarTarget(s) {
		// the schema of the analysed file alone does not create the target table
		return false
	}
	if s.TE.K == "ref" {
		switch s.TE.Key {
		case "sub.Pair":
			return false
		case "OptDate", "OptList":
			// NullXXX look-alikes over something else than int64: see CrudWitnesses
			return false
		}
	}
	return true
}

// CrudWitnesses are column specifications kept out of the general model files because a recorded
// finding makes the first Insert of their table fail (they get a model file of their own).
func CrudWitnesses(u *Universe) []ColSpec {
	var out []ColSpec
	for _, s := range u.Specs {
		if s.TE.K == "ref" && (s.TE.Key == "OptDate" || s.TE.Key == "OptList") && s.Guard.K == "none" && s.Foreign == "" {
			out = append(out, s)
		}
	}
	return out
}

// WitnessModel is a model file with one table holding the given column.
func WitnessModel(u *Universe, s ColSpec, id int) *Model {
	m := &Model{ID: id, Env: u.Env, Tables: targets()}
	m.Tables = append(m.Tables, Table{Goname: "Item0", Fields: []Field{plain("Id", basic("int64")), fieldOf(s, 1), plain("Num", basic("int"))}})
	return m
}

// ComposeCrud builds the model files of C05: every supported column specification is the column of
// some table; each file has the two target tables, two tables with random columns, scalar columns
// carrying UNIQUE / _SELECT KEY directives, a chain of foreign keys with varying ON DELETE actions,
// and a link table (optionally with a nullable foreign key and a UNIQUE foreign key).
func ComposeCrud(u *Universe, rng *rand.Rand, firstID int) []*Model {
	pool := u.Filter(CrudSupported)
	order := rng.Perm(len(pool.Specs))
	var models []*Model
	ods := []string{"", "CASCADE", "SET NULL"}
	names := []string{"Item", "HTTPLog", "UserAccount2", "X", "OrderLine", "APIKey", "Tag"}
	id := firstID
	for i := 0; i < len(order); {
		m := &Model{ID: id, Env: u.Env, Tables: targets()}
		id++
		n := 0
		take := func(k int) []Field {
			var fs []Field
			for ; k > 0 && i < len(order); k-- {
				n++
				fs = append(fs, fieldOf(pool.Specs[order[i]], n))
				i++
			}
			return fs
		}
		t0 := Table{Goname: names[rng.Intn(len(names))] + "0"}
		t0.Fields = append(t0.Fields, take(2+rng.Intn(3))...)
		t0.Fields = append(t0.Fields, plain([]string{"Id", "ID"}[rng.Intn(2)], basic("int64")), plain("Num", basic("int")), plain("Tag", basic("string")))
		first := len(models) == 0 // the first model file carries every kind of directive (the others draw them)
		if rng.Intn(2) == 0 || first {
			t0.Comments = append(t0.Comments, "gomacro:SQL ADD UNIQUE(Num, Tag)")
		}
		switch k := rng.Intn(3); {
		case k == 0 || first:
			t0.Comments = append(t0.Comments, "gomacro:SQL _SELECT KEY(Num)")
		case k == 1:
			t0.Comments = append(t0.Comments, "gomacro:SQL _SELECT KEY(Tag, Num)")
		}
		if rng.Intn(2) == 0 || first {
			t0.Comments = append(t0.Comments, "gomacro:QUERY SetNum UPDATE "+t0.Goname+" SET Num = $v$ WHERE Tag = $w$")
		}
		t1 := Table{Goname: names[rng.Intn(len(names))] + "1"}
		t1.Fields = append(t1.Fields, plain([]string{"Id", "ID"}[rng.Intn(2)], basic("int64")))
		t1.Fields = append(t1.Fields, take(2+rng.Intn(3))...)
		refOD := ods[rng.Intn(3)]
		refTE := basic("int64")
		witness := len(models) == 0 // the first model file: a key that is both nullable and UNIQUE
		if witness {
			refOD = "SET NULL"
		}
		if refOD == "SET NULL" {
			refTE = ref("sql.NullInt64")
		}
		if witness {
			t1.Comments = append(t1.Comments, "gomacro:SQL ADD UNIQUE(Ref)")
		}
		t1.Fields = append(t1.Fields,
			Field{Name: "Ref", Exported: true, TE: refTE, Guard: noGuard, Foreign: t0.Goname, OnDelete: refOD},
			Field{Name: "Owner", Exported: true, TE: ref("IdOther"), Guard: noGuard, OnDelete: ods[rng.Intn(2)]})
		if rng.Intn(2) == 0 || witness { // (the first model file: a required key that is UNIQUE too)
			t1.Comments = append(t1.Comments, "gomacro:SQL ADD UNIQUE(Owner)")
		}
		link := Table{Goname: "Link", Fields: []Field{
			{Name: "IdOther", Exported: true, TE: ref("IdOther"), Guard: noGuard, OnDelete: "CASCADE"},
			{Name: "Par", Exported: true, TE: ref("ParentId"), Guard: noGuard},
			plain("Weight", basic("float64")),
			plain("Labels", ref("Flags")), // a jsonb map: every scanned row must get its own value
		}}
		// a nullable foreign key: Delete compares it with a NULL guard
		link.Fields = append(link.Fields, Field{Name: "Opt", Exported: true, TE: ref("OptId"), Guard: noGuard, Foreign: "Other", OnDelete: "SET NULL"})
		if rng.Intn(3) == 0 || len(models) == 0 { // (always in the first model file)
			link.Comments = append(link.Comments, "gomacro:SQL ADD UNIQUE(Par)")
		}
		// a table struct whose Go name is not exported is a table like any other
		t2 := Table{Goname: "entry2", Fields: []Field{plain("Id", basic("int64")), plain("Note", basic("string")), plain("N", basic("int"))}}
		m.Tables = append(m.Tables, t0, t1, t2, link)
		models = append(models, m)
	}
	return models
}

// ReplayNames maps the table names of spec/CrudModel.tla to the table structs of ReplayModel
// ("A" would give the SQL table "as", a reserved word).
var ReplayNames = map[string]string{"A": "Alpha", "B": "Beta", "C": "Gamma", "L": "Link"}

// ReplayModel is the model file that declares exactly the tables of CrudModel!Meta for the given constants:
// Alpha(V), Beta(IdA -> Alpha with action od, nullable or not; W; UNIQUE(IdA) or UNIQUE(IdA, W)),
// Gamma(IdB -> Beta, NO ACTION) and the link table Link(IdA -> Alpha CASCADE, IdB -> Beta nullable SET NULL).
func ReplayModel(u *Universe, id int, od string, uniqB, nullB bool) *Model {
	key := func(name, target, onDelete string, nullable bool) Field {
		te := basic("int64")
		if nullable {
			te = ref("sql.NullInt64")
		}
		return Field{Name: name, Exported: true, TE: te, Guard: noGuard, Foreign: target, OnDelete: onDelete}
	}
	beta := Table{Goname: "Beta", Fields: []Field{plain("Id", basic("int64")), key("IdA", "Alpha", od, nullB), plain("W", basic("int"))}}
	if uniqB {
		beta.Comments = []string{"gomacro:SQL ADD UNIQUE(IdA)"}
	} else {
		beta.Comments = []string{"gomacro:SQL ADD UNIQUE(IdA, W)"}
	}
	return &Model{ID: id, Env: u.Env, Tables: []Table{
		{Goname: "Alpha", Fields: []Field{plain("Id", basic("int64")), plain("V", basic("string"))}},
		beta,
		{Goname: "Gamma", Fields: []Field{plain("Id", basic("int64")), key("IdB", "Beta", "", false)}},
		{Goname: "Link", Fields: []Field{key("IdA", "Alpha", "CASCADE", false), key("IdB", "Beta", "SET NULL", true)}},
	}}
}

// DirectiveRich is a model file in which every collection the SQL-side generators build per table holds at least
// three entries (UNIQUE sets, CHECKs, select keys, custom queries, foreign keys): an order taken from a Go map,
// or from a sort that is not total, shows when the generation is repeated (C07).
func DirectiveRich(id int) *Model {
	key := func(name, target, onDelete string) Field {
		return Field{Name: name, Exported: true, TE: basic("int64"), Guard: noGuard, Foreign: target, OnDelete: onDelete}
	}
	item := Table{Goname: "Item", Fields: []Field{plain("Id", basic("int64")), plain("A", basic("int")), plain("B", basic("string")), plain("C", basic("int")),
		plain("D", basic("string")), plain("E", basic("int")), key("Owner", "Owner", "CASCADE"), key("Maker", "Owner", ""), key("Depot", "Depot", "SET NULL")},
		Comments: []string{
			"gomacro:SQL ADD UNIQUE(A, B)", "gomacro:SQL ADD UNIQUE(C)", "gomacro:SQL ADD UNIQUE(D, E)", "gomacro:SQL ADD UNIQUE(B, E)", "gomacro:SQL ADD UNIQUE(Maker)",
			"gomacro:SQL ADD CHECK(A > 0)", "gomacro:SQL ADD CHECK(C > 0)", "gomacro:SQL ADD CHECK(E > 0)",
			"gomacro:SQL _SELECT KEY(A)", "gomacro:SQL _SELECT KEY(B, C)", "gomacro:SQL _SELECT KEY(D)",
			"gomacro:QUERY SetA UPDATE Item SET A = $v$ WHERE B = $w$", "gomacro:QUERY SetC UPDATE Item SET C = $v$ WHERE D = $w$", "gomacro:QUERY SetE UPDATE Item SET E = $v$ WHERE B = $w$ OR D = $w$",
		}}
	return &Model{ID: id, Tables: []Table{
		{Goname: "Owner", Fields: []Field{plain("Id", basic("int64")), plain("Name", basic("string"))}, Comments: []string{"gomacro:SQL ADD UNIQUE(Name)"}},
		{Goname: "Depot", Fields: []Field{plain("Id", basic("int64")), plain("City", basic("string")), plain("Zip", basic("string"))},
			Comments: []string{"gomacro:SQL ADD UNIQUE(City, Zip)", "gomacro:SQL ADD UNIQUE(Zip)", "gomacro:SQL ADD UNIQUE(City)"}},
		item,
		{Goname: "Stock", Fields: []Field{key("Item", "Item", "CASCADE"), key("Depot", "Depot", "CASCADE"), key("Owner", "Owner", ""), plain("N", basic("int"))},
			Comments: []string{"gomacro:SQL ADD UNIQUE(Item, Depot)", "gomacro:SQL ADD UNIQUE(Item, Owner)", "gomacro:SQL ADD UNIQUE(Depot, Owner, N)"}},
	}}
}

// TwinColumns: two tables with a jsonb column of the same name and type, two with an enum-like CHECK of the same
// column name: per-column declarations must be told apart by their table.
func TwinColumns(id int) *Model {
	opts := TE{K: "map", Elem: &TE{K: "basic", Name: "bool"}}
	mk := func(name string) Table {
		return Table{Goname: name, Fields: []Field{plain("Id", basic("int64")), plain("Settings", opts), plain("Tags", TE{K: "slice", Elem: &TE{K: "basic", Name: "string"}}), plain("Rank", basic("int"))},
			Comments: []string{"gomacro:SQL ADD CHECK(Rank > 0)", "gomacro:SQL ADD UNIQUE(Rank)"}}
	}
	return &Model{ID: id, Tables: []Table{mk("Account"), mk("Device"), mk("Gadget")}}
}

// NamingWitness is a model file whose tables and fields are spelled like the identifiers the CRUD templates use
// themselves (rows, item, tx, err, out, ids, Set): generated code must keep its own names apart from the user's.
func NamingWitness(id int) *Model {
	key := func(name, target string) Field {
		return Field{Name: name, Exported: true, TE: basic("int64"), Guard: noGuard, Foreign: target}
	}
	return &Model{ID: id, Tables: []Table{
		{Goname: "Item", Fields: []Field{plain("Id", basic("int64")), plain("Name", basic("string"))}},
		{Goname: "Rows", Fields: []Field{plain("Id", basic("int64")), plain("N", basic("int"))}},
		{Goname: "Set", Fields: []Field{plain("Id", basic("int64")), plain("Ids", basic("string"))}},
		{Goname: "Seat", Fields: []Field{plain("Id", basic("int64")), key("Row", "Rows"), key("Item", "Item"), key("Set", "Set"),
			plain("Tx", basic("int")), plain("Err", basic("string")), plain("Out", basic("int")), plain("Args", basic("string"))},
			Comments: []string{"gomacro:SQL ADD UNIQUE(Tx, Err)", "gomacro:SQL _SELECT KEY(Out)"}},
		{Goname: "SeatLink", Fields: []Field{key("Row", "Rows"), key("Item", "Item"), key("Seat", "Seat")}},
	}}
}
