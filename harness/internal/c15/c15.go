// Package c15 checks property C15 (generated random-data functions) — spec/RandDef.tla, RandModel.tla, TraceRand.tla.
package c15

import (
	"fmt"
	"math/rand"
	"strings"
	"time"

	"github.com/benoitkugler/gomacro/analysis"

	"verif/harness/internal/absprog"
	"verif/harness/internal/c02"
	"verif/harness/internal/core"
	"verif/harness/internal/walk"
	"verif/harness/internal/wire"
)

const cycleKey = "rand function never returns for a type from which a cycle of the type graph is reachable"

// reachesCycle reports, per top-level type name, whether the generated functions can recurse for ever:
// a cycle of the node graph is reachable following what the generated code follows.
func reachesCycle(ana *analysis.Analysis, names []string) map[string]bool {
	out := map[string]bool{}
	for _, n := range names {
		obj := ana.Pkg.Types.Scope().Lookup(n)
		if obj == nil {
			continue
		}
		node := ana.Types[obj.Type()]
		onStack := map[analysis.Type]bool{}
		done := map[analysis.Type]bool{}
		var dfs func(x analysis.Type) bool
		dfs = func(x analysis.Type) bool {
			if x == nil {
				return false
			}
			if onStack[x] {
				return true
			}
			if done[x] {
				return false
			}
			onStack[x] = true
			defer func() { onStack[x] = false; done[x] = true }()
			if st, ok := x.(*analysis.Struct); ok {
				for _, f := range st.Fields {
					if !f.Field.Exported() || f.Tag.Get("gomacro-data") == "ignore" {
						continue
					}
					if dfs(f.Type) {
						return true
					}
				}
				return false
			}
			for _, c := range walk.Children(x) {
				if dfs(c) {
					return true
				}
			}
			return false
		}
		// named nodes may be duplicated objects: compare by type key as well
		keyStack := map[string]bool{}
		var dfsKey func(x analysis.Type) bool
		dfsKey = func(x analysis.Type) bool {
			if x == nil {
				return false
			}
			k := fmt.Sprintf("%T:%s", x, walk.Key(x.Type()))
			if keyStack[k] {
				return true
			}
			keyStack[k] = true
			defer delete(keyStack, k)
			if st, ok := x.(*analysis.Struct); ok {
				for _, f := range st.Fields {
					if f.Field.Exported() && f.Tag.Get("gomacro-data") != "ignore" && dfsKey(f.Type) {
						return true
					}
				}
				return false
			}
			for _, c := range walk.Children(x) {
				if dfsKey(c) {
					return true
				}
			}
			return false
		}
		out[n] = dfs(node) || dfsKey(node)
	}
	return out
}

type replayCase struct {
	Prog absprog.Prog `json:"prog"`
	Type string       `json:"type"`
	Seed int64        `json:"seed"`
}

func Run(c *core.Ctx, replay string) (*core.Result, error) {
	res := &core.Result{Level: "model_checking"}
	res.Assumptions = []string{
		"termination of real processes is decided by a stack limit (48 MB) and a timeout; everything about the returned values is decided by TLC on value trees",
		"'populated' is read as: slices and maps are non-nil and hold at least one element",
	}
	// design level: the generated functions as a recursive process
	t, err := c.RunTLC(core.TLCOpts{Module: "RandModel", Config: "RandModel.cfg", Workers: c.Workers, HeapGB: 8})
	if err != nil {
		return nil, err
	}
	if t.ErrorKind != "" {
		return nil, core.Inconcl("design-level run of RandModel ended with %s %s (model-only counterexample)\n%s", t.ErrorKind, t.InvViolated, core.Tail(t.Output, 20))
	}
	res.AddTLC(t)

	nProg, K := 6, 30
	if c.Thorough() {
		nProg, K = 50, 80
	}
	var progs []*absprog.Prog
	seed := c.Seed
	if replay != "" {
		var rc replayCase
		if err := core.LoadReplay(replay, &rc); err != nil {
			return nil, err
		}
		progs = []*absprog.Prog{&rc.Prog}
		seed = rc.Seed
	} else {
		progs = c02.Programs(c.Seed, nProg, func(o *absprog.Opts, rng *rand.Rand) {
			o.Recursive = false
			o.DataIgnore = true
			o.Pointers = rng.Intn(2) == 0
			o.ByteSlices = true
		})
		// one witness program with recursive types keeps the recorded finding visible
		rng := rand.New(rand.NewSource(c.Seed + 99))
		o := absprog.Full()
		o.NStructs = 2
		o.DataIgnore = true
		w := absprog.Random(len(progs)+1, rng, o)
		progs = append(progs, w)
	}
	s, err := wire.Prepare(c.Sub("wire"), progs, true)
	if err != nil {
		return nil, core.Inconcl("%v", err)
	}
	var recs []any
	type ref struct {
		prog *absprog.Prog
		typ  string
		cyc  bool
		diff string
	}
	refs := map[int]ref{}
	id, skippedProgs, calls := 0, 0, 0
	for i, pb := range s.Progs {
		if pb.Skipped != "" {
			skippedProgs++
			res.Drift = append(res.Drift, fmt.Sprintf("program %d left out: %s", pb.Prog.ID, pb.Skipped))
			continue
		}
		cyc := reachesCycle(s.Anas[i], pb.TypeNames)
		isWitness := replay == "" && i == len(s.Progs)-1
		var skip []string
		crashBudget := 0
		if isWitness || replay != "" {
			crashBudget = 3
		}
		// types predicted never to return are not called, except a few in the witness program
		for _, n := range pb.TypeNames {
			if cyc[n] {
				if crashBudget > 0 {
					crashBudget--
				} else {
					skip = append(skip, n)
				}
			}
		}
		outcome := map[string]string{}
		msgs := map[string]string{}
		values := map[string][]any{}
		rtdiffs := map[string]string{}
		var reg any
		for attempt := 0; attempt < 8; attempt++ {
			out, died, err := s.RunProg(pb.Prog.ID, seed, 0, K, skip, 40*time.Second)
			if err != nil {
				return nil, core.Inconcl("wire binary: %v", err)
			}
			cur := ""
			for _, r := range out {
				switch r["ev"] {
				case "registry":
					reg = map[string]any{"enums": r["enums"], "unions": r["unions"]}
				case "randstart":
					cur = r["type"].(string)
					values[cur] = nil
				case "value":
					errText := fmt.Sprint(r["err"])
					if d, ok := r["rtdiff"].(string); ok && errText == "" {
						rtdiffs[cur] = d
					}
					values[cur] = append(values[cur], map[string]any{"tree": r["tree"], "doc": r["doc"], "roundtrip": r["roundtrip"], "err": errText})
					calls++
				case "randpanic":
					outcome[cur], msgs[cur] = "panic", fmt.Sprint(r["msg"])
				case "randend":
					if outcome[cur] == "" {
						outcome[cur] = "ok"
					}
					cur = ""
				case "error":
					return nil, core.Inconcl("engine error: %v", r["msg"])
				}
			}
			if died == "" {
				break
			}
			if cur == "" {
				return nil, core.Inconcl("wire binary died outside a rand call: %s", died)
			}
			if strings.HasPrefix(died, "timeout") {
				outcome[cur], msgs[cur] = "timeout", ""
			} else {
				outcome[cur], msgs[cur] = "crash", died
			}
			skip = append(skip, cur)
		}
		for _, n := range pb.TypeNames {
			oc := outcome[n]
			if oc == "" {
				if _, has := pb.RandFuncs[n]; !has {
					oc = "missing"
				} else {
					continue // predicted non-terminating and not called
				}
			}
			id++
			vals := values[n]
			if vals == nil || oc != "ok" {
				vals = []any{}
			}
			recs = append(recs, map[string]any{"case": id, "prog": pb.Prog.ID, "type": n, "outcome": oc, "msg": msgs[n], "values": vals, "reg": reg})
			refs[id] = ref{pb.Prog, n, cyc[n], rtdiffs[n]}
			if cyc[n] && oc == "ok" {
				res.Drift = append(res.Drift, fmt.Sprintf("type %s of program %d reaches a cycle of the type graph but its rand function returned", n, pb.Prog.ID))
			}
			if id%23 == 2 && len(vals) > 0 {
				res.Sample(map[string]any{"type": n, "first_value": vals[0]})
			}
		}
	}
	if len(recs) == 0 {
		return nil, core.Inconcl("no rand function was exercised (%d programs left out)", skippedProgs)
	}
	// (in slices: 50 packages x 80 values per type do not fit TLC's heap as one trace)
	bad, err := c.JudgeTraceChunked(res, "TraceRand", recs, 48<<20)
	if err != nil {
		return nil, err
	}
	for _, v := range bad {
		rf := refs[core.Int(v, "case")]
		why := core.Str(v, "why")
		key := why
		if i := strings.Index(why, " ("); i > 0 {
			key = why[:i]
		}
		if i := strings.Index(key, ": "); i > 0 {
			key = key[:i]
		}
		if strings.HasPrefix(why, "rand function does not terminate") && rf.cyc {
			key = cycleKey
		}
		res.Violations = append(res.Violations, core.Violation{Key: key, What: fmt.Sprintf("%s; rand function of type %s, program %d %s", why, rf.typ, rf.prog.ID, rf.diff),
			Replay: replayCase{Prog: *rf.prog, Type: rf.typ, Seed: seed}})
	}
	res.Evaluations = calls
	res.TracesVsImpl = len(recs)
	res.Nontrivial = len(recs)
	if replay == "" && skippedProgs*3 > len(s.Progs) {
		return nil, core.Inconcl("%d of %d packages were left out (generator refusal or generated code that does not compile): the check no longer covers its universe", skippedProgs, len(s.Progs))
	}
	res.Rule = fmt.Sprintf("%d seeded random packages + 1 witness with recursive types; for every top-level type of the analysed file the generated rand function is called %d times in a binary compiled from the package, the generated data code and the generated union wrappers (after the import fixing pass); one record per (program, type); evaluations = values judged", len(progs)-1, K)
	res.Extra = map[string]any{"programs_left_out": skippedProgs, "types": len(recs)}
	return res, nil
}
