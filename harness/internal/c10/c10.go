// Package c10 checks property C10 (enum detection) — spec/EnumDef.tla, EnumModel.tla, TraceEnums.tla.
package c10

import (
	"encoding/json"
	"fmt"
	"go/constant"
	"go/types"
	"math/rand"
	"path/filepath"
	"strconv"
	"strings"
	"time"

	"github.com/benoitkugler/gomacro/analysis"

	"verif/harness/internal/core"
	"verif/harness/internal/synth"
)

type AType struct {
	Key     string `json:"key"`
	Pkg     string `json:"pkg"`
	Name    string `json:"name"`
	Backing string `json:"backing"`
}

type AConst struct {
	Pkg      string `json:"pkg"`
	Name     string `json:"name"`
	Type     string `json:"type"` // key of a named type or ""
	Val      string `json:"val"`
	Ival     int64  `json:"ival"`
	Isint    bool   `json:"isint"`
	Exported bool   `json:"exported"`
	Optout   bool   `json:"optout"`
	Comment  string `json:"comment"`
	// rendering only
	GoType string `json:"gotype"` // type text as written in the const spec ("" = untyped)
	Group  int    `json:"group"`  // constants with the same group are rendered in one declaration
	Style  string `json:"style"`  // explicit | iota | single | multiname | blank
}

type Member struct {
	Name     string `json:"name"`
	Val      string `json:"val"`
	Ival     int64  `json:"ival"`
	Isint    bool   `json:"isint"`
	Comment  string `json:"comment"`
	Exported bool   `json:"exported"`
}

type TypeObs struct {
	Type    string   `json:"type"`
	IsEnum  bool     `json:"isEnum"`
	Iota    bool     `json:"iota"`
	Members []Member `json:"members"`
}

type Case struct {
	Case     int       `json:"case"`
	Types    []AType   `json:"types"`
	Consts   []AConst  `json:"consts"`
	Outcome  string    `json:"outcome"`
	Msg      string    `json:"msg"`
	Observed []TypeObs `json:"observed"`
	Files    map[string]string `json:"files,omitempty"`
	SameName bool      `json:"samename"` // the root package is also NAMED sub (another import path): packages are told apart by path, not by name
}

type core_ struct {
	Exported bool  `json:"exported"`
	Ival     int64 `json:"ival"`
}

var expNames = []string{"Zed", "Alpha", "Mu", "Beta", "Gamma", "Xi"}
var unexpNames = []string{"zed", "alpha", "mu", "beta", "gamma", "xi"}

func pkgPath(i int, sub bool) string {
	p := fmt.Sprintf("%s/c%d", synth.ModRoot, i)
	if sub {
		p += "/sub"
	}
	return p
}

// compose builds the abstract package tree of one case around a TLC-enumerated core.
func compose(i int, rootCore, subCore []core_, rng *rand.Rand) Case {
	c := Case{Case: i}
	root, sub := pkgPath(i, false), pkgPath(i, true)
	intBack := []string{"int", "int", "uint8", "int64", "uint", "int16"}
	group := 0
	addInt := func(pkg, tname string, cs []core_, prefix string) {
		key := pkg + "." + tname
		c.Types = append(c.Types, AType{Key: key, Pkg: pkg, Name: tname, Backing: intBack[rng.Intn(len(intBack))]})
		group++
		unsigned := strings.HasPrefix(c.Types[len(c.Types)-1].Backing, "u")
		for k, co := range cs {
			if unsigned && co.Ival < 0 {
				c.Types[len(c.Types)-1].Backing = "int"
			}
			name := expNames[k]
			if !co.Exported {
				name = unexpNames[k]
			}
			ac := AConst{Pkg: pkg, Name: prefix + name, Type: key, Val: strconv.FormatInt(co.Ival, 10), Ival: co.Ival, Isint: true,
				Exported: co.Exported, GoType: tname, Group: group}
			if prefix != "" && !co.Exported {
				ac.Name = strings.ToLower(prefix) + name
			}
			switch rng.Intn(5) {
			case 0:
				ac.Comment = "label " + name
			case 1:
				if rng.Intn(3) == 0 {
					ac.Optout = true
					ac.Comment = "gomacro:no-enum"
				}
			}
			c.Consts = append(c.Consts, ac)
		}
	}
	addInt(root, "T", rootCore, "")
	addInt(sub, "T", subCore, "S") // same local type name in the sub package
	// string / bool / float enums and look-alikes in the root package
	group++
	c.Types = append(c.Types, AType{Key: root + ".Str", Pkg: root, Name: "Str", Backing: "string"})
	for k := 0; k < rng.Intn(4); k++ {
		v := []string{"va", "vb", "", "va"}[rng.Intn(4)]
		ac := AConst{Pkg: root, Name: "St" + expNames[k], Type: root + ".Str", Val: strconv.Quote(v), Exported: true, GoType: "Str", Group: group}
		if rng.Intn(4) == 0 {
			ac.Name = "st" + expNames[k]
			ac.Exported = false
		}
		if rng.Intn(4) == 0 {
			ac.Comment = "a \"quoted\" label"
		}
		c.Consts = append(c.Consts, ac)
	}
	group++
	c.Types = append(c.Types, AType{Key: root + ".Flag", Pkg: root, Name: "Flag", Backing: "bool"})
	if rng.Intn(2) == 0 {
		c.Consts = append(c.Consts, AConst{Pkg: root, Name: "FlagOn", Type: root + ".Flag", Val: "true", Exported: true, GoType: "Flag", Group: group})
	}
	group++
	c.Types = append(c.Types, AType{Key: root + ".Ratio", Pkg: root, Name: "Ratio", Backing: "float64"})
	if rng.Intn(2) == 0 {
		c.Consts = append(c.Consts, AConst{Pkg: root, Name: "Half", Type: root + ".Ratio", Val: "0.5", Exported: true, GoType: "Ratio", Group: group})
	}
	// a named basic type without constants, and one whose constants are all opted out
	c.Types = append(c.Types, AType{Key: root + ".Plain", Pkg: root, Name: "Plain", Backing: "int"})
	group++
	c.Types = append(c.Types, AType{Key: root + ".Opted", Pkg: root, Name: "Opted", Backing: "string"})
	c.Consts = append(c.Consts, AConst{Pkg: root, Name: "OnlyOpted", Type: root + ".Opted", Val: `"x"`, Exported: true, Optout: true, Comment: "gomacro:no-enum", GoType: "Opted", Group: group})
	// untyped and predeclared-typed constants never make an enum
	group++
	c.Consts = append(c.Consts, AConst{Pkg: root, Name: "Untyped", Type: "", Val: "7", Ival: 7, Isint: true, Exported: true, GoType: "", Group: group})
	group++
	c.Consts = append(c.Consts, AConst{Pkg: root, Name: "Predecl", Type: "", Val: "8", Ival: 8, Isint: true, Exported: true, GoType: "int", Group: group})
	// a constant of the sub-package's type declared in the root package: not "its package"
	if rng.Intn(5) == 0 {
		if rng.Intn(2) == 0 { // ... and the sub-package itself opts out of every constant of its type
			for k := range c.Consts {
				if c.Consts[k].Pkg == sub {
					c.Consts[k].Optout, c.Consts[k].Comment = true, "gomacro:no-enum"
				}
			}
		}
		group++
		c.Consts = append(c.Consts, AConst{Pkg: root, Name: "ForeignK", Type: sub + ".T", Val: "9", Ival: 9, Isint: true, Exported: true, GoType: "sub.T", Group: group})
		c.SameName = rng.Intn(2) == 0
	}
	// choose a rendering style per group
	styles := map[int]string{}
	for g := 1; g <= group; g++ {
		styles[g] = []string{"explicit", "iota", "single", "multiname", "blank", "explicit"}[rng.Intn(6)]
	}
	for k := range c.Consts {
		c.Consts[k].Style = styles[c.Consts[k].Group]
	}
	return c
}

// render writes the Go sources of a case.
func render(c *Case) map[string]string {
	i := c.Case
	root, sub := pkgPath(i, false), pkgPath(i, true)
	files := map[string]string{}
	for _, pkg := range []string{root, sub} {
		var b strings.Builder
		name := fmt.Sprintf("c%d", i)
		if pkg == sub || c.SameName {
			name = "sub"
		}
		fmt.Fprintf(&b, "package %s\n\n", name)
		if pkg == root && c.SameName {
			fmt.Fprintf(&b, "import subpkg %q\n\n", sub)
		} else if pkg == root {
			fmt.Fprintf(&b, "import %q\n\n", sub)
		}
		var holder []string
		for _, t := range c.Types {
			if t.Pkg == pkg {
				fmt.Fprintf(&b, "type %s %s\n\n", t.Name, t.Backing)
				holder = append(holder, fmt.Sprintf("\tF%s %s", t.Name, t.Name))
			} else if pkg == root {
				holder = append(holder, fmt.Sprintf("\tFsub%s sub.%s", t.Name, t.Name))
			}
		}
		// constants by group
		var groups []int
		by := map[int][]AConst{}
		for _, k := range c.Consts {
			if k.Pkg != pkg {
				continue
			}
			if _, ok := by[k.Group]; !ok {
				groups = append(groups, k.Group)
			}
			by[k.Group] = append(by[k.Group], k)
		}
		for _, g := range groups {
			b.WriteString(renderGroup(by[g]))
		}
		fmt.Fprintf(&b, "type Holder struct {\n%s\n}\n", strings.Join(holder, "\n"))
		rel := strings.TrimPrefix(pkg, synth.ModRoot+"/") + "/defs.go"
		files[rel] = b.String()
		if pkg == root && c.SameName {
			files[rel] = strings.ReplaceAll(files[rel], " sub.", " subpkg.")
		}
	}
	return files
}

// trailing renders the trailing comment of a constant: a line comment, or (for labels, deterministically from the
// name) a block comment — both mean the same comment text
func trailing(k AConst) string {
	if k.Comment == "" {
		return ""
	}
	if !k.Optout && !strings.Contains(k.Comment, "gomacro:") && len(k.Name)%2 == 0 {
		return " /* " + k.Comment + " */"
	}
	return " // " + k.Comment
}

func renderGroup(ks []AConst) string {
	var b strings.Builder
	style := ks[0].Style
	typ := func(k AConst) string {
		if k.GoType == "" {
			return ""
		}
		return " " + k.GoType
	}
	consecutive := len(ks) > 0 && ks[0].Isint
	gapOnly := consecutive
	for i, k := range ks {
		if !k.Isint || k.Ival != ks[0].Ival+int64(i) {
			consecutive = false
		}
		if !k.Isint || (i > 0 && k.Ival <= ks[i-1].Ival) {
			gapOnly = false
		}
	}
	sameMeta := true
	for _, k := range ks {
		if k.Comment != ks[0].Comment {
			sameMeta = false
		}
	}
	switch {
	case style == "iota" && consecutive:
		b.WriteString("const (\n")
		for i, k := range ks {
			if i == 0 {
				expr := "iota"
				if k.Ival > 0 {
					expr = fmt.Sprintf("iota + %d", k.Ival)
				} else if k.Ival < 0 {
					expr = fmt.Sprintf("iota - %d", -k.Ival)
				}
				fmt.Fprintf(&b, "\t%s%s = %s%s\n", k.Name, typ(k), expr, trailing(k))
			} else {
				fmt.Fprintf(&b, "\t%s%s\n", k.Name, trailing(k))
			}
		}
		b.WriteString(")\n\n")
	case style == "blank" && gapOnly && ks[0].Ival >= 0:
		// iota block with blank identifiers filling the gaps
		b.WriteString("const (\n")
		next := int64(0)
		first := true
		for _, k := range ks {
			for next < k.Ival {
				if first {
					fmt.Fprintf(&b, "\t_%s = iota\n", typ(k))
					first = false
				} else {
					b.WriteString("\t_\n")
				}
				next++
			}
			if first {
				fmt.Fprintf(&b, "\t%s%s = iota%s\n", k.Name, typ(k), trailing(k))
				first = false
			} else {
				fmt.Fprintf(&b, "\t%s%s\n", k.Name, trailing(k))
			}
			next++
		}
		b.WriteString(")\n\n")
	case style == "single":
		for _, k := range ks {
			fmt.Fprintf(&b, "const %s%s = %s%s\n", k.Name, typ(k), k.Val, trailing(k))
		}
		b.WriteString("\n")
	case style == "multiname" && len(ks) >= 2 && sameMeta:
		names, vals := []string{}, []string{}
		for _, k := range ks {
			names = append(names, k.Name)
			vals = append(vals, k.Val)
		}
		fmt.Fprintf(&b, "const %s%s = %s%s\n\n", strings.Join(names, ", "), typ(ks[0]), strings.Join(vals, ", "), trailing(ks[0]))
	default:
		b.WriteString("const (\n")
		for _, k := range ks {
			fmt.Fprintf(&b, "\t%s%s = %s%s\n", k.Name, typ(k), k.Val, trailing(k))
		}
		b.WriteString(")\n\n")
	}
	return b.String()
}

type workIn struct {
	Cases []Case `json:"cases"`
}

// Worker renders every case into one scratch module, loads all root files with one real
// LoadSources call, self-checks the rendering against go/types, and runs the real analysis.
func Worker(args []string) {
	core.WorkerIO(args, func(in workIn, dir string) workIn {
		mod, err := synth.NewModule(dir)
		if err != nil {
			panic(err)
		}
		var rels []string
		for i := range in.Cases {
			files := render(&in.Cases[i])
			in.Cases[i].Files = files
			if err := mod.Write(files); err != nil {
				panic(err)
			}
			rels = append(rels, fmt.Sprintf("c%d/defs.go", in.Cases[i].Case))
		}
		pkgs, _, err := mod.Load(rels)
		if err != nil {
			for i := range in.Cases {
				in.Cases[i].Outcome, in.Cases[i].Msg = "harness", "load failed: "+err.Error()
			}
			return in
		}
		for i := range in.Cases {
			c := &in.Cases[i]
			pkg := pkgs[i]
			subPkg := pkg.Imports[pkgPath(c.Case, true)]
			scopeOf := func(p string) *types.Scope {
				if p == pkg.PkgPath {
					return pkg.Types.Scope()
				}
				return subPkg.Types.Scope()
			}
			// self-check of the synthesiser: go/types must see the abstract constants
			for _, k := range c.Consts {
				obj, _ := scopeOf(k.Pkg).Lookup(k.Name).(*types.Const)
				if obj == nil {
					c.Outcome, c.Msg = "harness", "constant not rendered: "+k.Name
					break
				}
				val := obj.Val().ExactString()
				if obj.Val().Kind() == constant.Float {
					val = obj.Val().String()
				}
				tkey := ""
				if n, ok := obj.Type().(*types.Named); ok {
					tkey = n.Obj().Pkg().Path() + "." + n.Obj().Name()
				}
				if val != k.Val || tkey != k.Type {
					c.Outcome, c.Msg = "harness", fmt.Sprintf("constant %s rendered as %s %s, wanted %s %s", k.Name, tkey, val, k.Type, k.Val)
					break
				}
			}
			if c.Outcome != "" {
				continue
			}
			var ana *analysis.Analysis
			class, msg := synth.Guard(func() { ana = analysis.NewAnalysisFromFile(pkg, mod.Abs(rels[i])) })
			c.Outcome, c.Msg = class, msg
			if class != synth.OutOK {
				continue
			}
			for _, t := range c.Types {
				named := scopeOf(t.Pkg).Lookup(t.Name).Type()
				o := TypeObs{Type: t.Key, Members: []Member{}}
				if e, ok := ana.Types[named].(*analysis.Enum); ok {
					o.IsEnum, o.Iota = true, e.IsIota
					for _, m := range e.Members {
						mm := Member{Name: m.Const.Name(), Val: m.Const.Val().ExactString(), Comment: m.Comment, Exported: m.Const.Exported()}
						if m.Const.Val().Kind() == constant.Float {
							mm.Val = m.Const.Val().String()
						}
						if m.Const.Val().Kind() == constant.Int {
							if v, exact := constant.Int64Val(m.Const.Val()); exact {
								mm.Ival, mm.Isint = v, true
							}
						}
						o.Members = append(o.Members, mm)
					}
				} else if ana.Types[named] == nil {
					c.Outcome, c.Msg = "harness", "type not analysed: "+t.Key
				}
				c.Observed = append(c.Observed, o)
			}
		}
		return in
	})
}

func Run(c *core.Ctx, replay string) (*core.Result, error) {
	res := &core.Result{Level: "model_checking"}
	res.Assumptions = []string{
		"scope of 'all packages' = the analysed package tree (root + imported sub-package of the same module); constants of foreign (standard library) types are outside the universe",
		"the synthesiser's rendering is checked against go/types on every run (value and type of every abstract constant)",
	}
	var cases []Case
	nCore := 0
	if replay != "" {
		var cs Case
		if err := core.LoadReplay(replay, &cs); err != nil {
			return nil, err
		}
		cs.Outcome, cs.Msg, cs.Observed = "", "", nil
		cases = []Case{cs}
	} else {
		cfg := "EnumModel_quick.cfg"
		if c.Thorough() {
			cfg = "EnumModel_thorough.cfg"
		}
		ef := filepath.Join(c.Scratch, "export.ndjson")
		t, err := c.RunTLC(core.TLCOpts{Module: "EnumModel", Config: cfg, Workers: 1, Env: map[string]string{"VERIF_EXPORT": ef}})
		if err != nil {
			return nil, err
		}
		if t.ErrorKind != "" {
			return nil, core.Inconcl("design-level run of EnumModel ended with %s %s (model-only counterexample)\n%s", t.ErrorKind, t.InvViolated, core.Tail(t.Output, 30))
		}
		res.AddTLC(t)
		recs, err := core.ReadNDJSON(ef)
		if err != nil {
			return nil, core.Inconcl("export: %v", err)
		}
		var cores [][]core_
		for _, r := range recs {
			b, _ := json.Marshal(r["core"])
			var cs []core_
			json.Unmarshal(b, &cs)
			cores = append(cores, cs)
		}
		nCore = len(cores)
		rng := rand.New(rand.NewSource(c.Seed))
		// every enumerated core is the root type's block once; the sub package gets a random other core
		for i, co := range cores {
			cases = append(cases, compose(i+1, co, cores[rng.Intn(len(cores))], rng))
		}
	}
	obs, err := runCases(c, cases)
	if err != nil {
		return nil, err
	}
	var recs []any
	byCase := map[int]Case{}
	distinct := map[string]bool{}
	for i, o := range obs {
		if o.Outcome == "harness" {
			return nil, core.Inconcl("case %d: %s", o.Case, o.Msg)
		}
		files := o.Files
		o.Files = nil
		if o.Observed == nil {
			o.Observed = []TypeObs{}
		}
		recs = append(recs, o)
		o.Files = files
		byCase[o.Case] = o
		distinct[fmt.Sprint(o.Consts)] = true
		if i%151 == 7 {
			s := o
			res.Sample(map[string]any{"case": s.Case, "source": s.Files, "observed": s.Observed})
		}
	}
	bad, err := c.JudgeTrace(res, "TraceEnums", recs)
	if err != nil {
		return nil, err
	}
	for _, v := range bad {
		cs := byCase[core.Int(v, "case")]
		why := core.Str(v, "why")
		key := why
		if strings.HasPrefix(why, "analysis did not complete") {
			key = "analysis did not complete: " + firstWords(cs.Msg, 6)
		}
		cs.Observed = nil
		res.Violations = append(res.Violations, core.Violation{Key: key, What: fmt.Sprintf("%s (type %s); source:\n%s", why, core.Str(v, "type"), cs.Files[fmt.Sprintf("c%d/defs.go", cs.Case)]), Replay: cs})
	}
	res.Evaluations = len(cases)
	res.TracesVsImpl = len(cases)
	res.Nontrivial = len(distinct)
	res.Rule = fmt.Sprintf("one package tree per constant block enumerated by TLC (%d cores: <=MaxConsts constants x exported? x values -1..MaxVal for the root type T), decorated (seeded) with a same-named type in a sub-package, string/bool/float enums, opt-out comments, labels, untyped and predeclared-typed constants, and rendered in a random style (explicit, iota, iota with offset, blanks, single-line, multi-name); distinct = distinct abstract constant lists", nCore)
	return res, nil
}

func firstWords(s string, n int) string {
	f := strings.Fields(s)
	if len(f) > n {
		f = f[:n]
	}
	return strings.Join(f, " ")
}

func runCases(c *core.Ctx, cases []Case) ([]Case, error) {
	const chunk = 150
	type part struct {
		idx int
		out workIn
		err error
		log string
	}
	var parts [][]Case
	for i := 0; i < len(cases); i += chunk {
		j := i + chunk
		if j > len(cases) {
			j = len(cases)
		}
		parts = append(parts, cases[i:j])
	}
	results := make([]part, len(parts))
	sem := make(chan bool, c.Workers)
	done := make(chan int)
	for k := range parts {
		go func(k int) {
			sem <- true
			defer func() { <-sem; done <- k }()
			var out workIn
			log, err := c.RunSelfWorker("c10", workIn{Cases: parts[k]}, &out, 5*time.Minute)
			results[k] = part{idx: k, out: out, err: err, log: log}
		}(k)
	}
	for range parts {
		<-done
	}
	var all []Case
	for _, p := range results {
		if p.err != nil {
			return nil, core.Inconcl("c10 worker: %v\n%s", p.err, core.Tail(p.log, 15))
		}
		all = append(all, p.out.Cases...)
	}
	return all, nil
}
