// Package walk traverses the node graph of an analysis result.
package walk

import (
	"go/types"

	"github.com/benoitkugler/gomacro/analysis"
)

// Key is the canonical identity of a Go type shared with the specifications: go/types' string with
// full package paths.
func Key(t types.Type) string { return types.TypeString(t, nil) }

// Children returns the nodes a node links to.
func Children(n analysis.Type) []analysis.Type {
	switch n := n.(type) {
	case *analysis.Named:
		return []analysis.Type{n.Underlying}
	case *analysis.Array:
		return []analysis.Type{n.Elem}
	case *analysis.Map:
		return []analysis.Type{n.Key, n.Elem}
	case *analysis.Pointer:
		return []analysis.Type{n.Elem}
	case *analysis.Struct:
		out := make([]analysis.Type, 0, len(n.Fields))
		for _, f := range n.Fields {
			out = append(out, f.Type)
		}
		return out
	case *analysis.Union:
		return append([]analysis.Type(nil), n.Members...)
	}
	return nil
}

// All visits every node reachable from the analysis result (Types values and Source), each
// distinct node object once.  A nil node is reported to visit as nil and not followed.
func All(an *analysis.Analysis, visit func(n analysis.Type)) {
	seen := map[analysis.Type]bool{}
	var rec func(n analysis.Type)
	rec = func(n analysis.Type) {
		if n == nil {
			visit(nil)
			return
		}
		if seen[n] {
			return
		}
		seen[n] = true
		visit(n)
		for _, c := range Children(n) {
			rec(c)
		}
	}
	for _, src := range an.Source {
		if n, ok := an.Types[src]; ok {
			rec(n)
		}
	}
	// deterministic order is irrelevant for the checks; map order is fine
	for _, n := range an.Types {
		rec(n)
	}
}
