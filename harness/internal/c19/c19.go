// Package c19 checks property C19 (declaration assembly) — spec/Decls*.tla.
package c19

import (
	"encoding/json"
	"fmt"
	"math/rand"
	"os"
	"path/filepath"
	"sort"

	"github.com/benoitkugler/gomacro/generator"

	"verif/harness/internal/core"
)

type decl struct {
	ID      string `json:"id"`
	Content string `json:"content"`
	Prio    bool   `json:"prio"`
}

type obs struct {
	Case   int    `json:"case"`
	Input  []decl `json:"input"`
	Output string `json:"output"`
}

func call(in []decl) string {
	ds := make([]generator.Declaration, len(in))
	for i, d := range in {
		ds[i] = generator.Declaration{ID: d.ID, Content: d.Content, Priority: d.Prio}
	}
	return generator.WriteDeclarations(ds)
}

func Run(c *core.Ctx, replay string) (*core.Result, error) {
	res := &core.Result{Level: "model_checking"}
	res.Assumptions = []string{
		"Go's string order on the ID universe equals the order of IdOrder in spec/DeclsDef.tla (checked at start of every run)",
		"sort.Slice may leave equal IDs in any order (modelled as nondeterminism)",
	}
	var inputs [][]decl
	var idorder []string

	if replay != "" {
		var o obs
		if err := core.LoadReplay(replay, &o); err != nil {
			return nil, err
		}
		inputs = [][]decl{o.Input}
	}

	// 1. design-level run + export of the enumerated inputs
	cfg := "Decls_quick.cfg"
	if c.Thorough() {
		cfg = "Decls_thorough.cfg"
	}
	exportFile := filepath.Join(c.Scratch, "export.ndjson")
	t, err := c.RunTLC(core.TLCOpts{Module: "Decls", Config: cfg, Workers: 1, Env: map[string]string{"VERIF_EXPORT": exportFile}})
	if err != nil {
		return nil, err
	}
	if t.ErrorKind != "" {
		// the model leaves the property: not a verdict about the code
		return nil, core.Inconcl("design-level run of Decls ended with %s %s (model-only counterexample)\n%s", t.ErrorKind, t.InvViolated, core.Tail(t.Output, 30))
	}
	res.AddTLC(t)
	recs, err := core.ReadNDJSON(exportFile)
	if err != nil {
		return nil, core.Inconcl("reading TLC export: %v", err)
	}
	for i, r := range recs {
		if i == 0 {
			b, _ := json.Marshal(r["idorder"])
			json.Unmarshal(b, &idorder)
			continue
		}
		b, _ := json.Marshal(r["input"])
		var in []decl
		if err := json.Unmarshal(b, &in); err != nil {
			return nil, core.Inconcl("export decoding: %v", err)
		}
		if replay == "" {
			inputs = append(inputs, in)
		}
	}
	if !sort.StringsAreSorted(idorder) || len(idorder) < 5 {
		return nil, core.Inconcl("IdOrder of the spec is not in Go string order: %q", idorder)
	}
	nEnumerated := len(inputs)

	// liveness of the model in a tiny scope (thorough only)
	if c.Thorough() && replay == "" {
		tl, err := c.RunTLC(core.TLCOpts{Module: "Decls", Config: "Decls_live.cfg", Workers: 4})
		if err != nil {
			return nil, err
		}
		if tl.ErrorKind != "" {
			return nil, core.Inconcl("liveness run of Decls ended with %s", tl.ErrorKind)
		}
		res.AddTLC(tl)
	}

	// 2. seeded random longer lists (beyond TLC's exhaustive scope), each with shuffles
	if replay == "" {
		rng := rand.New(rand.NewSource(c.Seed))
		contents := []string{"x", "y", "", " ", "line1\nline2", "é", "// c\n\tcode {\n}\n", "x\n"}
		nBase := 150
		if c.Thorough() {
			nBase = 3000
		}
		for b := 0; b < nBase; b++ {
			n := 1 + rng.Intn(40)
			nIDs := 1 + rng.Intn(len(idorder))
			pool := rng.Perm(len(idorder))[:nIDs]
			equalContent := rng.Intn(4) != 0
			if !equalContent {
				n = 1 + rng.Intn(7) // keeps the set of allowed texts small
			}
			contentOf := map[string]string{}
			base := make([]decl, n)
			for i := range base {
				id := idorder[pool[rng.Intn(len(pool))]]
				ct, ok := contentOf[id]
				if !ok || !equalContent {
					ct = contents[rng.Intn(len(contents))]
					contentOf[id] = ct
				}
				base[i] = decl{ID: id, Content: ct, Prio: rng.Intn(3) == 0}
			}
			inputs = append(inputs, base)
			shuffles := 3
			for s := 0; s < shuffles; s++ {
				p := append([]decl(nil), base...)
				rng.Shuffle(len(p), func(i, j int) { p[i], p[j] = p[j], p[i] })
				inputs = append(inputs, p)
			}
		}
	}

	// 3. the real code
	recsOut := make([]any, 0, len(inputs))
	distinct := map[string]bool{}
	nontrivial := 0
	for i, in := range inputs {
		o := obs{Case: i + 1, Input: in, Output: call(in)}
		if o.Input == nil {
			o.Input = []decl{}
		}
		recsOut = append(recsOut, o)
		k := fmt.Sprint(in)
		if !distinct[k] {
			distinct[k] = true
			if interesting(in) {
				nontrivial++
			}
		}
		if i%997 == 3 || i == len(inputs)-1 {
			res.Sample(o)
		}
	}
	trace := filepath.Join(c.Scratch, "trace.ndjson")
	if err := core.WriteNDJSON(trace, recsOut); err != nil {
		return nil, err
	}

	// 4. TLC judges every call
	verdicts := filepath.Join(c.Scratch, "verdicts.ndjson")
	tt, err := c.RunTLC(core.TLCOpts{Module: "TraceDecls", Config: "TraceDecls.cfg", Workers: 1,
		Env: map[string]string{"VERIF_TRACE": trace, "VERIF_OUT": verdicts}})
	if err != nil {
		return nil, err
	}
	if err := tt.MustClean("TraceDecls"); err != nil {
		return nil, err
	}
	res.AddTLC(tt)
	vs, err := core.ReadNDJSON(verdicts)
	if err != nil || len(vs) == 0 || core.Int(vs[0], "consumed") != len(inputs) {
		return nil, core.Inconcl("verdict file incomplete: %v", err)
	}
	for _, v := range vs[1:] {
		idx := core.Int(v, "case") - 1
		why := core.Str(v, "why")
		if idx < 0 || idx >= len(inputs) {
			return nil, core.Inconcl("verdict for unknown case %d", idx)
		}
		if len(why) > 8 && why[:8] == "harness:" {
			return nil, core.Inconcl("%s", why)
		}
		o := recsOut[idx].(obs)
		// re-run once: the violation must reproduce on the real code
		if again := call(o.Input); again != o.Output {
			res.Violations = append(res.Violations, core.Violation{Key: "WriteDeclarations:nondeterministic", What: "two calls on the same list returned different texts", Replay: o})
			continue
		}
		res.Violations = append(res.Violations, core.Violation{Key: "WriteDeclarations:" + why, What: fmt.Sprintf("%s; input=%v output=%q", why, o.Input, o.Output), Replay: o})
	}
	res.Evaluations = len(inputs)
	res.TracesVsImpl = len(inputs)
	res.Nontrivial = nontrivial
	res.Exhaustive = false
	res.Rule = fmt.Sprintf("all %d lists of Decls_%s.cfg (length<=MaxLen over 3 IDs x 2 contents x 2 priorities, closed under permutation) exported by TLC, plus seeded random lists of length<=40 over the %d-ID universe with 3 shuffles each; non-trivial = has a duplicate ID, or both priorities, or IDs supplied out of order", nEnumerated, c.Tier, len(idorder))
	res.Extra = map[string]any{"enumerated_by_tlc": nEnumerated, "random_and_shuffled": len(inputs) - nEnumerated, "design_cfg": cfg}
	_ = os.Remove(trace)
	return res, nil
}

func interesting(in []decl) bool {
	ids := map[string]bool{}
	prio, non := false, false
	for i, d := range in {
		if ids[d.ID] {
			return true
		}
		ids[d.ID] = true
		if d.Prio {
			prio = true
		} else {
			non = true
		}
		if i > 0 && in[i-1].ID > d.ID {
			return true
		}
	}
	return prio && non
}
