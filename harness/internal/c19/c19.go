// Package c19 checks property C19 (declaration assembly) — spec/Decls*.tla.
package c19

import (
	"encoding/json"
	"strings"
	"time"
	"fmt"
	"math/rand"
	"os"
	"path/filepath"
	"sort"

	"github.com/benoitkugler/gomacro/generator"

	"github.com/benoitkugler/gomacro/analysis"

	"verif/harness/internal/absprog"
	"verif/harness/internal/core"
	"verif/harness/internal/gens"
	"verif/harness/internal/sqlprog"
	"verif/harness/internal/synth"
)

type decl struct {
	ID      string `json:"id"`
	Content string `json:"content"`
	Prio    bool   `json:"prio"`
}

type obs struct {
	Case   int    `json:"case"`
	Input  []decl `json:"input"`
	Output string `json:"output"`
	// lists taken from a real generator: the distinct IDs in Go string order, and where the list comes from
	Ids   []string `json:"ids,omitempty"`
	Label string   `json:"label,omitempty"`
}

// item is a synthesised package whose generators' declaration lists are assembled too.
type item struct {
	ID     int               `json:"id"`
	Files  map[string]string `json:"files"`
	Source string            `json:"source"`
}

type realList struct {
	Label string `json:"label"`
	Decls []decl `json:"decls"`
}

type workIn struct {
	Items []item `json:"items"`
}

type workOut struct {
	Lists []realList `json:"lists"`
	Note  string     `json:"note"`
}

// Worker loads the packages and returns the declaration lists every generator supplies for them.
func Worker(args []string) {
	core.WorkerIO(args, func(in workIn, dir string) workOut {
		var out workOut
		mod, err := synth.NewModule(dir)
		if err != nil {
			panic(err)
		}
		var rels []string
		for _, it := range in.Items {
			mod.Write(it.Files)
			rels = append(rels, it.Source)
		}
		pkgs, root, err := mod.Load(rels)
		if err != nil {
			out.Note = "load failed: " + err.Error()
			return out
		}
		for i, it := range in.Items {
			var ana *analysis.Analysis
			if class, _ := synth.Guard(func() { ana = analysis.NewAnalysisFromFile(pkgs[i], mod.Abs(rels[i])) }); class != synth.OutOK {
				continue
			}
			for _, tgt := range gens.Targets {
				lists, class, _ := gens.Decls(tgt, ana, root)
				if class != synth.OutOK {
					continue
				}
				for _, file := range synth.SortedKeys(lists) {
					rl := realList{Label: fmt.Sprintf("package %d, target %s %s", it.ID, tgt, file)}
					for _, d := range lists[file] {
						rl.Decls = append(rl.Decls, decl{ID: d.ID, Content: d.Content, Prio: d.Priority})
					}
					if len(rl.Decls) > 0 {
						out.Lists = append(out.Lists, rl)
					}
				}
			}
		}
		return out
	})
}

func call(in []decl) string {
	ds := make([]generator.Declaration, len(in))
	for i, d := range in {
		ds[i] = generator.Declaration{ID: d.ID, Content: d.Content, Priority: d.Prio}
	}
	return generator.WriteDeclarations(ds)
}

func Run(c *core.Ctx, replay string) (*core.Result, error) {
	res := &core.Result{Level: "model_checking"}
	res.Assumptions = []string{
		"Go's string order on the ID universe equals the order of IdOrder in spec/DeclsDef.tla (checked at start of every run)",
		"sort.Slice may leave equal IDs in any order (modelled as nondeterminism)",
	}
	var inputs [][]decl
	var idorder []string

	if replay != "" {
		var o obs
		if err := core.LoadReplay(replay, &o); err != nil {
			return nil, err
		}
		inputs = [][]decl{o.Input}
	}

	// 1. design-level run + export of the enumerated inputs
	cfg := "Decls_quick.cfg"
	if c.Thorough() {
		cfg = "Decls_thorough.cfg"
	}
	exportFile := filepath.Join(c.Scratch, "export.ndjson")
	t, err := c.RunTLC(core.TLCOpts{Module: "Decls", Config: cfg, Workers: 1, Env: map[string]string{"VERIF_EXPORT": exportFile}})
	if err != nil {
		return nil, err
	}
	if t.ErrorKind != "" {
		// the model leaves the property: not a verdict about the code
		return nil, core.Inconcl("design-level run of Decls ended with %s %s (model-only counterexample)\n%s", t.ErrorKind, t.InvViolated, core.Tail(t.Output, 30))
	}
	res.AddTLC(t)
	recs, err := core.ReadNDJSON(exportFile)
	if err != nil {
		return nil, core.Inconcl("reading TLC export: %v", err)
	}
	for i, r := range recs {
		if i == 0 {
			b, _ := json.Marshal(r["idorder"])
			json.Unmarshal(b, &idorder)
			continue
		}
		b, _ := json.Marshal(r["input"])
		var in []decl
		if err := json.Unmarshal(b, &in); err != nil {
			return nil, core.Inconcl("export decoding: %v", err)
		}
		if replay == "" {
			inputs = append(inputs, in)
		}
	}
	if !sort.StringsAreSorted(idorder) || len(idorder) < 5 {
		return nil, core.Inconcl("IdOrder of the spec is not in Go string order: %q", idorder)
	}
	nEnumerated := len(inputs)

	// liveness of the model in a tiny scope (thorough only)
	if c.Thorough() && replay == "" {
		tl, err := c.RunTLC(core.TLCOpts{Module: "Decls", Config: "Decls_live.cfg", Workers: 4})
		if err != nil {
			return nil, err
		}
		if tl.ErrorKind != "" {
			return nil, core.Inconcl("liveness run of Decls ended with %s", tl.ErrorKind)
		}
		res.AddTLC(tl)
	}

	// 2. seeded random longer lists (beyond TLC's exhaustive scope), each with shuffles
	if replay == "" {
		rng := rand.New(rand.NewSource(c.Seed))
		contents := []string{"x", "y", "", " ", "line1\nline2", "é", "// c\n\tcode {\n}\n", "x\n"}
		nBase := 150
		if c.Thorough() {
			nBase = 3000
		}
		for b := 0; b < nBase; b++ {
			n := 1 + rng.Intn(40)
			nIDs := 1 + rng.Intn(len(idorder))
			pool := rng.Perm(len(idorder))[:nIDs]
			equalContent := rng.Intn(4) != 0
			if !equalContent {
				n = 1 + rng.Intn(7) // keeps the set of allowed texts small
			}
			contentOf := map[string]string{}
			base := make([]decl, n)
			for i := range base {
				id := idorder[pool[rng.Intn(len(pool))]]
				ct, ok := contentOf[id]
				if !ok || !equalContent {
					ct = contents[rng.Intn(len(contents))]
					contentOf[id] = ct
				}
				base[i] = decl{ID: id, Content: ct, Prio: rng.Intn(3) == 0}
			}
			inputs = append(inputs, base)
			shuffles := 3
			for s := 0; s < shuffles; s++ {
				p := append([]decl(nil), base...)
				rng.Shuffle(len(p), func(i, j int) { p[i], p[j] = p[j], p[i] })
				inputs = append(inputs, p)
			}
		}
	}

	// 2b. the declaration lists the real generators supply (arbitrary IDs: their Go string order travels with the
	// record), as supplied, reversed and shuffled: the assembly must not depend on the order, and equal IDs carry
	// equal content - which is what makes a generator's text independent of its traversal order
	type realIn struct {
		ids   []string
		label string
	}
	realOf := map[int]realIn{}
	nReal := 0
	if replay == "" {
		rng := rand.New(rand.NewSource(c.Seed + 19))
		var items []item
		nProg := 3
		if c.Thorough() {
			nProg = 25
		}
		for k := 0; k < nProg; k++ {
			o := absprog.Full()
			o.NStructs = 2 + rng.Intn(3)
			p := absprog.Random(k+1, rng, o)
			items = append(items, item{ID: k + 1, Files: absprog.Render(p, synth.ModRoot), Source: fmt.Sprintf("p%d/defs.go", k+1)})
		}
		m := sqlprog.DirectiveRich(len(items) + 1)
		items = append(items, item{ID: m.ID, Files: sqlprog.Render(m), Source: sqlprog.Dir(m.ID) + "/models.go"})
		m2 := sqlprog.TwinColumns(len(items) + 1)
		items = append(items, item{ID: m2.ID, Files: sqlprog.Render(m2), Source: sqlprog.Dir(m2.ID) + "/models.go"})
		var wout workOut
		log, err := c.RunSelfWorker("c19", workIn{Items: items}, &wout, 15*time.Minute)
		if err != nil {
			return nil, core.Inconcl("c19 worker: %v\n%s", err, core.Tail(log, 20))
		}
		if wout.Note != "" || len(wout.Lists) == 0 {
			return nil, core.Inconcl("c19 worker: no declaration list from the generators (%s)", wout.Note)
		}
		for _, rl := range wout.Lists {
			seen := map[string]bool{}
			var ids []string
			for _, d := range rl.Decls {
				if !seen[d.ID] {
					seen[d.ID] = true
					ids = append(ids, d.ID)
				}
			}
			sort.Strings(ids)
			variants := [][]decl{rl.Decls}
			rev := make([]decl, len(rl.Decls))
			for i, d := range rl.Decls {
				rev[len(rev)-1-i] = d
			}
			variants = append(variants, rev)
			for s := 0; s < 2; s++ {
				p := append([]decl(nil), rl.Decls...)
				rng.Shuffle(len(p), func(i, j int) { p[i], p[j] = p[j], p[i] })
				variants = append(variants, p)
			}
			for _, v := range variants {
				realOf[len(inputs)] = realIn{ids, rl.Label}
				inputs = append(inputs, v)
				nReal++
			}
		}
	}

	// 3. the real code
	recsOut := make([]any, 0, len(inputs))
	distinct := map[string]bool{}
	nontrivial := 0
	for i, in := range inputs {
		o := obs{Case: i + 1, Input: in, Output: call(in)}
		if r, ok := realOf[i]; ok {
			o.Ids, o.Label = r.ids, r.label
			if o.Ids == nil {
				o.Ids = []string{}
			}
		}
		if o.Input == nil {
			o.Input = []decl{}
		}
		recsOut = append(recsOut, o)
		k := fmt.Sprint(in)
		if !distinct[k] {
			distinct[k] = true
			if interesting(in) {
				nontrivial++
			}
		}
		if i%997 == 3 || i == len(inputs)-1 {
			res.Sample(o)
		}
	}
	trace := filepath.Join(c.Scratch, "trace.ndjson")
	if err := core.WriteNDJSON(trace, recsOut); err != nil {
		return nil, err
	}

	// 4. TLC judges every call
	verdicts := filepath.Join(c.Scratch, "verdicts.ndjson")
	tt, err := c.RunTLC(core.TLCOpts{Module: "TraceDecls", Config: "TraceDecls.cfg", Workers: 1,
		Env: map[string]string{"VERIF_TRACE": trace, "VERIF_OUT": verdicts}})
	if err != nil {
		return nil, err
	}
	if err := tt.MustClean("TraceDecls"); err != nil {
		return nil, err
	}
	res.AddTLC(tt)
	vs, err := core.ReadNDJSON(verdicts)
	if err != nil || len(vs) == 0 || core.Int(vs[0], "consumed") != len(inputs) {
		return nil, core.Inconcl("verdict file incomplete: %v", err)
	}
	for _, v := range vs[1:] {
		idx := core.Int(v, "case") - 1
		why := core.Str(v, "why")
		if idx < 0 || idx >= len(inputs) {
			return nil, core.Inconcl("verdict for unknown case %d", idx)
		}
		if len(why) > 8 && why[:8] == "harness:" {
			return nil, core.Inconcl("%s", why)
		}
		o := recsOut[idx].(obs)
		// re-run once: the violation must reproduce on the real code
		if again := call(o.Input); again != o.Output {
			res.Violations = append(res.Violations, core.Violation{Key: "WriteDeclarations:nondeterministic", What: "two calls on the same list returned different texts", Replay: o})
			continue
		}
		if o.Label != "" {
			key := why
			if j := strings.Index(key, ": "); j > 0 {
				key = key[:j]
			}
			res.Violations = append(res.Violations, core.Violation{Key: "generator lists:" + key, What: fmt.Sprintf("%s (%s, %d declarations)", why, o.Label, len(o.Input)), Replay: o})
			continue
		}
		res.Violations = append(res.Violations, core.Violation{Key: "WriteDeclarations:" + why, What: fmt.Sprintf("%s; input=%v output=%q", why, o.Input, o.Output), Replay: o})
	}
	res.Evaluations = len(inputs)
	res.TracesVsImpl = len(inputs)
	res.Nontrivial = nontrivial
	res.Exhaustive = false
	res.Rule = fmt.Sprintf("all %d lists of Decls_%s.cfg (length<=MaxLen over 3 IDs x 2 contents x 2 priorities, closed under permutation) exported by TLC, plus seeded random lists of length<=40 over the %d-ID universe with 3 shuffles each, plus the declaration lists every real generator supplies for synthesised packages (as supplied, reversed, shuffled twice); non-trivial = has a duplicate ID, or both priorities, or IDs supplied out of order", nEnumerated, c.Tier, len(idorder))
	res.Extra = map[string]any{"enumerated_by_tlc": nEnumerated, "random_and_shuffled": len(inputs) - nEnumerated - nReal, "real_generator_lists_and_permutations": nReal, "design_cfg": cfg}
	_ = os.Remove(trace)
	return res, nil
}

func interesting(in []decl) bool {
	ids := map[string]bool{}
	prio, non := false, false
	for i, d := range in {
		if ids[d.ID] {
			return true
		}
		ids[d.ID] = true
		if d.Prio {
			prio = true
		} else {
			non = true
		}
		if i > 0 && in[i-1].ID > d.ID {
			return true
		}
	}
	return prio && non
}
