// Package c08 checks property C08 (SQL schema = faithful image of the table structs) — spec/PgDDL*.tla, TraceDDL.tla.
package c08

import (
	"fmt"
	"math/rand"
	"path/filepath"
	"strings"
	"time"

	"github.com/benoitkugler/gomacro/analysis"

	"verif/harness/internal/core"
	"verif/harness/internal/gens"
	"verif/harness/internal/proj"
	"verif/harness/internal/sqlprog"
	"verif/harness/internal/synth"
)

type workIn struct {
	Models []*sqlprog.Model `json:"models"`
}

type obsOut struct {
	Case    int             `json:"case"`
	Outcome string          `json:"outcome"`
	Syntax  string          `json:"syntax"`
	Schema  *proj.Schema    `json:"schema"`
	Env     []sqlprog.EnvDecl `json:"env"`
	Tables  []sqlprog.Table `json:"tables"`
	SQL     string          `json:"sql,omitempty"`
	Source  string          `json:"source,omitempty"`
	Note    string          `json:"note,omitempty"`
}

type workOut struct {
	Obs []obsOut `json:"obs"`
}

// LoadUniverse runs the design-level check of PgDDLModel and returns the exported universe.
func LoadUniverse(c *core.Ctx, res *core.Result) (*sqlprog.Universe, error) {
	ef := filepath.Join(c.Scratch, "ddl-export.ndjson")
	t, err := c.RunTLC(core.TLCOpts{Module: "PgDDLModel", Config: "PgDDLModel.cfg", Workers: 1, Env: map[string]string{"VERIF_EXPORT": ef}})
	if err != nil {
		return nil, err
	}
	if t.ErrorKind != "" {
		return nil, core.Inconcl("design-level run of PgDDLModel ended with %s %s\n%s", t.ErrorKind, t.InvViolated, core.Tail(t.Output, 25))
	}
	res.AddTLC(t)
	recs, err := core.ReadNDJSON(ef)
	if err != nil {
		return nil, core.Inconcl("export: %v", err)
	}
	u, err := sqlprog.ParseUniverse(recs)
	if err != nil {
		return nil, core.Inconcl("export: %v", err)
	}
	return u, nil
}

func Worker(args []string) {
	core.WorkerIO(args, func(in workIn, dir string) workOut {
		var out workOut
		mod, err := synth.NewModule(dir)
		if err != nil {
			panic(err)
		}
		var rels []string
		for _, m := range in.Models {
			mod.Write(sqlprog.Render(m))
			rels = append(rels, sqlprog.Dir(m.ID)+"/models.go")
		}
		pkgs, root, err := mod.Load(rels)
		for i, m := range in.Models {
			o := obsOut{Case: m.ID, Env: m.Env, Tables: m.Tables, Schema: &proj.Schema{}, Source: sqlprog.Render(m)[rels[i]]}
			if err != nil {
				o.Note = "load failed: " + err.Error()
				out.Obs = append(out.Obs, o)
				continue
			}
			file := mod.Abs(rels[i])
			var ana *analysis.Analysis
			class, msg := synth.Guard(func() { ana = analysis.NewAnalysisFromFile(pkgs[i], file) })
			if class != synth.OutOK {
				o.Outcome = "analysis " + class + ": " + msg
				out.Obs = append(out.Obs, o)
				continue
			}
			sq := gens.Run("sql", pkgs[i], file, ana, root)
			if sq.Class != synth.OutOK {
				o.Outcome = "sql " + sq.Class + ": " + sq.Msg
				out.Obs = append(out.Obs, o)
				continue
			}
			o.Outcome, o.SQL = "ok", sq.Text
			sch, perr := proj.ParseDDL(sq.Text)
			if perr != nil {
				o.Syntax = perr.Error()
			} else {
				o.Schema = sch
			}
			out.Obs = append(out.Obs, o)
		}
		return out
	})
}

func Run(c *core.Ctx, replay string) (*core.Result, error) {
	res := &core.Result{Level: "model_checking"}
	res.Assumptions = []string{
		"'exported field' of the column rule is read as Go-exported (a field tagged json:\"-\" is still a column, as in the repository's own fixtures)",
		"the snake-case-plural convention: an underscore before an upper-case letter that follows a lower-case letter or digit, or that starts a capitalised word after an acronym; then lower case, plus 's'",
		"descriptor-level equality: the SQL parser of the harness (harness/internal/proj/ddl.go) is trusted",
	}
	u, err := LoadUniverse(c, res)
	if err != nil {
		return nil, err
	}
	var models []*sqlprog.Model
	if replay != "" {
		var m sqlprog.Model
		if err := core.LoadReplay(replay, &m); err != nil {
			return nil, err
		}
		models = []*sqlprog.Model{&m}
	} else {
		rng := rand.New(rand.NewSource(c.Seed))
		rounds := 1
		if c.Thorough() {
			rounds = 80
		}
		for r := 0; r < rounds; r++ {
			models = append(models, sqlprog.ComposeAnyID(u, rng, 2+rng.Intn(4), len(models)+1)...)
		}
	}
	var out workOut
	log, err := c.RunSelfWorker("c08", workIn{Models: models}, &out, 20*time.Minute)
	if err != nil {
		return nil, core.Inconcl("c08 worker: %v\n%s", err, core.Tail(log, 20))
	}
	var recs []any
	byCase := map[int]obsOut{}
	cols := 0
	for i, o := range out.Obs {
		if o.Note != "" {
			return nil, core.Inconcl("model %d: %s\n%s", o.Case, o.Note, o.Source)
		}
		byCase[o.Case] = o
		slim := o
		slim.SQL, slim.Source = "", ""
		recs = append(recs, slim)
		for _, t := range o.Tables {
			cols += len(t.Fields)
		}
		if i == 0 {
			res.Sample(map[string]any{"source": o.Source, "sql": firstLines(o.SQL, 60)})
		}
	}
	bad, err := c.JudgeTrace(res, "TraceDDL", recs)
	if err != nil {
		return nil, err
	}
	for _, v := range bad {
		o := byCase[core.Int(v, "case")]
		why := core.Str(v, "why")
		key := why
		if i := strings.Index(why, ": "); i > 0 && strings.HasPrefix(why, "table ") {
			// table <name>: column Cn: ...  -> keep the nature of the difference
			parts := strings.SplitN(why, ": ", 3)
			key = parts[len(parts)-1]
		}
		res.Violations = append(res.Violations, core.Violation{Key: key, What: fmt.Sprintf("%s\n%s\n-- generated:\n%s", why, o.Source, firstLines(o.SQL, 80)),
			Replay: sqlprog.Model{ID: o.Case, Env: o.Env, Tables: o.Tables}})
	}
	res.Evaluations = cols
	res.TracesVsImpl = len(recs)
	res.Nontrivial = len(u.Specs)
	res.Rule = fmt.Sprintf("the %d column specifications exported by TLC from PgDDLModel.tla (every basic kind, every declaration of Env0 incl. ID types, int / string / uint8 enums, date and time types, []byte, typed arrays, NullXXX look-alikes in both field orders, composites local and imported, jsonb kinds; guard and foreign-key variants with ON DELETE; a json:\"-\" column) spread over model files of 3 tables + 2 target tables + 1 link table, random id spelling / position and table names (acronyms, digits, one letter); evaluations = struct fields judged; distinct = column specifications", len(u.Specs))
	return res, nil
}

func firstLines(s string, n int) string {
	ls := strings.Split(s, "\n")
	if len(ls) > n {
		ls = ls[:n]
	}
	return strings.Join(ls, "\n")
}
