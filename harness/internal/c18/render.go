package c18

import (
	"fmt"
	"strings"

	"verif/harness/internal/routes"
	"verif/harness/internal/synth"
)

// CaseSpec is one input class enumerated by spec/Refusal.tla.
type CaseSpec struct {
	Kind string `json:"kind"` // form | spelling | random
	Form string `json:"form"`
	Pos  string `json:"pos"`
}

// formDecls are the declarations some forms bring along (named types over arrays, times, maps).
var formDecls = map[string]string{
	"namedarray": "\ntype Pair [2]int\n",
	"namedtime":  "\ntype Day time.Time\n",
	"namedmap":   "\ntype Table map[string]int\n",
}

func formType(form string) (typ string, imports []string) {
	switch form {
	case "namedarray":
		return "Pair", nil
	case "namedtime":
		return "Day", []string{"time"}
	case "namedmap":
		return "Table", nil
	case "structval":
		return "Leaf", nil
	case "plainarray":
		return "[2]int", nil
	case "time":
		return "time.Time", []string{"time"}
	case "duration":
		return "time.Duration", []string{"time"}
	case "ptr":
		return "*int", nil
	case "ptrstruct":
		return "*Leaf", nil
	case "chan":
		return "chan int", nil
	case "func":
		return "func(int) string", nil
	case "anonstruct":
		return "struct{ X int }", nil
	case "complex":
		return "complex128", nil
	case "emptyiface":
		return "interface{}", nil
	case "any":
		return "any", nil
	case "error":
		return "error", nil
	case "ioreader":
		return "io.Reader", []string{"io"}
	case "lonelyiface":
		return "Lonely", nil
	case "union":
		return "Shape", nil
	case "uintptr":
		return "uintptr", nil
	case "selfptr":
		return "SelfPtr", nil
	case "bytes":
		return "[]byte", nil
	case "rune":
		return "rune", nil
	case "uint64":
		return "uint64", nil
	case "float32":
		return "float32", nil
	}
	panic("unknown form " + form)
}

const commonDecls = `
type Leaf struct{ V int }

type Shape interface{ isShape() }

type Circle struct{ R int }

func (Circle) isShape() {}

type Square struct{ Side int }

func (Square) isShape() {}
`

// declarations only reached through the field under test (kept out of the analysed file)
const extraDecls = `
type Lonely interface{ lonely() }

type SelfPtr *SelfPtr
`

// renderCase returns the files of a case (relative to the module root) and the analysed file.
func renderCase(id int, cs CaseSpec) (files map[string]string, source string) {
	dir := fmt.Sprintf("q%d", id)
	pkgPath := synth.ModRoot + "/" + dir
	files = map[string]string{}
	source = dir + "/defs.go"
	head := func(name string, imports ...string) string {
		var b strings.Builder
		fmt.Fprintf(&b, "package %s\n\n", name)
		if len(imports) > 0 {
			b.WriteString("import (\n")
			for _, i := range imports {
				fmt.Fprintf(&b, "\t%q\n", i)
			}
			b.WriteString(")\n\n")
		}
		return b.String()
	}
	if cs.Kind == "form" {
		if cs.Form == "typeparam" {
			files[source] = head(dir) + "type G[T any] struct{ X T }\n\ntype Holder struct {\n\tA int\n\tX G[int]\n}\n"
			return
		}
		typ, imps := formType(cs.Form)
		body := commonDecls + formDecls[cs.Form]
		if cs.Pos != "subpkg" {
			files[dir+"/extra.go"] = head(dir) + extraDecls
		}
		field := ""
		switch cs.Pos {
		case "field":
			field = "X " + typ
		case "slice":
			field = "X []" + typ
		case "array":
			field = "X [2]" + typ
		case "mapval":
			field = "X map[string]" + typ
		case "mapkey":
			field = "X map[" + typ + "]int"
		case "named":
			body += "\ntype N " + typ + "\n"
			field = "X N"
		case "namedslice":
			body += "\ntype NS []" + typ + "\n"
			field = "X NS"
		case "embedded":
			field = typ
		case "unionmember":
			body += "\ntype Member struct{ X " + typ + " }\n\nfunc (Member) isShape() {}\n"
			field = "X Shape"
		case "subpkg":
			files[dir+"/sub/sub.go"] = head("sub", imps...) + commonDecls + formDecls[cs.Form] + extraDecls + "\ntype S struct{ X " + typ + " }\n"
			files[source] = head(dir, pkgPath+"/sub") + "type Holder struct {\n\tA int\n\tX sub.S\n}\n"
			return
		case "genericarg":
			files[dir+"/other.go"] = head(dir) + "type Opt[T any] struct {\n\tValid bool\n\tV T\n}\n"
			field = "X Opt[" + typ + "]"
		default:
			panic("unknown position " + cs.Pos)
		}
		files[source] = head(dir, imps...) + body + "\ntype Holder struct {\n\tA int\n\t" + field + "\n}\n"
		return
	}
	// legal but unusual spellings of supported constructs
	switch cs.Form {
	case "oneletter":
		files[source] = head(dir) + "type A struct {\n\tB C\n\tD []A\n}\n\ntype C int\n\nconst (\n\tE C = iota\n\tF\n)\n"
	case "oneletterunion":
		files[source] = head(dir) + "type U interface{ isU() }\n\ntype A struct{ V int }\n\nfunc (A) isU() {}\n\ntype B int\n\nfunc (B) isU() {}\n\ntype H struct {\n\tX U\n\tL UL\n}\n\ntype UL []U\n"
	case "shortpkg1", "shortpkg2":
		name := "a"
		if cs.Form == "shortpkg2" {
			name = "ab"
		}
		files[dir+"/"+name+"/x.go"] = head(name) + "type Level int\n\nconst (\n\tLow Level = iota\n\tHigh\n)\n\ntype Point struct{ X, Y int }\n\ntype Names []string\n"
		files[source] = head(dir, pkgPath+"/"+name) + fmt.Sprintf("type Holder struct {\n\tId int64\n\tL %[1]s.Level\n\tP %[1]s.Point\n\tN %[1]s.Names\n\tM map[string]%[1]s.Point\n}\n", name)
	case "groupedtype":
		files[source] = head(dir) + "// gomacro:SQL ADD UNIQUE(V)\ntype (\n\t// a doc comment\n\tA struct {\n\t\tId int64\n\t\tV  B\n\t}\n\tB int\n\t// gomacro:SQL ADD CHECK (W > 0)\n\tC struct {\n\t\tId int64\n\t\tW  int\n\t}\n)\n\nconst (\n\tB0 B = iota\n\tB1\n)\n"
	case "multiconst":
		files[source] = head(dir) + "type T int\n\nconst A, B T = 1, 2 // both\n\nconst (\n\tC, D T = 3, 4\n)\n\ntype H struct{ X T }\n"
	case "genericbasic":
		files[dir+"/other.go"] = head(dir) + "type Opt[T ~int64] struct {\n\tValid bool\n\tId    T\n}\n"
		files[source] = head(dir) + "type H struct {\n\tId int64\n\tO  Opt[int64]\n}\n"
	case "constunderscore":
		files[source] = head(dir) + "type T int\n\nconst (\n\tX_ T = iota\n\tY_\n\t_Z\n)\n\ntype S string\n\nconst S_ S = \"s\"\n\ntype H struct {\n\tX T\n\tY S\n}\n"
	case "emptystruct":
		files[source] = head(dir) + "type E struct{}\n\ntype H struct {\n\tId int64\n\tX  E\n\tL  []E\n}\n"
	case "unexportedonly":
		files[source] = head(dir) + "type U struct {\n\ta int\n\tb string\n}\n\ntype H struct {\n\tId int64\n\tX  U\n}\n"
	case "enumunexported":
		files[source] = head(dir) + "type T int\n\nconst (\n\ta T = iota\n\tb\n)\n\ntype H struct {\n\tId int64\n\tX  T\n}\n"
	case "badplaceholder":
		files[source] = head(dir) + "type T int\n\nconst (\n\tA T = iota\n\tB\n)\n\n// gomacro:SQL ADD CHECK (V = #[Nope.A])\n// gomacro:SQL ADD CHECK (V = #[T.Missing])\ntype H struct {\n\tId int64\n\tV  T\n}\n"
	case "unknowncomment":
		files[source] = head(dir) + "// gomacro:WHAT is this\ntype H struct {\n\tId int64\n}\n"
	case "fixedarrayofslices":
		files[source] = head(dir) + "type H struct {\n\tId int64\n\tX  [2][]int\n\tY  [2]map[string]int\n}\n"
	case "ptrrecvmember":
		files[source] = head(dir) + "type U interface{ isU() }\n\ntype A struct{ V int }\n\nfunc (*A) isU() {}\n\ntype B struct{ W int }\n\nfunc (B) isU() {}\n\ntype H struct {\n\tX U\n\tY A\n}\n"
	case "dupnames":
		files[dir+"/sub/sub.go"] = head("sub") + "type Kind int\n\nconst (\n\tK0 Kind = iota\n\tK1\n)\n\ntype Item struct{ K Kind }\n"
		files[source] = head(dir, pkgPath+"/sub") + "type Kind string\n\nconst (\n\tKa Kind = \"a\"\n\tKb Kind = \"b\"\n)\n\ntype Item struct {\n\tK  Kind\n\tSK sub.Kind\n\tSI sub.Item\n}\n"
	case "keyword":
		files[source] = head(dir) + "type Type struct {\n\tClass   string `json:\"class\"`\n\tDefault int    `json:\"default\"`\n\tFinal   bool   `json:\"final-flag\"`\n}\n\ntype Function int\n\nconst (\n\tNull Function = iota\n\tVoid\n)\n\ntype H struct {\n\tId int64\n\tT  Type\n\tF  Function\n}\n"
	case "selfslice":
		files[source] = head(dir) + "type Tree []Tree\n\ntype H struct {\n\tId int64\n\tT  Tree\n}\n"
	case "selfmap":
		files[source] = head(dir) + "type Dir map[string]Dir\n\ntype Grid [2]Cell\n\ntype Cell struct{ Sub []Grid }\n\ntype H struct {\n\tId int64\n\tD  Dir\n\tG  Grid\n}\n"
	case "unionlistmember":
		files[source] = head(dir) + "type Expr interface{ isExpr() }\n\ntype List []Expr\n\nfunc (List) isExpr() {}\n\ntype Lit struct{ V int }\n\nfunc (Lit) isExpr() {}\n\ntype Env map[string]Expr\n\nfunc (Env) isExpr() {}\n\ntype H struct {\n\tId int64\n\tE  Expr\n}\n"
	case "mutualnamed":
		files[source] = head(dir) + "type A []B\n\ntype B map[string]A\n\ntype C B\n\ntype H struct {\n\tId int64\n\tX  A\n\tY  C\n}\n"
	case "aliaschain":
		files[source] = head(dir) + "type Meters int\n\ntype Distance = Meters\n\ntype Length = Distance\n\ntype P struct{ X int }\n\ntype Q = P\n\ntype R = Q\n\ntype H struct {\n\tId int64\n\tL  Length\n\tLs []Length\n\tR  R\n\tM  map[string]R\n}\n"
	// comment directives and tags naming something that does not exist (a typo): a diagnostic, never a crash
	case "uniqueunknowncol":
		files[source] = head(dir) + "// gomacro:SQL ADD UNIQUE(Emial)\ntype Account struct {\n\tId    int64\n\tEmail string\n}\n"
	case "selectkeyunknowncol":
		files[source] = head(dir) + "// gomacro:SQL _SELECT KEY(Emial, Id)\ntype Account struct {\n\tId    int64\n\tEmail string\n}\n"
	case "primarykeyunknowncol":
		files[source] = head(dir) + "type IdAccount int64\n\ntype Account struct {\n\tId    IdAccount\n\tEmail string\n}\n\n// gomacro:SQL ADD PRIMARY KEY (IdAccount, Tagg)\ntype Link struct {\n\tIdAccount IdAccount\n\tTag       string\n}\n"
	case "foreignunknowntable":
		files[source] = head(dir) + "type Account struct {\n\tId    int64\n\tOwner int64 `gomacro-sql-foreign:\"Nobody\" gomacro-sql-on-delete:\"CASCADE\"`\n}\n"
	case "queryunknowncol":
		files[source] = head(dir) + "// gomacro:QUERY SetEmail UPDATE Account SET Emial = $v$ WHERE Idd = $w$\ntype Account struct {\n\tId    int64\n\tEmail string\n}\n"
	case "promotedmember":
		files[source] = head(dir) + "type Shape interface{ isShape() }\n\ntype Base struct{ N int }\n\nfunc (Base) isShape() {}\n\ntype Circle struct {\n\tBase\n\tR float64\n}\n\ntype H struct {\n\tId int64\n\tS  Shape\n}\n"
	// route files whose handlers use types the package level does not declare
	case "handlerlocaltypes", "handleranonjson", "handlermapjson":
		for k, v := range routes.Stubs() {
			files[k] = v
		}
		body := map[string]string{
			"handlerlocaltypes": "\ttype args struct {\n\t\tName string\n\t\tN    int\n\t}\n\ttype response struct {\n\t\tId   int64\n\t\tTags []string\n\t}\n\tvar in args\n\tif err := c.Bind(&in); err != nil {\n\t\treturn err\n\t}\n\tout := response{Id: int64(in.N)}\n\treturn c.JSON(200, out)\n",
			"handleranonjson":   "\tout := struct {\n\t\tOk bool\n\t\tN  int\n\t}{true, 1}\n\treturn c.JSON(200, out)\n",
			"handlermapjson":    "\tout := map[string][]Item{\"a\": nil}\n\treturn c.JSON(200, out)\n",
		}[cs.Form]
		files[source] = "package " + dir + "\n\nimport echo \"verif.test/org/zecho\"\n\ntype Item struct{ V int }\n\ntype ctl struct{}\n\nfunc (ctl) handle(c echo.Context) error {\n" + body + "}\n\nfunc routes(e *echo.Echo, ct ctl) {\n\te.POST(\"/handle\", ct.handle)\n}\n"
	default:
		panic("unknown spelling " + cs.Form)
	}
	return
}
