// Package c18 checks property C18 (refusal, never a crash) — spec/Refusal.tla, TraceOutcome.tla.
package c18

import (
	"encoding/json"
	"fmt"
	"math/rand"
	"os"
	"path/filepath"
	"strings"
	"time"

	"github.com/benoitkugler/gomacro/analysis"
	"golang.org/x/tools/go/packages"

	"verif/harness/internal/absprog"
	"verif/harness/internal/core"
	"verif/harness/internal/gens"
	"verif/harness/internal/synth"
)

type Item struct {
	ID     int               `json:"id"`
	Spec   CaseSpec          `json:"spec"`
	Expect string            `json:"expect"`
	Files  map[string]string `json:"files"`
	Source string            `json:"source"`
}

type PhaseOut struct {
	Phase string `json:"phase"`
	Class string `json:"class"`
	Msg   string `json:"msg"`
}

type itemOut struct {
	Outcomes []PhaseOut `json:"outcomes"`
	Note     string     `json:"note"`
}

type state struct {
	mod  *synth.Module
	pkgs []*packages.Package
	root string
}

func Worker(args []string) {
	core.ItemWorker(args,
		func(items []Item, dir string) (*state, error) {
			mod, err := synth.NewModule(dir)
			if err != nil {
				return nil, err
			}
			var rels []string
			for _, it := range items {
				mod.Write(it.Files)
				rels = append(rels, it.Source)
			}
			pkgs, root, err := mod.Load(rels)
			if err != nil {
				// find the culprit to make the harness error actionable
				for _, it := range items {
					if _, _, e := mod.Load([]string{it.Source}); e != nil {
						return nil, fmt.Errorf("case %d (%v) is not well-typed: %v\n%s", it.ID, it.Spec, e, it.Files[it.Source])
					}
				}
				return nil, err
			}
			return &state{mod: mod, pkgs: pkgs, root: root}, nil
		},
		func(st *state, idx int, it Item) itemOut {
			var out itemOut
			pkg := st.pkgs[idx]
			file := st.mod.Abs(it.Source)
			var ana *analysis.Analysis
			class, msg := synth.Guard(func() { ana = analysis.NewAnalysisFromFile(pkg, file) })
			out.Outcomes = append(out.Outcomes, PhaseOut{Phase: "analysis", Class: class, Msg: msg})
			if class != synth.OutOK {
				return out
			}
			for _, o := range gens.All(pkg, file, ana, st.root) {
				out.Outcomes = append(out.Outcomes, PhaseOut{Phase: o.Target, Class: o.Class, Msg: o.Msg})
			}
			return out
		})
}

func Run(c *core.Ctx, replay string) (*core.Result, error) {
	res := &core.Result{Level: "model_checking"}
	res.Assumptions = []string{
		"a panic whose value is a string or a non-runtime error is gomacro's diagnostic (that is how the code refuses input); a panic carrying a runtime.Error, a process death or a timeout is a crash",
		"every synthesised package is checked to be well-typed by the real loader before it counts",
	}
	var items []Item
	nEnum := 0
	if replay != "" {
		var it Item
		if err := core.LoadReplay(replay, &it); err != nil {
			return nil, err
		}
		items = []Item{it}
	} else {
		ef := filepath.Join(c.Scratch, "export.ndjson")
		t, err := c.RunTLC(core.TLCOpts{Module: "Refusal", Config: "Refusal.cfg", Workers: 1, Env: map[string]string{"VERIF_EXPORT": ef}})
		if err != nil {
			return nil, err
		}
		if t.ErrorKind != "" {
			return nil, core.Inconcl("design-level run of Refusal ended with %s %s\n%s", t.ErrorKind, t.InvViolated, core.Tail(t.Output, 30))
		}
		res.AddTLC(t)
		recs, err := core.ReadNDJSON(ef)
		if err != nil {
			return nil, core.Inconcl("export: %v", err)
		}
		id := 0
		for _, r := range recs {
			id++
			b, _ := json.Marshal(r["case"])
			var cs CaseSpec
			json.Unmarshal(b, &cs)
			files, src := renderCase(id, cs)
			items = append(items, Item{ID: id, Spec: cs, Expect: core.Str(r, "expect"), Files: files, Source: src})
		}
		nEnum = len(items)
		rng := rand.New(rand.NewSource(c.Seed))
		nRand := 40
		if c.Thorough() {
			nRand = 4000
		}
		for k := 0; k < nRand; k++ {
			id++
			o := absprog.Full()
			o.Pointers = rng.Intn(4) == 0
			o.ByteSlices = rng.Intn(2) == 0
			o.AnonUnionContainers = rng.Intn(4) == 0
			o.NStructs = 1 + rng.Intn(5)
			p := absprog.Random(id, rng, o)
			items = append(items, Item{ID: id, Spec: CaseSpec{Kind: "random"}, Files: absprog.Render(p, synth.ModRoot), Source: fmt.Sprintf("p%d/defs.go", id)})
		}
	}
	results, err := core.RunItems(c, "c18", items, 30*time.Second, 40)
	if err != nil {
		return nil, err
	}
	var recs []any
	classes := map[string]int{}
	for i, r := range results {
		it := items[i]
		rec := map[string]any{"case": it.ID, "expect": it.Expect, "outcomes": []PhaseOut{}}
		switch r.Class {
		case "ok":
			var o itemOut
			json.Unmarshal(r.Data, &o)
			rec["outcomes"] = o.Outcomes
			for _, po := range o.Outcomes {
				classes[po.Class]++
			}
		default:
			rec["outcomes"] = []PhaseOut{{Phase: "process", Class: r.Class, Msg: firstLine(r.Log)}}
			classes[r.Class]++
		}
		recs = append(recs, rec)
		if os.Getenv("VERIF_C18_DUMP") != "" {
			b, _ := json.Marshal(rec["outcomes"])
			fmt.Fprintf(os.Stderr, "%v %s\n", it.Spec, b)
		}
		if i%37 == 3 {
			res.Sample(map[string]any{"spec": it.Spec, "source": it.Files[it.Source], "outcomes": rec["outcomes"]})
		}
	}
	bad, err := c.JudgeTrace(res, "TraceOutcome", recs)
	if err != nil {
		return nil, err
	}
	byID := map[int]Item{}
	for _, it := range items {
		byID[it.ID] = it
	}
	for _, v := range bad {
		it := byID[core.Int(v, "case")]
		if d := core.Str(v, "drift"); d != "" {
			res.Drift = append(res.Drift, fmt.Sprintf("case %d %v: %s", it.ID, it.Spec, d))
			continue
		}
		phase, class, why := core.Str(v, "phase"), core.Str(v, "class"), core.Str(v, "why")
		key := fmt.Sprintf("%s crash in %s: %s", class, phase, crashClass(why))
		res.Violations = append(res.Violations, core.Violation{Key: key, What: fmt.Sprintf("%s on %v: %s\n%s", key, it.Spec, why, allFiles(it)), Replay: it})
	}
	res.Evaluations = len(items)
	res.TracesVsImpl = len(items)
	res.Nontrivial = nEnum + (len(items)-nEnum)/1
	res.Rule = fmt.Sprintf("the %d (form x position) and spelling cases enumerated by TLC from Refusal.tla (19 unsupported or borderline forms x 11 positions restricted to well-typed combinations, 17 unusual spellings), each rendered as a well-typed package, plus seeded random full-feature packages; analysis and all 8 generator entry points run in isolated processes; every case is distinct by construction", nEnum)
	res.Extra = map[string]any{"outcome_classes": classes, "enumerated_by_tlc": nEnum}
	return res, nil
}

func firstLine(s string) string {
	for _, l := range strings.Split(s, "\n") {
		if strings.Contains(l, "fatal error") || strings.Contains(l, "panic:") || strings.Contains(l, "stack overflow") {
			return strings.TrimSpace(l)
		}
	}
	if len(s) > 200 {
		return s[:200]
	}
	return s
}

// crashClass normalises a runtime error message into a stable class (addresses and values removed).
func crashClass(msg string) string {
	msg = strings.TrimPrefix(msg, "runtime error: ")
	for _, pre := range []string{"slice bounds out of range", "index out of range", "invalid memory address or nil pointer dereference", "interface conversion", "integer divide by zero"} {
		if strings.Contains(msg, pre) {
			if pre == "interface conversion" {
				f := strings.Fields(msg)
				if len(f) > 8 {
					f = f[:8]
				}
				return strings.Join(f, " ")
			}
			return pre
		}
	}
	f := strings.Fields(msg)
	if len(f) > 6 {
		f = f[:6]
	}
	return strings.Join(f, " ")
}

func allFiles(it Item) string {
	var b strings.Builder
	for _, k := range synth.SortedKeys(it.Files) {
		fmt.Fprintf(&b, "// %s\n%s\n", k, it.Files[k])
	}
	s := b.String()
	if len(s) > 1500 {
		s = s[:1500] + "..."
	}
	return s
}
