// Package c17 checks property C17 (source loading) — spec/Loader*.tla.
package c17

import (
	"encoding/json"
	"fmt"
	"math/rand"
	"os"
	"os/exec"
	"path/filepath"
	"strings"
	"sync"

	"github.com/benoitkugler/gomacro/analysis"

	"verif/harness/internal/core"
)

const modPath = "verif.test/lay"

type lcase struct {
	Case    int        `json:"case"`
	Request [][]string `json:"request"` // directory (components below the module root) of each requested file
	Rel     bool       `json:"rel"`     // hand relative paths to LoadSources
	DupSame bool       `json:"dupsame"` // a repeated directory means the very same file twice
	Kind    string     `json:"kind"`    // "" | missing | nongo | typeerror | deperror
	Spell   []string   `json:"spell,omitempty"` // per file, overriding Rel: abs | rel | dot (./relative)
}

type obs struct {
	Case     int        `json:"case"`
	Expect   string     `json:"expect"` // ok | error
	Kind     string     `json:"kind"`
	Outcome  string     `json:"outcome"` // ok | error | panic
	Msg      string     `json:"msg"`
	Modpath  string     `json:"modpath"`
	Dirs     [][]string `json:"dirs"`
	Reldirs  [][]string `json:"reldirs"`
	Root     []string   `json:"root"`
	RootIsDir bool      `json:"rootIsDir"`
	Pkgs     []string   `json:"pkgs"`
	Contains []bool     `json:"contains"`
}

func comps(abs string) []string {
	out := []string{}
	for _, c := range strings.Split(filepath.ToSlash(abs), "/") {
		if c != "" {
			out = append(out, c)
		}
	}
	return out
}

func pkgName(dir []string) string {
	if len(dir) == 0 {
		return "lay"
	}
	clean := strings.Map(func(r rune) rune {
		if r >= 'a' && r <= 'z' || r >= '0' && r <= '9' {
			return r
		}
		return '_'
	}, dir[len(dir)-1])
	return "p" + clean
}

// runCase materialises the layout and calls the real LoadSources (inside the worker process).
func runCase(lc lcase, base string) (o obs) {
	o = obs{Case: lc.Case, Expect: "ok", Kind: lc.Kind, Modpath: modPath, Dirs: [][]string{}, Reldirs: [][]string{}, Root: []string{}, Pkgs: []string{}, Contains: []bool{}}
	if lc.Kind != "" {
		o.Expect = "error"
	}
	caseDir := filepath.Join(base, fmt.Sprintf("c%d", lc.Case))
	mod := filepath.Join(caseDir, "go", "src", "lay")
	os.MkdirAll(mod, 0o755)
	defer os.RemoveAll(caseDir)
	os.WriteFile(filepath.Join(mod, "go.mod"), []byte("module "+modPath+"\n\ngo 1.23\n"), 0o644)
	var files []string
	perDir := map[string]int{}
	for i, d := range lc.Request {
		dir := filepath.Join(append([]string{mod}, d...)...)
		os.MkdirAll(dir, 0o755)
		key := strings.Join(d, "/")
		perDir[key]++
		n := perDir[key]
		if lc.DupSame {
			n = 1
		}
		name := fmt.Sprintf("f%d.go", n)
		body := fmt.Sprintf("package %s\n\ntype T%d int\n", pkgName(d), n)
		if lc.Kind == "typeerror" && i == len(lc.Request)-1 {
			body += "\nvar broken int = \"not an int\"\n"
		}
		if lc.Kind == "deperror" && i == len(lc.Request)-1 {
			// the file itself is fine, but it imports a package of the module that does not type-check
			body = fmt.Sprintf("package %s\n\nimport \"%s/zdep\"\n\ntype T%d int\n\nvar _ = zdep.Broken\n", pkgName(d), modPath, n)
			os.MkdirAll(filepath.Join(mod, "zdep"), 0o755)
			os.WriteFile(filepath.Join(mod, "zdep", "dep.go"), []byte("package zdep\n\nvar Broken int = \"not an int\"\n"), 0o644)
		}
		path := filepath.Join(dir, name)
		if lc.Kind == "nongo" && i == len(lc.Request)-1 {
			path = filepath.Join(dir, "notes.txt")
			body = "not go\n"
		}
		if !(lc.Kind == "missing" && i == len(lc.Request)-1) {
			os.WriteFile(path, []byte(body), 0o644)
		} else {
			path = filepath.Join(dir, "absent.go")
		}
		o.Dirs = append(o.Dirs, comps(dir))
		rd := d
		if rd == nil {
			rd = []string{}
		}
		o.Reldirs = append(o.Reldirs, rd)
		spell := "abs"
		if lc.Rel {
			spell = "rel"
		}
		if i < len(lc.Spell) && lc.Spell[i] != "" {
			spell = lc.Spell[i]
		}
		switch rel, _ := filepath.Rel(caseDir, path); spell {
		case "rel":
			files = append(files, rel)
		case "dot":
			files = append(files, "./"+rel)
		default:
			files = append(files, path)
		}
	}
	os.Chdir(caseDir)
	defer func() {
		if r := recover(); r != nil {
			o.Outcome, o.Msg = "panic", fmt.Sprint(r)
		}
	}()
	pkgs, root, err := analysis.LoadSources(files)
	if err != nil {
		o.Outcome, o.Msg = "error", err.Error()
		return o
	}
	o.Outcome = "ok"
	o.Root = comps(root)
	if st, err := os.Stat(root); err == nil && st.IsDir() && filepath.IsAbs(root) {
		o.RootIsDir = true
	}
	for i, p := range pkgs {
		abs, _ := filepath.Abs(files[i])
		has := false
		if p != nil {
			o.Pkgs = append(o.Pkgs, p.PkgPath)
			for _, f := range p.GoFiles {
				if f == abs {
					has = true
				}
			}
		} else {
			o.Pkgs = append(o.Pkgs, "<nil>")
		}
		o.Contains = append(o.Contains, has)
	}
	return o
}

// Worker: verif __worker c17 <cases.json> <out.ndjson> <base>
func Worker(args []string) {
	var cases []lcase
	b, _ := os.ReadFile(args[0])
	json.Unmarshal(b, &cases)
	var recs []any
	devnull, _ := os.OpenFile(os.DevNull, os.O_WRONLY, 0)
	os.Stderr = devnull // packages.PrintErrors is noisy on the error cases
	for _, lc := range cases {
		recs = append(recs, runCase(lc, args[2]))
	}
	core.WriteNDJSON(args[1], recs)
}

func Run(c *core.Ctx, replay string) (*core.Result, error) {
	res := &core.Result{Level: "model_checking"}
	res.Assumptions = []string{
		"a package is identified by its import path = module path + directory below the module root",
		"layouts live in a scratch module under <tmp>/.../go/src/lay; directory names come from the spec's Names",
	}
	var cases []lcase
	nEnum := 0
	if replay != "" {
		var lc lcase
		if err := core.LoadReplay(replay, &lc); err != nil {
			return nil, err
		}
		cases = []lcase{lc}
	} else {
		ef := filepath.Join(c.Scratch, "export.ndjson")
		t, err := c.RunTLC(core.TLCOpts{Module: "Loader", Config: "Loader.cfg", Workers: 1, Env: map[string]string{"VERIF_EXPORT": ef}})
		if err != nil {
			return nil, err
		}
		if t.ErrorKind != "" {
			return nil, core.Inconcl("design-level run of Loader ended with %s %s (model-only counterexample)\n%s", t.ErrorKind, t.InvViolated, core.Tail(t.Output, 30))
		}
		res.AddTLC(t)
		recs, err := core.ReadNDJSON(ef)
		if err != nil {
			return nil, core.Inconcl("export: %v", err)
		}
		var all [][][]string
		for _, r := range recs {
			b, _ := json.Marshal(r["request"])
			var req [][]string
			json.Unmarshal(b, &req)
			all = append(all, req)
		}
		nEnum = len(all)
		rng := rand.New(rand.NewSource(c.Seed))
		n := 260
		if c.Thorough() {
			n = 2500
		}
		// requests whose directories are related (prefix / nesting) are the interesting half
		var related [][][]string
		for _, req := range all {
			if len(req) >= 2 {
				first := map[string]bool{}
				for _, d := range req {
					if len(d) > 0 {
						first[d[0][:1]] = true
					}
				}
				if len(first) == 1 {
					related = append(related, req)
				}
			}
		}
		// witnesses that must always be present (Appendix C of DESIGN.md)
		must := [][][]string{
			{{"foo"}, {"foobar"}}, {{"foo1"}, {"foo"}}, {{"foobar", "a"}, {"foo", "a"}}, {{"a", "foo"}, {"a", "foobar"}},
			{{}}, {{"a"}}, {{"a"}, {"a"}}, {{"foo", "foo1"}, {"foo"}}, {{}, {"foo", "a"}}, {{"foobar"}, {"foobar", "foo"}, {"foo"}},
			// names with bytes that sort before the path separator: a sibling sorts between a directory and its sub-directories
			{{"foo"}, {"foo", "bar"}, {"foo-x"}}, {{"api", "v1", "in"}, {"api", "v1.2"}, {"api", "v1"}}, {{"foo", "a"}, {"foo+"}, {"foo"}},
			{{"foo"}, {"foo-x"}}, {{"foo", "a"}, {"foo-x", "a"}}, {{"foo_x"}, {"foo", "y"}, {"foo"}},
		}
		pick := append([][][]string{}, must...)
		for len(pick) < n {
			if len(related) > 0 && rng.Intn(3) != 0 {
				pick = append(pick, related[rng.Intn(len(related))])
			} else {
				pick = append(pick, all[rng.Intn(len(all))])
			}
		}
		for i, req := range pick {
			lc := lcase{Case: i + 1, Request: req, Rel: rng.Intn(3) == 0, DupSame: rng.Intn(2) == 0}
			if i >= len(must) && rng.Intn(6) == 0 {
				lc.Kind = []string{"missing", "nongo", "typeerror", "deperror"}[rng.Intn(4)]
			}
			cases = append(cases, lc)
		}
		// the same file set under mixed path spellings: the answer does not depend on how a path is written
		srng := rand.New(rand.NewSource(c.Seed + 7919))
		spells := []string{"abs", "rel", "dot"}
		mixed := []lcase{
			{Request: [][]string{{"foo"}, {"a"}, {"foo"}}, Spell: []string{"dot", "rel", "rel"}},
			{Request: [][]string{{"foo"}, {"a"}, {"foo"}}, Spell: []string{"abs", "rel", "rel"}},
			{Request: [][]string{{"a", "foo"}, {"a"}, {"foobar"}}, Spell: []string{"rel", "dot", "abs"}},
		}
		for k := 0; k < n/5; k++ {
			req := all[srng.Intn(len(all))]
			if len(req) < 2 {
				continue
			}
			lc := lcase{Request: req, DupSame: srng.Intn(2) == 0}
			for range req {
				lc.Spell = append(lc.Spell, spells[srng.Intn(3)])
			}
			mixed = append(mixed, lc)
		}
		// an erroneous last file that follows a regular file of the SAME directory: what was found for the first must
		// not answer for the second
		for _, kind := range []string{"nongo", "missing", "typeerror"} {
			mixed = append(mixed, lcase{Request: [][]string{{"foo"}, {"foo"}}, Kind: kind}, lcase{Request: [][]string{{"a"}, {"foo", "a"}, {"foo", "a"}}, Kind: kind, Rel: true})
		}
		for _, lc := range mixed {
			lc.Case = len(cases) + 1
			cases = append(cases, lc)
		}
	}
	obsv, err := runCases(c, cases)
	if err != nil {
		return nil, err
	}
	trace := filepath.Join(c.Scratch, "trace.ndjson")
	var recs []any
	for _, o := range obsv {
		recs = append(recs, o)
	}
	core.WriteNDJSON(trace, recs)
	vf := filepath.Join(c.Scratch, "verdicts.ndjson")
	tt, err := c.RunTLC(core.TLCOpts{Module: "TraceLoader", Config: "TraceLoader.cfg", Workers: 1, Env: map[string]string{"VERIF_TRACE": trace, "VERIF_OUT": vf}})
	if err != nil {
		return nil, err
	}
	if err := tt.MustClean("TraceLoader"); err != nil {
		return nil, err
	}
	res.AddTLC(tt)
	vs, err := core.ReadNDJSON(vf)
	if err != nil || len(vs) == 0 || core.Int(vs[0], "consumed") != len(cases) {
		return nil, core.Inconcl("verdict file incomplete (%v)", err)
	}
	byCase := map[int]lcase{}
	for _, lc := range cases {
		byCase[lc.Case] = lc
	}
	for _, v := range vs[1:] {
		lc := byCase[core.Int(v, "case")]
		why := core.Str(v, "why")
		// reproduce once
		again, err := runCases(c, []lcase{lc})
		if err != nil {
			return nil, err
		}
		_ = again
		res.Violations = append(res.Violations, core.Violation{Key: classify(lc, why), What: fmt.Sprintf("%s; request=%v rel=%v spell=%v kind=%q", why, lc.Request, lc.Rel, lc.Spell, lc.Kind), Replay: lc})
	}
	distinct := map[string]bool{}
	for i, lc := range cases {
		k := fmt.Sprint(lc.Request, lc.Rel, lc.DupSame, lc.Kind, lc.Spell)
		if len(lc.Request) > 1 || lc.Kind != "" {
			distinct[k] = true
		}
		if i%211 == 1 {
			res.Sample(obsv[i])
		}
	}
	res.Evaluations = len(cases)
	res.TracesVsImpl = len(cases)
	res.Nontrivial = len(distinct)
	res.Rule = fmt.Sprintf("requests drawn (seeded) from the %d requests TLC enumerated for Loader.cfg (<=3 files in directories of depth<=2 over {foo,foobar,foo-x,a}), plus 16 fixed witnesses (sibling name prefixes, nesting, duplicates, single file), each with random path style (absolute/relative; a fifth more with a spelling per file: absolute, relative, ./relative), duplicate style and, for 1 in 6, an error kind (missing / non-Go / type error); non-trivial = more than one file or an error case", nEnum)
	res.Extra = map[string]any{"enumerated_by_tlc": nEnum}
	return res, nil
}

func classify(lc lcase, why string) string {
	switch {
	case strings.HasPrefix(why, "crash"):
		return "LoadSources crash (" + lc.Kind + ")"
	case strings.Contains(why, "root is not"):
		return "root not a common existing ancestor"
	case strings.Contains(why, "error case"):
		return "error case accepted: " + lc.Kind
	case strings.Contains(why, "refused"):
		return "well-typed files refused"
	}
	return why
}

func runCases(c *core.Ctx, cases []lcase) ([]obs, error) {
	par := c.Workers
	if par > len(cases) {
		par = len(cases)
	}
	chunks := make([][]lcase, par)
	for i, lc := range cases {
		chunks[i%par] = append(chunks[i%par], lc)
	}
	self, _ := os.Executable()
	out := map[int]obs{}
	var mu sync.Mutex
	var wg sync.WaitGroup
	var firstErr error
	for k, ch := range chunks {
		wg.Add(1)
		go func(k int, ch []lcase) {
			defer wg.Done()
			dir, _ := os.MkdirTemp(c.Scratch, "ld-")
			defer os.RemoveAll(dir)
			b, _ := json.Marshal(ch)
			jf, of := filepath.Join(dir, "cases.json"), filepath.Join(dir, "out.ndjson")
			os.WriteFile(jf, b, 0o644)
			cmd := exec.Command(self, "__worker", "c17", jf, of, dir)
			cmd.Env = append(os.Environ(), "GOFLAGS=-mod=mod", "GOPROXY=off", "GOSUMDB=off", "GOTOOLCHAIN=local")
			outb, err := cmd.CombinedOutput()
			mu.Lock()
			defer mu.Unlock()
			if err != nil && firstErr == nil {
				firstErr = core.Inconcl("c17 worker died: %v\n%s", err, core.Tail(string(outb), 20))
				return
			}
			recs, err := core.ReadNDJSON(of)
			if err != nil {
				firstErr = core.Inconcl("c17 worker output: %v", err)
				return
			}
			for _, r := range recs {
				bb, _ := json.Marshal(r)
				var o obs
				json.Unmarshal(bb, &o)
				out[o.Case] = o
			}
		}(k, ch)
	}
	wg.Wait()
	if firstErr != nil {
		return nil, firstErr
	}
	var res []obs
	for _, lc := range cases {
		o, ok := out[lc.Case]
		if !ok {
			return nil, core.Inconcl("no observation for case %d", lc.Case)
		}
		res = append(res, o)
	}
	return res, nil
}
