// Package c11 checks property C11 (union detection) — spec/UnionDef.tla, UnionModel.tla, TraceUnions.tla.
package c11

import (
	"encoding/json"
	"fmt"
	"go/types"
	"math/rand"
	"path/filepath"
	"sort"
	"strings"
	"time"

	"github.com/benoitkugler/gomacro/analysis"

	"verif/harness/internal/core"
	"verif/harness/internal/synth"
	"verif/harness/internal/walk"
)

type AIface struct {
	Key     string   `json:"key"`
	Pkg     string   `json:"pkg"`
	Name    string   `json:"name"`
	Nrank   int      `json:"nrank"`
	Methods []string `json:"methods"`
	// rendering
	InSource bool   `json:"insource"` // declared in the analysed file (top-level reach)
	Reach    string `json:"reach"`    // how Holder refers to it: "", field, slice, mapval, alias, namedslice
}

type AType struct {
	Key      string   `json:"key"`
	Pkg      string   `json:"pkg"`
	Name     string   `json:"name"`
	Nrank    int      `json:"nrank"`
	Kind     string   `json:"kind"`
	Vmethods []string `json:"vmethods"`
	Pmethods []string `json:"pmethods"`
	Decl     string   `json:"decl"` // Go text of the declaration body (rendering)
	NoOwnMethods bool `json:"noown"` // methods are promoted from an embedded struct: none is rendered
	TParams  string   `json:"tparams,omitempty"` // rendering: type parameter list of a generic declaration
}

type UnionObs struct {
	Iface   string   `json:"iface"`
	Outcome string   `json:"outcome"` // union | refused | crash
	Members []string `json:"members"`
}

type StructObs struct {
	Key        string   `json:"key"`
	Implements []string `json:"implements"`
}

type Case struct {
	Case     int               `json:"case"`
	Ifaces   []AIface          `json:"ifaces"`
	Types    []AType           `json:"types"`
	Outcome  string            `json:"outcome"`
	Msg      string            `json:"msg"`
	Unions   []UnionObs        `json:"unions"`
	Analysed []string          `json:"analysed"`
	Structs  []StructObs       `json:"structs"`
	Files    map[string]string `json:"files,omitempty"`
}

type coreT struct {
	Ifaces []AIface `json:"ifaces"`
	Types  []AType  `json:"types"`
}

func pkgPath(i int, sub bool) string {
	p := fmt.Sprintf("%s/u%d", synth.ModRoot, i)
	if sub {
		p += "/sub"
	}
	return p
}

func implements(t AType, i AIface) bool {
	for _, m := range i.Methods {
		ok := false
		for _, v := range t.Vmethods {
			if v == m {
				ok = true
			}
		}
		if !ok {
			return false
		}
	}
	return true
}

func compose(n int, rootCore, subCore coreT, rng *rand.Rand) Case {
	c := Case{Case: n}
	root, sub := pkgPath(n, false), pkgPath(n, true)
	place := func(co coreT, pkg string) {
		for _, i := range co.Ifaces {
			i.Pkg, i.Key = pkg, pkg+"."+i.Name
			if i.Methods == nil {
				i.Methods = []string{}
			}
			c.Ifaces = append(c.Ifaces, i)
		}
		for _, t := range co.Types {
			t.Pkg, t.Key = pkg, pkg+"."+t.Name
			if t.Vmethods == nil {
				t.Vmethods = []string{}
			}
			if t.Pmethods == nil {
				t.Pmethods = []string{}
			}
			switch t.Kind {
			case "struct":
				t.Decl = "struct{ V int }"
			case "basic":
				t.Decl = []string{"int", "string", "float64"}[rng.Intn(3)]
			default:
				t.Decl = "[]int"
			}
			if rng.Intn(4) == 0 && t.Kind != "struct" {
				t.Kind, t.Decl = "slice", "[]string"
			}
			c.Types = append(c.Types, t)
		}
	}
	place(rootCore, root)
	place(subCore, sub)
	// a root type implementing (in Go's sense) interfaces of the sub package: never a member there
	c.Types = append(c.Types, AType{Key: root + ".Cross", Pkg: root, Name: "Cross", Kind: "struct", Decl: "struct{ W string }", Vmethods: []string{"M1"}, Pmethods: []string{}})
	// a struct whose method set comes only from an embedded struct (promoted methods, none of its own)
	for _, t := range c.Types {
		if t.Pkg == root && t.Kind == "struct" && t.Name != "Cross" {
			c.Types = append(c.Types, AType{Key: root + ".Promo", Pkg: root, Name: "Promo", Kind: "struct", Decl: "struct {\n\t" + t.Name + "\n\tExtra int\n}",
				Vmethods: append([]string{}, t.Vmethods...), Pmethods: append([]string{}, t.Pmethods...), NoOwnMethods: true})
			break
		}
	}
	// a generic type is a named type like any other: it is a member under its declared name, and sorts by that name
	// (Cat < CatNap, whereas the printed forms sort "CatNap" before "Cat[T any]")
	for _, t := range c.Types {
		if t.Pkg == root && len(t.Vmethods) > 0 && !t.NoOwnMethods && t.Name != "Cross" {
			g := t.Name + "y"
			c.Types = append(c.Types,
				AType{Key: root + "." + g + "[T any]", Pkg: root, Name: g, Kind: "struct", Decl: "struct{ V int }", TParams: "[T any]", Vmethods: append([]string{}, t.Vmethods...), Pmethods: []string{}},
				AType{Key: root + "." + g + "Nap", Pkg: root, Name: g + "Nap", Kind: "struct", Decl: "struct{ V int }", Vmethods: append([]string{}, t.Vmethods...), Pmethods: []string{}})
			break
		}
	}
	// decide how each expected union is reached from Holder
	isUnion := func(i AIface) bool {
		for _, t := range c.Types {
			if t.Pkg == i.Pkg && implements(t, i) {
				return true
			}
		}
		return false
	}
	// helper types are named types of the root package too (empty method sets)
	helper := func(name, decl, kind string) {
		c.Types = append(c.Types, AType{Key: root + "." + name, Pkg: root, Name: name, Kind: kind, Decl: decl, Vmethods: []string{}, Pmethods: []string{}})
	}
	var fields []string
	for k := range c.Ifaces {
		i := &c.Ifaces[k]
		// an interface without methods is implemented by every named type, Holder included
		local := i.Name
		if i.Pkg == sub {
			local = "sub." + i.Name
		}
		if !isUnion(*i) && !(len(i.Methods) == 0) {
			continue
		}
		reach := []string{"field", "slice", "mapval", "alias", "namedslice", "toplevel", ""}[rng.Intn(7)]
		if i.Pkg == sub && reach == "toplevel" {
			reach = "field"
		}
		i.Reach = reach
		fn := fmt.Sprintf("F%d", k)
		switch reach {
		case "field":
			fields = append(fields, fmt.Sprintf("%s %s", fn, local))
		case "slice":
			fields = append(fields, fmt.Sprintf("%s []%s", fn, local))
		case "mapval":
			fields = append(fields, fmt.Sprintf("%s map[string]%s", fn, local))
		case "alias":
			// aliases are not named types: nothing is added to the abstract type list
			fields = append(fields, fmt.Sprintf("%s Alias%d", fn, k))
		case "namedslice":
			helper(fmt.Sprintf("List%d", k), "[]"+local, "slice")
			fields = append(fields, fmt.Sprintf("%s List%d", fn, k))
		case "toplevel":
			i.InSource = true
		}
	}
	helper("Holder", "struct {\n\t"+strings.Join(fields, "\n\t")+"\n}", "struct")
	// name ranks (Go string order) per package
	for _, pkg := range []string{root, sub} {
		var tn, in []string
		for _, t := range c.Types {
			if t.Pkg == pkg {
				tn = append(tn, t.Name)
			}
		}
		for _, i := range c.Ifaces {
			if i.Pkg == pkg {
				in = append(in, i.Name)
			}
		}
		sort.Strings(tn)
		sort.Strings(in)
		for k := range c.Types {
			if c.Types[k].Pkg == pkg {
				c.Types[k].Nrank = sort.SearchStrings(tn, c.Types[k].Name) + 1
			}
		}
		for k := range c.Ifaces {
			if c.Ifaces[k].Pkg == pkg {
				c.Ifaces[k].Nrank = sort.SearchStrings(in, c.Ifaces[k].Name) + 1
			}
		}
	}
	return c
}

func render(c *Case) map[string]string {
	root, sub := pkgPath(c.Case, false), pkgPath(c.Case, true)
	var defs, ifs, subf strings.Builder
	fmt.Fprintf(&defs, "package u%d\n\nimport %q\n\nvar _ sub.Box\n\n", c.Case, sub)
	fmt.Fprintf(&ifs, "package u%d\n\n", c.Case)
	fmt.Fprintf(&subf, "package sub\n\n")
	ifaceText := func(i AIface) string {
		ms := make([]string, len(i.Methods))
		for k, m := range i.Methods {
			ms[k] = m + "()"
		}
		return fmt.Sprintf("type %s interface{ %s }\n\n", i.Name, strings.Join(ms, "; "))
	}
	for k, i := range c.Ifaces {
		switch {
		case i.Pkg == sub:
			subf.WriteString(ifaceText(i))
		case i.InSource:
			defs.WriteString(ifaceText(i))
		default:
			ifs.WriteString(ifaceText(i))
		}
		if i.Reach == "alias" {
			local := i.Name
			if i.Pkg == sub {
				local = "sub." + i.Name
			}
			fmt.Fprintf(&defs, "type Alias%d = %s\n\n", k, local)
		}
	}
	for k, t := range c.Types {
		w := &defs
		if t.Pkg == sub {
			w = &subf
		}
		fmt.Fprintf(w, "type %s%s %s\n\n", t.Name, t.TParams, t.Decl)
		if (c.Case+k)%3 == 0 && t.TParams == "" {
			// an alias of a (possible) member type is not a type of its own: the member list must not change
			fmt.Fprintf(w, "type %s%d = %s\n\n", []string{"Aa", "Zz"}[(c.Case/3)%2], k, t.Name)
		}
		if t.NoOwnMethods {
			continue
		}
		recv := t.Name
		if t.TParams != "" {
			recv += "[T]"
		}
		for _, m := range t.Vmethods {
			fmt.Fprintf(w, "func (%s) %s() {}\n", recv, m)
		}
		for _, m := range t.Pmethods {
			fmt.Fprintf(w, "func (*%s) %s() {}\n", t.Name, m)
		}
		w.WriteString("\n")
	}
	_ = root
	d := fmt.Sprintf("u%d/", c.Case)
	return map[string]string{d + "defs.go": defs.String(), d + "ifaces.go": ifs.String(), d + "sub/sub.go": subf.String()}
}

type workIn struct {
	Cases []Case `json:"cases"`
}

func Worker(args []string) {
	core.WorkerIO(args, func(in workIn, dir string) workIn {
		mod, err := synth.NewModule(dir)
		if err != nil {
			panic(err)
		}
		var rels []string
		for i := range in.Cases {
			files := render(&in.Cases[i])
			in.Cases[i].Files = files
			mod.Write(files)
			rels = append(rels, fmt.Sprintf("u%d/defs.go", in.Cases[i].Case))
		}
		pkgs, _, err := mod.Load(rels)
		if err != nil {
			for i := range in.Cases {
				in.Cases[i].Outcome, in.Cases[i].Msg = "harness", "load failed: "+err.Error()
			}
			return in
		}
		for i := range in.Cases {
			c := &in.Cases[i]
			pkg := pkgs[i]
			subPkg := pkg.Imports[pkgPath(c.Case, true)]
			scopeOf := func(p string) *types.Scope {
				if p == pkg.PkgPath {
					return pkg.Types.Scope()
				}
				return subPkg.Types.Scope()
			}
			// self-check: declared method sets as go/types sees them
			for _, t := range c.Types {
				obj := scopeOf(t.Pkg).Lookup(t.Name)
				if obj == nil {
					c.Outcome, c.Msg = "harness", "type not rendered: "+t.Key
					break
				}
				ms := types.NewMethodSet(obj.Type())
				if ms.Len() != len(t.Vmethods) {
					c.Outcome, c.Msg = "harness", fmt.Sprintf("method set of %s has %d methods, abstract says %d", t.Key, ms.Len(), len(t.Vmethods))
					break
				}
			}
			if c.Outcome != "" {
				continue
			}
			c.Unions, c.Structs, c.Analysed = []UnionObs{}, []StructObs{}, []string{}
			// every interface analysed on its own
			for _, itf := range c.Ifaces {
				named := scopeOf(itf.Pkg).Lookup(itf.Name).Type()
				o := UnionObs{Iface: itf.Key, Members: []string{}}
				var ana *analysis.Analysis
				class, _ := synth.Guard(func() { ana = analysis.NewAnalysisFromTypes(pkg, []types.Type{named}) })
				switch class {
				case synth.OutOK:
					if u, ok := ana.Types[named].(*analysis.Union); ok {
						o.Outcome = "union"
						for _, m := range u.Members {
							o.Members = append(o.Members, walk.Key(m.Type()))
						}
					} else {
						o.Outcome = "refused"
					}
				case synth.OutDiag:
					o.Outcome = "refused"
				default:
					o.Outcome = "crash"
				}
				c.Unions = append(c.Unions, o)
			}
			// the source file as a whole
			var ana *analysis.Analysis
			class, msg := synth.Guard(func() { ana = analysis.NewAnalysisFromFile(pkg, mod.Abs(rels[i])) })
			c.Outcome, c.Msg = class, msg
			if class != synth.OutOK {
				continue
			}
			for ty, n := range ana.Types {
				if _, ok := n.(*analysis.Union); ok {
					if _, isNamed := ty.(*types.Named); isNamed {
						c.Analysed = append(c.Analysed, walk.Key(ty))
					}
				}
			}
			sort.Strings(c.Analysed)
			walk.All(ana, func(n analysis.Type) {
				if st, ok := n.(*analysis.Struct); ok {
					so := StructObs{Key: walk.Key(st.Name), Implements: []string{}}
					for _, u := range st.Implements {
						so.Implements = append(so.Implements, walk.Key(u.Type()))
					}
					c.Structs = append(c.Structs, so)
				}
			})
			sort.Slice(c.Structs, func(a, b int) bool { return c.Structs[a].Key < c.Structs[b].Key })
		}
		return in
	})
}

func Run(c *core.Ctx, replay string) (*core.Result, error) {
	res := &core.Result{Level: "model_checking"}
	res.Assumptions = []string{
		"the method set of a named type T is the set of its value-receiver methods (go/types); the synthesiser's rendering of method sets is re-checked against go/types on every run",
		"a non-union interface cannot be observed inside a whole-file analysis (the analysis refuses such files), so each interface is also analysed on its own",
	}
	var cases []Case
	nCore := 0
	if replay != "" {
		var cs Case
		if err := core.LoadReplay(replay, &cs); err != nil {
			return nil, err
		}
		cs.Outcome, cs.Msg, cs.Unions, cs.Structs, cs.Analysed = "", "", nil, nil, nil
		cases = []Case{cs}
	} else {
		cfg := "UnionModel_quick.cfg"
		if c.Thorough() {
			cfg = "UnionModel_thorough.cfg"
		}
		ef := filepath.Join(c.Scratch, "export.ndjson")
		t, err := c.RunTLC(core.TLCOpts{Module: "UnionModel", Config: cfg, Workers: 1, HeapGB: 8, Env: map[string]string{"VERIF_EXPORT": ef}})
		if err != nil {
			return nil, err
		}
		if t.ErrorKind != "" {
			return nil, core.Inconcl("design-level run of UnionModel ended with %s %s (model-only counterexample)\n%s", t.ErrorKind, t.InvViolated, core.Tail(t.Output, 30))
		}
		res.AddTLC(t)
		recs, err := core.ReadNDJSON(ef)
		if err != nil {
			return nil, core.Inconcl("export: %v", err)
		}
		var cores []coreT
		for _, r := range recs {
			b, _ := json.Marshal(r)
			var co coreT
			json.Unmarshal(b, &co)
			cores = append(cores, co)
		}
		nCore = len(cores)
		rng := rand.New(rand.NewSource(c.Seed))
		limit := 450
		if c.Thorough() {
			limit = len(cores)
		}
		perm := rng.Perm(len(cores))
		for k := 0; k < limit && k < len(cores); k++ {
			cases = append(cases, compose(k+1, cores[perm[k]], cores[rng.Intn(len(cores))], rng))
		}
	}
	obs, err := runCases(c, cases)
	if err != nil {
		return nil, err
	}
	var recs []any
	byCase := map[int]Case{}
	distinct := map[string]bool{}
	for i, o := range obs {
		if o.Outcome == "harness" {
			return nil, core.Inconcl("case %d: %s", o.Case, o.Msg)
		}
		files := o.Files
		o.Files = nil
		recs = append(recs, o)
		o.Files = files
		byCase[o.Case] = o
		distinct[fmt.Sprint(o.Ifaces, o.Types)] = true
		if i%131 == 5 {
			res.Sample(map[string]any{"case": o.Case, "source": files, "unions": o.Unions, "structs": o.Structs})
		}
	}
	bad, err := c.JudgeTrace(res, "TraceUnions", recs)
	if err != nil {
		return nil, err
	}
	for _, v := range bad {
		cs := byCase[core.Int(v, "case")]
		why := core.Str(v, "why")
		key := why
		if strings.HasPrefix(why, "analysis of the source file did not complete") {
			f := strings.Fields(cs.Msg)
			if len(f) > 6 {
				f = f[:6]
			}
			key = "analysis did not complete: " + strings.Join(f, " ")
		}
		var src []string
		for _, k := range synth.SortedKeys(cs.Files) {
			src = append(src, "// "+k+"\n"+cs.Files[k])
		}
		cs.Unions, cs.Structs, cs.Analysed = nil, nil, nil
		res.Violations = append(res.Violations, core.Violation{Key: key, What: fmt.Sprintf("%s (on %s)\n%s", why, core.Str(v, "on"), strings.Join(src, "\n")), Replay: cs})
	}
	res.Evaluations = len(cases)
	res.TracesVsImpl = len(cases)
	res.Nontrivial = len(distinct)
	res.Rule = fmt.Sprintf("package trees built around cores enumerated by TLC (%d cores: 2 interfaces x required marker methods, 2-3 types x {no, value, pointer} receiver per method; quick samples 450, thorough takes all), each with the same local names in a sub-package (another core), a cross-package implementer, and unions reached as field / []U / map value / alias / named slice / top-level only / not at all; distinct = distinct abstract (interfaces, types)", nCore)
	return res, nil
}

func runCases(c *core.Ctx, cases []Case) ([]Case, error) {
	const chunk = 120
	var parts [][]Case
	for i := 0; i < len(cases); i += chunk {
		j := i + chunk
		if j > len(cases) {
			j = len(cases)
		}
		parts = append(parts, cases[i:j])
	}
	type part struct {
		out workIn
		err error
		log string
	}
	results := make([]part, len(parts))
	sem := make(chan bool, c.Workers)
	done := make(chan int)
	for k := range parts {
		go func(k int) {
			sem <- true
			defer func() { <-sem; done <- k }()
			var out workIn
			log, err := c.RunSelfWorker("c11", workIn{Cases: parts[k]}, &out, 5*time.Minute)
			results[k] = part{out: out, err: err, log: log}
		}(k)
	}
	for range parts {
		<-done
	}
	var all []Case
	for _, p := range results {
		if p.err != nil {
			return nil, core.Inconcl("c11 worker: %v\n%s", p.err, core.Tail(p.log, 15))
		}
		all = append(all, p.out.Cases...)
	}
	return all, nil
}
