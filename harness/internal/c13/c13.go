// Package c13 checks property C13 (HTTP route extraction) — spec/HttpApi*.tla, TraceHttp.tla.
package c13

import (
	"fmt"
	"math/rand"
	"path/filepath"
	"strings"
	"time"

	"github.com/benoitkugler/gomacro/analysis/httpapi"

	"verif/harness/internal/core"
	"verif/harness/internal/routes"
	"verif/harness/internal/synth"
)

type Case struct {
	Case      int               `json:"case"`
	Regs      []routes.Reg      `json:"regs"`
	Prefix    string            `json:"prefix"`
	Outcome   string            `json:"outcome"`
	Endpoints []routes.Endpoint `json:"endpoints"`
	Source    string            `json:"source,omitempty"`
	Note      string            `json:"note,omitempty"`
}

type workIn struct {
	Cases []Case `json:"cases"`
}

// LoadDims runs the design-level check of HttpApiModel and returns the exported dimensions.
func LoadDims(c *core.Ctx, res *core.Result) (*routes.Dims, error) {
	ef := filepath.Join(c.Scratch, "http-export.ndjson")
	t, err := c.RunTLC(core.TLCOpts{Module: "HttpApiModel", Config: "HttpApiModel.cfg", Workers: 4, Env: map[string]string{"VERIF_EXPORT": ef}})
	if err != nil {
		return nil, err
	}
	if t.ErrorKind != "" {
		return nil, core.Inconcl("design-level run of HttpApiModel ended with %s %s\n%s", t.ErrorKind, t.InvViolated, core.Tail(t.Output, 20))
	}
	res.AddTLC(t)
	recs, err := core.ReadNDJSON(ef)
	if err != nil || len(recs) != 1 {
		return nil, core.Inconcl("export: %v", err)
	}
	d, err := routes.ParseDims(recs[0])
	if err != nil {
		return nil, core.Inconcl("export: %v", err)
	}
	return d, nil
}

func Worker(args []string) {
	core.WorkerIO(args, func(in workIn, dir string) workIn {
		mod, err := synth.NewModule(dir)
		if err != nil {
			panic(err)
		}
		mod.Write(routes.Stubs())
		var rels []string
		for i := range in.Cases {
			files, src := routes.Render(in.Cases[i].Case, in.Cases[i].Regs)
			mod.Write(files)
			in.Cases[i].Source = files[src]
			rels = append(rels, src)
		}
		pkgs, _, err := mod.Load(rels)
		for i := range in.Cases {
			c := &in.Cases[i]
			c.Endpoints = []routes.Endpoint{}
			if err != nil {
				c.Note = "load failed: " + err.Error()
				continue
			}
			var api []httpapi.Endpoint
			class, msg := synth.Guard(func() { api = httpapi.ParseEcho(pkgs[i], mod.Abs(rels[i]), c.Prefix) })
			if class != synth.OutOK {
				c.Outcome = class + ": " + msg
				continue
			}
			c.Outcome = "ok"
			c.Endpoints = routes.Project(api, routes.PkgPath(c.Case))
		}
		return in
	})
}

func Run(c *core.Ctx, replay string) (*core.Result, error) {
	res := &core.Result{Level: "model_checking"}
	res.Assumptions = []string{
		"handler bodies use the idioms the extractor documents (assignments from Bind / QueryParam / helpers / FormValue / FormFile / FormValueJSON, return of JSON / JSONPretty / Blob)",
		"types are compared as go/types strings with the package path of the route file replaced by PKG",
	}
	dims, err := LoadDims(c, res)
	if err != nil {
		return nil, err
	}
	var cases []Case
	if replay != "" {
		var cs Case
		if err := core.LoadReplay(replay, &cs); err != nil {
			return nil, err
		}
		cases = []Case{{Case: 1, Regs: cs.Regs, Prefix: cs.Prefix}}
	} else {
		rng := rand.New(rand.NewSource(c.Seed))
		n := 120
		if c.Thorough() {
			n = 2500
		}
		prefixes := []string{"", "", "/pkg_const", "/imported", "/nothing-matches", "/"}
		for k := 0; k < n; k++ {
			cases = append(cases, Case{Case: k + 1, Regs: dims.RandomFile(rng, 1+rng.Intn(6), false), Prefix: prefixes[rng.Intn(len(prefixes))]})
		}
		// two handlers sharing their short name (the imported TopLevel and a local one), in both orders
		mk := func(handler, input, ret string, query []string) routes.Reg {
			return routes.Reg{Verb: "POST", Path: []string{"lit:/" + handler}, Handler: handler, Input: input, Query: query, Form: routes.Form{Values: []string{}}, Ret: ret}
		}
		for _, regs := range [][]routes.Reg{
			{mk("importedfunc", "none", "none", []string{}), mk("localtwin", "struct", "json", []string{"plain:q"})},
			{mk("localtwin", "slice", "pretty", []string{"int64:n"}), mk("importedfunc", "none", "none", []string{}), mk("importedmethod", "none", "none", []string{})},
		} {
			cases = append(cases, Case{Case: len(cases) + 1, Regs: regs, Prefix: ""})
		}
	}
	var out workIn
	const chunk = 150
	for i := 0; i < len(cases); i += chunk {
		j := i + chunk
		if j > len(cases) {
			j = len(cases)
		}
		var part workIn
		log, err := c.RunSelfWorker("c13", workIn{Cases: cases[i:j]}, &part, 10*time.Minute)
		if err != nil {
			return nil, core.Inconcl("c13 worker: %v\n%s", err, core.Tail(log, 20))
		}
		out.Cases = append(out.Cases, part.Cases...)
	}
	var recs []any
	byCase := map[int]Case{}
	nRegs := 0
	for i, cs := range out.Cases {
		if cs.Note != "" {
			return nil, core.Inconcl("case %d: %s\n%s", cs.Case, cs.Note, cs.Source)
		}
		byCase[cs.Case] = cs
		slim := cs
		slim.Source = ""
		recs = append(recs, slim)
		nRegs += len(cs.Regs)
		if i%41 == 2 {
			res.Sample(map[string]any{"source": cs.Source, "prefix": cs.Prefix, "endpoints": cs.Endpoints})
		}
	}
	bad, err := c.JudgeTrace(res, "TraceHttp", recs)
	if err != nil {
		return nil, err
	}
	for _, v := range bad {
		cs := byCase[core.Int(v, "case")]
		why := core.Str(v, "why")
		key := why
		if i := strings.Index(why, ": "); i > 0 {
			key = why[i+2:]
			if strings.HasPrefix(why, "extraction did not complete") {
				key = "extraction did not complete: " + firstWords(key, 8)
			}
		}
		if j := strings.Index(key, " ("); j > 0 {
			key = key[:j]
		}
		for _, cut := range []string{"handler name", "bound input type", "return type / blob flag", "JSON form field"} {
			if strings.HasPrefix(key, cut) {
				key = cut + " differs"
			}
		}
		res.Violations = append(res.Violations, core.Violation{Key: key, What: fmt.Sprintf("%s (prefix %q)\nobserved %+v\n%s", why, cs.Prefix, cs.Endpoints, cs.Source), Replay: Case{Regs: cs.Regs, Prefix: cs.Prefix}})
	}
	res.Evaluations = nRegs
	res.TracesVsImpl = len(cases)
	res.Nontrivial = len(cases)
	res.Rule = "route files of 1-6 registrations drawn (seeded) from the dimension sets exported by TLC from HttpApiModel.tla (5 verbs incl. a non-verb two-argument method, 8 path expression forms over literals / local / package / imported constants / concatenations, 6 handler forms, 5 input forms, 7 query parameter lists incl. typed and generic helpers, 6 form shapes, 5 return forms) x 6 prefix filters; evaluations = registrations; every file is distinct with overwhelming probability"
	return res, nil
}

func firstWords(s string, n int) string {
	f := strings.Fields(s)
	if len(f) > n {
		f = f[:n]
	}
	return strings.Join(f, " ")
}
