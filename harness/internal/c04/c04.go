// Package c04 checks property C04 (generated Postgres JSON validators) — spec/PgSem.tla, TracePg.tla.
package c04

import (
	"encoding/json"
	"fmt"
	"math/rand"
	"regexp"
	"strings"
	"time"

	"verif/harness/internal/absprog"
	"verif/harness/internal/c02"
	"verif/harness/internal/core"
	"verif/harness/internal/gens"
	"verif/harness/internal/proj"
	"verif/harness/internal/synth"
	"verif/harness/internal/wire"
)

var progName = regexp.MustCompile(`_p\d+_`)

const bytesKey = "[]byte column content is validated as a number array but Go writes a base64 string"

type replayCase struct {
	Prog absprog.Prog `json:"prog"`
	Type string       `json:"type"`
	Seed int64        `json:"seed"`
}

// Twice records the (program, type) pairs that are the type of two columns (C<type> and D<type>).
var Twice = map[string]bool{}

// addTable appends a table struct with one column per top-level value type of the program.
func addTable(p *absprog.Prog) {
	row := absprog.Decl{K: "struct", Name: "Row", Fields: []absprog.Field{{Name: "Id", Type: absprog.Basic("int64")}}}
	twice := 0
	for _, d := range p.Decls {
		if d.Pkg != "" || d.File != "" || d.Name == "Row" {
			continue
		}
		if d.K == "struct" || d.K == "named" {
			row.Fields = append(row.Fields, absprog.Field{Name: "C" + d.Name, Type: absprog.Ref("", d.Name)})
			// some types twice in the table: every jsonb column needs its own CHECK
			if twice < 4 && (d.K == "struct" || d.Name == "Flags" || d.Name == "Shapes") {
				twice++
				row.Fields = append(row.Fields, absprog.Field{Name: "D" + d.Name, Type: absprog.Ref("", d.Name)})
				Twice[fmt.Sprint(p.ID, d.Name)] = true
			}
		}
	}
	p.Decls = append(p.Decls, row)
}

func Run(c *core.Ctx, replay string) (*core.Result, error) {
	res := &core.Result{Level: "model_checking"}
	res.Assumptions = []string{
		"PostgreSQL is not installed: its semantics for the validator fragment is the TLA+ interpreter PgSem.tla (three-valued logic, jsonb operators, bool_and, PL/pgSQL control flow); AND / OR evaluate left to right with short circuit",
		"a corrupted document on which the CHECK raises an error instead of evaluating to false counts as rejected (the row cannot be stored either way)",
	}
	nProg, nVals, nCorr := 6, 10, 2
	if c.Thorough() {
		nProg, nVals, nCorr = 40, 40, 4
	}
	var progs []*absprog.Prog
	seed := c.Seed
	witness := -1
	if replay != "" {
		var rc replayCase
		if err := core.LoadReplay(replay, &rc); err != nil {
			return nil, err
		}
		progs = []*absprog.Prog{&rc.Prog}
		seed = rc.Seed
	} else {
		progs = c02.Programs(c.Seed, nProg, func(o *absprog.Opts, rng *rand.Rand) { o.NoNamedRec = true; o.MixedArrays = true; o.OddEnumValues = true; o.OmitEmpty = true })
		for _, p := range progs {
			addTable(p)
		}
		w := &absprog.Prog{ID: len(progs) + 1, Decls: []absprog.Decl{
			{K: "struct", Name: "Blob", Fields: []absprog.Field{{Name: "Raw", Type: absprog.Slice(absprog.Basic("byte"))}, {Name: "Name", Type: absprog.Basic("string")}}},
		}}
		addTable(w)
		progs = append(progs, w)
		witness = w.ID
		// a column that reaches union members BEFORE their unions, in a package of its own (whatever else the
		// random packages declare, and in whatever order their columns come)
		ns := absprog.Slice(absprog.Basic("string"))
		w2 := &absprog.Prog{ID: len(progs) + 1, Decls: []absprog.Decl{
			{K: "iface", Name: "Shape", IMethods: []string{"isShape"}},
			{K: "iface", Name: "Thing", IMethods: []string{"isThing"}},
			{K: "struct", Name: "Circle", Fields: []absprog.Field{{Name: "R", Type: absprog.Basic("float64")}}, Methods: []absprog.Method{{Name: "isShape"}}},
			{K: "struct", Name: "Rect", Fields: []absprog.Field{{Name: "W", Type: absprog.Basic("int")}, {Name: "H", Type: absprog.Basic("int"), Tag: `json:"h"`}}, Methods: []absprog.Method{{Name: "isShape"}, {Name: "isThing"}}},
			{K: "named", Name: "Words", Under: &ns, Methods: []absprog.Method{{Name: "isThing"}}},
			{K: "struct", Name: "MemberFirst", Fields: []absprog.Field{{Name: "First", Type: absprog.Ref("", "Circle")}, {Name: "Both", Type: absprog.Ref("", "Rect")}, {Name: "Then", Type: absprog.Ref("", "Shape")}, {Name: "Last", Type: absprog.Ref("", "Thing")}}},
		}}
		addTable(w2)
		progs = append(progs, w2)
	}
	s, err := wire.Prepare(c.Sub("wire"), progs, false)
	if err != nil {
		return nil, core.Inconcl("%v", err)
	}
	rng := rand.New(rand.NewSource(seed + 7))
	var recs []any
	type ref struct {
		prog *absprog.Prog
		typ  string
	}
	refs := map[int]ref{}
	id, skipped, notReenc := 0, 0, 0
	byClass := map[string]int{}
	distinct := map[string]bool{}
	for i, pb := range s.Progs {
		if pb.Skipped != "" {
			skipped++
			res.Drift = append(res.Drift, fmt.Sprintf("program %d left out: %s", pb.Prog.ID, pb.Skipped))
			continue
		}
		sq := gens.Run("sql", s.Pkgs[i], s.Mod.Abs(fmt.Sprintf("p%d/defs.go", pb.Prog.ID)), s.Anas[i], s.Root)
		if sq.Class != synth.OutOK {
			res.Drift = append(res.Drift, fmt.Sprintf("program %d: sql generator %s: %s", pb.Prog.ID, sq.Class, sq.Msg))
			continue
		}
		id++
		rec := map[string]any{"ev": "script", "case": id, "prog": pb.Prog.ID, "syntax": "", "funcs": []any{}, "checks": []any{}}
		script, perr := proj.ParsePgScript(sq.Text)
		if perr != nil && strings.Contains(perr.Error(), "unterminated string") {
			// not a limit of the parser: the script is not lexically valid SQL (judged by TracePg)
			rec["syntax"] = "unterminated string"
			recs = append(recs, rec)
			refs[id] = ref{pb.Prog, ""}
			continue
		}
		if perr != nil {
			return nil, core.Inconcl("program %d: SQL output not understood by the PL/pgSQL parser: %v", pb.Prog.ID, perr)
		}
		rec["funcs"], rec["checks"] = script.Funcs, script.Checks
		recs = append(recs, rec)
		refs[id] = ref{pb.Prog, ""}
		hasCheck := map[string]bool{}
		seenTwin := map[string]int{}
		for _, ck := range script.Checks {
			hasCheck[ck.Table+"."+ck.Col] = true
		}
		if i == 0 {
			res.Sample(map[string]any{"checks_of_program_1": script.Checks, "functions": len(script.Funcs)})
		}
		out, died, err := s.RunProg(pb.Prog.ID, seed, nVals, 0, nil, 2*time.Minute)
		if err != nil || died != "" {
			return nil, core.Inconcl("wire binary on program %d: %v %s", pb.Prog.ID, err, died)
		}
		for _, r := range out {
			if r["ev"] != "value" || fmt.Sprint(r["err"]) != "" || r["type"] == "Row" {
				continue
			}
			typ := r["type"].(string)
			col := "C" + typ
			twin := "D" + typ
			isTwice := Twice[fmt.Sprint(pb.Prog.ID, typ)]
			if !hasCheck["rows."+col] && !(isTwice && hasCheck["rows."+twin]) {
				continue // not a jsonb column (C08 decides which columns are)
			}
			if isTwice && seenTwin[fmt.Sprint(pb.Prog.ID, typ)] < 3 {
				// the second column of the same type is judged on a few emitted documents (a missing CHECK is reported by TracePg)
				seenTwin[fmt.Sprint(pb.Prog.ID, typ)]++
				id++
				recs = append(recs, map[string]any{"ev": "doc", "case": id, "table": "rows", "col": twin, "expect": "pass", "corruption": "", "doc": r["doc"]})
				refs[id] = ref{pb.Prog, typ}
			}
			id++
			recs = append(recs, map[string]any{"ev": "doc", "case": id, "table": "rows", "col": col, "expect": "pass", "corruption": "", "doc": r["doc"]})
			refs[id] = ref{pb.Prog, typ}
			bb, _ := json.Marshal(r["doc"])
			distinct[fmt.Sprint(pb.Prog.ID, typ, string(bb))] = true
			tree, _ := r["tree"].(map[string]any)
			doc, _ := r["doc"].(map[string]any)
			cors, ok := corruptions(tree, doc, rng, nCorr)
			if !ok {
				notReenc++
				continue
			}
			for _, co := range cors {
				id++
				recs = append(recs, map[string]any{"ev": "doc", "case": id, "table": "rows", "col": col, "expect": "reject", "corruption": co["class"].(string) + ": " + co["what"].(string), "doc": co["doc"]})
				refs[id] = ref{pb.Prog, typ}
				byClass[co["class"].(string)]++
				cb, _ := json.Marshal(co["doc"])
				distinct[fmt.Sprint(pb.Prog.ID, typ, string(cb))] = true
				if id%401 == 7 {
					res.Sample(map[string]any{"type": typ, "corruption": co["what"], "doc": co["doc"]})
				}
			}
		}
	}
	bad, err := c.JudgeTrace(res, "TracePg", recs)
	if err != nil {
		return nil, err
	}
	for _, v := range bad {
		rf := refs[core.Int(v, "case")]
		why := core.Str(v, "why")
		key := why
		switch {
		case strings.Contains(why, "does not admit a document Go emits"):
			key = "CHECK does not admit a document Go emits"
			if i := strings.Index(why, "("); i > 0 {
				key += " " + progName.ReplaceAllString(firstWords(why[i:], 4), "_pN_")
			}
			if rf.prog.ID == witness {
				key = bytesKey
			}
		case strings.Contains(why, "admits a corrupted document"):
			rec := recs[core.Int(v, "case")-1].(map[string]any)
			key = "CHECK admits a corrupted document: " + strings.SplitN(rec["corruption"].(string), ":", 2)[0]
		case strings.HasPrefix(why, "a validation function is called but not defined"):
			key = "validation function called but not defined"
		}
		rec := recs[core.Int(v, "case")-1].(map[string]any)
		db, _ := json.Marshal(rec["doc"])
		res.Violations = append(res.Violations, core.Violation{Key: key, What: fmt.Sprintf("%s; column type %s of program %d; document (tagged) %.500s", why, rf.typ, rf.prog.ID, db),
			Replay: replayCase{Prog: *rf.prog, Type: rf.typ, Seed: seed}})
	}
	res.Evaluations = len(recs)
	res.TracesVsImpl = len(recs)
	res.Nontrivial = len(distinct)
	// coverage guard: a generator refusing (or breaking on) most packages would silently empty the check
	if replay == "" && skipped*3 > len(progs) {
		return nil, core.Inconcl("%d of %d packages were left out (generator refusal or generated code that does not compile): the check no longer covers its universe", skipped, len(progs))
	}
	res.Rule = fmt.Sprintf("%d seeded random packages (+1 witness of the []byte finding), each with a table struct holding one column per top-level type; the real SQL output is parsed (validation functions, CHECK constraints) and, for every jsonb column, TLC evaluates the CHECK under PgSem on the documents marshalled from %d reflection-built values of the column's Go type and on up to %d single-point corruptions per class (unknown key, wrong JSON kind, unknown Kind, non-member enum value, wrong fixed-array length); distinct = distinct (column type, document)", len(progs)-1-skipped, nVals, nCorr)
	res.Extra = map[string]any{"corruptions_by_class": byClass, "programs_left_out": skipped, "values_not_reencodable_by_the_corruptor": notReenc}
	return res, nil
}

func firstWords(s string, n int) string {
	f := strings.Fields(s)
	if len(f) > n {
		f = f[:n]
	}
	return strings.Join(f, " ")
}
