package c04

import (
	"fmt"
	"math/rand"
	"reflect"
	"strconv"
)

type M = map[string]any

func str(s string) M     { return M{"t": "str", "v": s} }
func num(l string) M     { return M{"t": "num", "int": true, "lit": l} }
func asM(x any) M        { m, _ := x.(map[string]any); return m }
func asList(x any) []any { l, _ := x.([]any); return l }
func b(x any) bool       { v, _ := x.(bool); return v }
func s(x any) string     { v, _ := x.(string); return v }

// site is a node of the value tree that is visible on the wire, numbered in encoding order.
type corruptor struct {
	rng    *rand.Rand
	class  string
	target int // index of the site to corrupt (-1: none, count only)
	count  int
	done   string
}

func (c *corruptor) hit() bool {
	c.count++
	return c.count-1 == c.target
}

// enc re-encodes a value tree (the Go twin of Enc in spec/WireJSON.tla, used only to build corrupted
// documents) and applies one corruption of the chosen class at the chosen site.
func (c *corruptor) enc(tr M) M {
	switch tr["k"] {
	case "struct":
		kv := c.fields(asList(tr["fields"]))
		d := M{"t": "obj", "kv": kv}
		if c.class == "unknownkey" && c.hit() {
			d["kv"] = append(kv, []any{"zz_unknown_key", num("1")})
			c.done = "unknown object key in " + s(tr["type"])
		}
		if c.class == "wrongkind" && c.hit() {
			c.done = "number where the struct " + s(tr["type"]) + " is expected"
			return num("5")
		}
		return d
	case "union":
		if c.class == "wrongkind" && c.hit() {
			c.done = "string where the union " + s(tr["iface"]) + " is expected"
			return str("x")
		}
		kind := s(tr["dyn"])
		if c.class == "unknownkind" && c.hit() {
			kind = "NoSuchMember"
			c.done = "unknown Kind in " + s(tr["iface"])
		}
		return M{"t": "obj", "kv": []any{[]any{"Kind", str(kind)}, []any{"Data", c.enc(asM(tr["v"]))}}}
	case "int":
		if c.class == "wrongkind" && c.hit() {
			c.done = "string where a number is expected"
			return str("x")
		}
		return num(s(tr["lit"]))
	case "float":
		if c.class == "wrongkind" && c.hit() {
			c.done = "string where a number is expected"
			return str("x")
		}
		return M{"t": "num", "int": b(tr["intlit"]), "lit": s(tr["lit"])}
	case "bool":
		if c.class == "wrongkind" && c.hit() {
			c.done = "string where a boolean is expected"
			return str("x")
		}
		return M{"t": "bool", "v": b(tr["v"])}
	case "string", "time":
		if c.class == "wrongkind" && c.hit() {
			c.done = "number where a string is expected"
			return num("5")
		}
		return str(s(tr["v"]))
	case "enum":
		if s(tr["base"]) == "str" {
			if c.class == "wrongkind" && c.hit() {
				c.done = "number where the string enum " + s(tr["type"]) + " is expected"
				return num("5")
			}
			if c.class == "nonmember" && c.hit() {
				c.done = "non-member value of " + s(tr["type"])
				return str("zz_not_a_member")
			}
			return str(s(tr["lit"]))
		}
		if c.class == "wrongkind" && c.hit() {
			c.done = "string where the integer enum " + s(tr["type"]) + " is expected"
			return str("x")
		}
		if c.class == "nonmember" && c.hit() {
			c.done = "non-member value of " + s(tr["type"])
			// a far value, or one next to / between the declared members
			isMember := map[int]bool{}
			lo, hi := 0, 0
			for _, m := range asList(tr["members"]) {
				if v, err := strconv.Atoi(s(m)); err == nil {
					isMember[v] = true
					if v < lo {
						lo = v
					}
					if v > hi {
						hi = v
					}
				}
			}
			cands := []int{987654, hi + 1}
			for v := lo; v <= hi; v++ {
				if !isMember[v] {
					cands = append(cands, v) // the smallest gap
					break
				}
			}
			return num(strconv.Itoa(cands[c.rng.Intn(len(cands))]))
		}
		return num(s(tr["lit"]))
	case "bytes":
		if b(tr["nil"]) {
			return M{"t": "null"}
		}
		return str(s(tr["b64"]))
	case "slice":
		if b(tr["nil"]) {
			return M{"t": "null"}
		}
		if c.class == "wrongkind" && c.hit() {
			c.done = "object where the array " + s(tr["type"]) + " is expected"
			return M{"t": "obj", "kv": []any{}}
		}
		return M{"t": "arr", "el": c.seq(asList(tr["elems"]))}
	case "array":
		el := c.seq(asList(tr["elems"]))
		if c.class == "arraylen" && c.hit() {
			if len(el) > 0 && c.rng.Intn(3) == 0 {
				el = el[:len(el)-1]
			} else if len(el) > 0 && c.rng.Intn(2) == 0 {
				el = el[:0] // the empty array
			} else if len(el) > 0 {
				el = append(el, el[len(el)-1])
			} else {
				el = append(el, num("0"))
			}
			c.done = "wrong length for the fixed array " + s(tr["type"])
		}
		if c.class == "wrongkind" && c.hit() {
			c.done = "string where the array " + s(tr["type"]) + " is expected"
			return str("x")
		}
		return M{"t": "arr", "el": el}
	case "map":
		if b(tr["nil"]) {
			return M{"t": "null"}
		}
		if c.class == "wrongkind" && c.hit() {
			c.done = "array where the map " + s(tr["type"]) + " is expected"
			return M{"t": "arr", "el": []any{}}
		}
		kv := []any{}
		for _, e := range asList(tr["entries"]) {
			em := asM(e)
			kv = append(kv, []any{s(em["key"]), c.enc(asM(em["v"]))})
		}
		return M{"t": "obj", "kv": kv}
	case "ptr":
		if b(tr["nil"]) {
			return M{"t": "null"}
		}
		return c.enc(asM(tr["v"]))
	}
	return M{"t": "unsupported"}
}

func (c *corruptor) seq(l []any) []any {
	out := []any{}
	for _, e := range l {
		out = append(out, c.enc(asM(e)))
	}
	return out
}

func (c *corruptor) fields(fs []any) []any {
	kv := []any{}
	for _, f := range fs {
		fm := asM(f)
		exp, embstruct, hasjson := b(fm["exp"]), b(fm["embstruct"]), b(fm["hasjson"])
		tagname, tagopts := s(fm["tagname"]), s(fm["tagopts"])
		if (!exp && !embstruct) || (hasjson && tagname == "-" && tagopts == "") {
			continue
		}
		v := asM(fm["v"])
		if embstruct && !(hasjson && tagname != "") && v["k"] == "struct" {
			kv = append(kv, c.fields(asList(v["fields"]))...)
			continue
		}
		name := s(fm["go"])
		if hasjson && tagname != "" {
			name = tagname
		}
		kv = append(kv, []any{name, c.enc(v)})
	}
	return kv
}

var classes = []string{"unknownkey", "wrongkind", "unknownkind", "nonmember", "arraylen"}

// corruptions returns up to n corrupted variants of the document of tree (class, description, doc).
// ok is false when the Go re-encoding does not reproduce the emitted document (nothing is corrupted then).
func corruptions(tree, doc M, rng *rand.Rand, n int) (out []M, ok bool) {
	base := &corruptor{rng: rng, class: "", target: -1}
	if !sameDoc(base.enc(tree), doc) {
		return nil, false
	}
	for _, class := range classes {
		counter := &corruptor{rng: rng, class: class, target: -1}
		counter.enc(tree)
		if counter.count == 0 {
			continue
		}
		for k := 0; k < n; k++ {
			c := &corruptor{rng: rng, class: class, target: rng.Intn(counter.count)}
			d := c.enc(tree)
			if c.done != "" {
				out = append(out, M{"class": class, "what": c.done, "doc": d})
			}
		}
	}
	return out, true
}

// sameDoc compares documents with objects as member sets and null = empty container.
func sameDoc(a, b M) bool {
	if a["t"] == "obj" && b["t"] == "obj" {
		ka, kb := asList(a["kv"]), asList(b["kv"])
		if len(ka) != len(kb) {
			return false
		}
		for _, x := range ka {
			xp := asList(x)
			found := false
			for _, y := range kb {
				yp := asList(y)
				if fmt.Sprint(xp[0]) == fmt.Sprint(yp[0]) && sameDoc(asM(xp[1]), asM(yp[1])) {
					found = true
					break
				}
			}
			if !found {
				return false
			}
		}
		return true
	}
	if a["t"] == "arr" && b["t"] == "arr" {
		la, lb := asList(a["el"]), asList(b["el"])
		if len(la) != len(lb) {
			return false
		}
		for i := range la {
			if !sameDoc(asM(la[i]), asM(lb[i])) {
				return false
			}
		}
		return true
	}
	empty := func(m M) bool {
		return m["t"] == "null" || (m["t"] == "arr" && len(asList(m["el"])) == 0) || (m["t"] == "obj" && len(asList(m["kv"])) == 0)
	}
	if a["t"] == "null" || b["t"] == "null" {
		return empty(a) && empty(b)
	}
	return reflect.DeepEqual(normNum(a), normNum(b))
}

func normNum(m M) M {
	out := M{}
	for k, v := range m {
		out[k] = fmt.Sprint(v)
	}
	return out
}
