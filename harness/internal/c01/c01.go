// Package c01 checks property C01 (generated Go boilerplate compiles with its source package)
// — spec/GoIdents.tla, TraceGoIdents.tla.
package c01

import (
	"fmt"
	"go/ast"
	"go/parser"
	"go/token"
	"math/rand"
	"os"
	"path/filepath"
	"strings"
	"time"

	"github.com/benoitkugler/gomacro/analysis"
	"golang.org/x/tools/go/packages"

	"verif/harness/internal/absprog"
	"verif/harness/internal/c08"
	"verif/harness/internal/core"
	"verif/harness/internal/gens"
	"verif/harness/internal/pqshim"
	"verif/harness/internal/sqlprog"
	"verif/harness/internal/synth"
	"verif/harness/internal/wire"
)

const clashKey = "two unions sharing their first two letters and a member declare the same Kind constant"
const arrayKey = "named fixed-size array of a union: the generated UnmarshalJSON calls make on an array type"

type Item struct {
	ID     int               `json:"id"`
	Label  string            `json:"label"`
	Files  map[string]string `json:"files"`
	Source string            `json:"source"`
	Pkg    string            `json:"pkg"` // import path
	Known  string            `json:"known,omitempty"`
	// Also lists source files of OTHER packages whose own generated code is placed next to them before
	// type-checking (a union of another package is used through the wrapper generated for that package)
	Also []string `json:"also,omitempty"`
}

type Obs struct {
	Case       int      `json:"case"`
	Item       int      `json:"item"`
	Gen        string   `json:"gen"`
	Outcome    string   `json:"outcome"` // accepted | refused | crash
	Msg        string   `json:"msg"`
	Syntax     string   `json:"syntax"`
	Errors     []string `json:"errors"`
	Defines    []string `json:"defines"`
	Srcdefines []string `json:"srcdefines"`
	Text       string   `json:"text,omitempty"`
}

type workIn struct {
	Items []Item `json:"items"`
}
type workOut struct {
	Obs  []Obs  `json:"obs"`
	Note string `json:"note"`
}

var variants = []string{"go/unions", "go/randdata", "go/sqlcrud", "go/sqlcrud+sets"}

func topLevel(src string) ([]string, string) {
	fset := token.NewFileSet()
	f, err := parser.ParseFile(fset, "gen.go", src, 0)
	if err != nil {
		return []string{}, err.Error()
	}
	out := []string{}
	for _, d := range f.Decls {
		switch d := d.(type) {
		case *ast.FuncDecl:
			if d.Recv == nil {
				out = append(out, d.Name.Name)
			}
		case *ast.GenDecl:
			for _, s := range d.Specs {
				switch s := s.(type) {
				case *ast.TypeSpec:
					out = append(out, s.Name.Name)
				case *ast.ValueSpec:
					for _, n := range s.Names {
						if n.Name != "_" {
							out = append(out, n.Name)
						}
					}
				}
			}
		}
	}
	return out, ""
}

func Worker(args []string) {
	core.WorkerIO(args, func(in workIn, dir string) workOut {
		var out workOut
		mod, err := synth.NewModule(dir)
		if err != nil {
			panic(err)
		}
		if err := pqshim.Install(mod.Dir); err != nil {
			panic(err)
		}
		var rels []string
		for _, it := range in.Items {
			mod.Write(it.Files)
			rels = append(rels, it.Source)
		}
		type alsoRef struct{ item, idx int }
		var alsos []alsoRef
		for i, it := range in.Items {
			for _, a := range it.Also {
				alsos = append(alsos, alsoRef{i, len(rels)})
				rels = append(rels, a)
			}
		}
		pkgs, root, err := mod.Load(rels)
		if err != nil {
			out.Note = "load failed: " + err.Error()
			return out
		}
		anas := make([]*analysis.Analysis, len(in.Items))
		refused := make([]string, len(in.Items))
		for i := range in.Items {
			class, msg := synth.Guard(func() { anas[i] = analysis.NewAnalysisFromFile(pkgs[i], mod.Abs(rels[i])) })
			if class != synth.OutOK {
				refused[i] = class + ": " + msg
			}
		}
		id := 0
		for _, v := range variants {
			obsIdx := map[int]int{}
			var check []string
			for i, it := range in.Items {
				id++
				o := Obs{Case: id, Item: it.ID, Gen: v, Errors: []string{}, Defines: []string{}, Srcdefines: pkgs[i].Types.Scope().Names()}
				if refused[i] != "" {
					o.Outcome, o.Msg = "refused", "analysis "+refused[i]
					if strings.HasPrefix(refused[i], synth.OutRuntime) {
						o.Outcome = "crash"
					}
					out.Obs = append(out.Obs, o)
					continue
				}
				g := gens.Run(v, pkgs[i], mod.Abs(rels[i]), anas[i], root)
				switch g.Class {
				case synth.OutDiag:
					o.Outcome, o.Msg = "refused", g.Msg
				case synth.OutRuntime:
					o.Outcome, o.Msg = "crash", g.Msg
				default:
					o.Outcome = "accepted"
					gf := filepath.Join(filepath.Dir(mod.Abs(rels[i])), "zz_generated.go")
					fixed, ferr := wire.FixImports(gf, g.Text)
					if ferr != nil {
						o.Syntax = ferr.Error()
						o.Text = g.Text
					} else {
						o.Text = fixed
						o.Defines, o.Syntax = topLevel(fixed)
						os.WriteFile(gf, []byte(fixed), 0o644)
						obsIdx[i] = len(out.Obs)
						check = append(check, it.Pkg)
					}
				}
				out.Obs = append(out.Obs, o)
			}
			// companions: the code the same generator emits for the other packages' files
			var companions []string
			for _, a := range alsos {
				if _, ok := obsIdx[a.item]; !ok {
					continue
				}
				var ana *analysis.Analysis
				if class, _ := synth.Guard(func() { ana = analysis.NewAnalysisFromFile(pkgs[a.idx], mod.Abs(rels[a.idx])) }); class != synth.OutOK {
					continue
				}
				g := gens.Run(v, pkgs[a.idx], mod.Abs(rels[a.idx]), ana, root)
				if g.Class != synth.OutOK {
					continue
				}
				gf := filepath.Join(filepath.Dir(mod.Abs(rels[a.idx])), "zz_generated.go")
				if fixed, ferr := wire.FixImports(gf, g.Text); ferr == nil {
					os.WriteFile(gf, []byte(fixed), 0o644)
					companions = append(companions, gf)
				}
			}
			if len(check) > 0 {
				cfg := &packages.Config{Dir: mod.Dir, Mode: packages.NeedName | packages.NeedTypes | packages.NeedSyntax | packages.NeedFiles | packages.NeedTypesInfo | packages.NeedImports | packages.NeedDeps}
				checked, lerr := packages.Load(cfg, check...)
				if lerr != nil {
					out.Note = "type-checking failed to run: " + lerr.Error()
					return out
				}
				byPath := map[string]*packages.Package{}
				for _, p := range checked {
					byPath[p.PkgPath] = p
				}
				for i, it := range in.Items {
					k, ok := obsIdx[i]
					if !ok {
						continue
					}
					p := byPath[it.Pkg]
					if p == nil {
						out.Note = "package not type-checked: " + it.Pkg
						return out
					}
					for _, e := range p.Errors {
						msg := e.Msg
						if j := strings.LastIndex(e.Pos, "/"); j >= 0 {
							msg = e.Pos[j+1:] + ": " + msg
						}
						out.Obs[k].Errors = append(out.Obs[k].Errors, msg)
					}
					os.Remove(filepath.Join(filepath.Dir(mod.Abs(rels[i])), "zz_generated.go"))
				}
				for _, gf := range companions {
					os.Remove(gf)
				}
			}
		}
		return out
	})
}

// witnessForeignUnion: a struct field typed by an exported union of ANOTHER package: the wrapper it is encoded
// through is the one generated for that package (sub.ShapeWrapper), so both packages get their generated code.
func witnessForeignUnion(id int) *absprog.Prog {
	return &absprog.Prog{ID: id, Decls: []absprog.Decl{
		{K: "iface", Name: "Shape", Pkg: "sub", IMethods: []string{"isShape"}},
		{K: "struct", Name: "Circle", Pkg: "sub", Fields: []absprog.Field{{Name: "R", Type: absprog.Basic("int")}}, Methods: []absprog.Method{{Name: "isShape"}}},
		{K: "struct", Name: "Square", Pkg: "sub", Fields: []absprog.Field{{Name: "Side", Type: absprog.Basic("int")}}, Methods: []absprog.Method{{Name: "isShape"}}},
		{K: "struct", Name: "Drawing", Fields: []absprog.Field{{Name: "Title", Type: absprog.Basic("string")}, {Name: "Main", Type: absprog.Ref("sub", "Shape")}}},
	}}
}

func witnessClash(id int) *absprog.Prog {
	return &absprog.Prog{ID: id, Decls: []absprog.Decl{
		{K: "iface", Name: "Shape", IMethods: []string{"isShape"}},
		{K: "iface", Name: "Shade", IMethods: []string{"isShade"}},
		{K: "struct", Name: "Both", Fields: []absprog.Field{{Name: "V", Type: absprog.Basic("int")}}, Methods: []absprog.Method{{Name: "isShape"}, {Name: "isShade"}}},
		{K: "struct", Name: "Holder", Fields: []absprog.Field{{Name: "A", Type: absprog.Ref("", "Shape")}, {Name: "B", Type: absprog.Ref("", "Shade")}}},
	}}
}

func witnessArray(id int) *absprog.Prog {
	ar := absprog.Array(3, absprog.Ref("", "Shape"))
	return &absprog.Prog{ID: id, Decls: []absprog.Decl{
		{K: "iface", Name: "Shape", IMethods: []string{"isShape"}},
		{K: "struct", Name: "Circle", Fields: []absprog.Field{{Name: "R", Type: absprog.Basic("int")}}, Methods: []absprog.Method{{Name: "isShape"}}},
		{K: "named", Name: "Three", Under: &ar},
		{K: "struct", Name: "Holder", Fields: []absprog.Field{{Name: "T", Type: absprog.Ref("", "Three")}}},
	}}
}

// witnessForeign: a struct with a union field next to fields typed by other packages (sub-package,
// standard library): the JSON wrapper gounions writes for it repeats those field types.
func witnessForeign(id int) *absprog.Prog {
	st := absprog.Basic("string")
	return &absprog.Prog{ID: id, Decls: []absprog.Decl{
		{K: "named", Name: "Code", Pkg: "sub", Under: &st},
		{K: "struct", Name: "Point", Pkg: "sub", Fields: []absprog.Field{{Name: "X", Type: absprog.Basic("int")}}},
		{K: "iface", Name: "Shape", IMethods: []string{"isShape"}},
		{K: "struct", Name: "Circle", Fields: []absprog.Field{{Name: "R", Type: absprog.Basic("int")}}, Methods: []absprog.Method{{Name: "isShape"}}},
		{K: "struct", Name: "Mixed", Fields: []absprog.Field{{Name: "S", Type: absprog.Ref("", "Shape")}, {Name: "C", Type: absprog.Ref("sub", "Code")},
			{Name: "Ps", Type: absprog.Slice(absprog.Ref("sub", "Point"))}, {Name: "N", Type: absprog.Ref("database/sql", "NullString")},
			{Name: "D", Type: absprog.Ref("time", "Duration")}, {Name: "M", Type: absprog.Map(absprog.Basic("string"), absprog.Ref("sub", "Point"))}}},
	}}
}

func Run(c *core.Ctx, replay string) (*core.Result, error) {
	res := &core.Result{Level: "model_checking"}
	res.Assumptions = []string{
		"the typing judgment is go/types' (the specification does not re-implement Go's type checker); the import fixing pass is golang.org/x/tools/imports, the library behind goimports",
		"github.com/lib/pq is not available offline: generated CRUD code is type-checked against a stand-in exposing the same API (harness/internal/pqshim)",
	}
	t, err := c.RunTLC(core.TLCOpts{Module: "GoIdents", Config: "GoIdents.cfg", Workers: 4})
	if err != nil {
		return nil, err
	}
	if t.ErrorKind != "" {
		return nil, core.Inconcl("design-level run of GoIdents ended with %s %s", t.ErrorKind, t.InvViolated)
	}
	res.AddTLC(t)

	var items []Item
	addProg := func(p *absprog.Prog, label, known string) {
		items = append(items, Item{ID: len(items) + 1, Label: label, Files: absprog.Render(p, synth.ModRoot), Source: fmt.Sprintf("p%d/defs.go", p.ID),
			Pkg: absprog.PkgPath(synth.ModRoot, p.ID, ""), Known: known})
	}
	if replay != "" {
		var it Item
		if err := core.LoadReplay(replay, &it); err != nil {
			return nil, err
		}
		it.ID = 1
		items = []Item{it}
	} else {
		rng := rand.New(rand.NewSource(c.Seed))
		nRand := 10
		if c.Thorough() {
			nRand = 120
		}
		pid := 0
		for k := 0; k < nRand; k++ {
			pid++
			o := absprog.Full()
			o.NStructs = 1 + rng.Intn(5)
			o.DashTags = true
			p := absprog.Random(pid, rng, o)
			addProg(p, "random package", "")
		}
		for _, te := range absprog.MinimalKinds() {
			pid++
			addProg(absprog.Minimal(pid, te), "single field kind", "")
		}
		pid++
		addProg(witnessClash(pid), "witness: unions Shape / Shade sharing a member", clashKey)
		pid++
		addProg(witnessArray(pid), "witness: named fixed array of a union", arrayKey)
		pid++
		addProg(witnessForeign(pid), "struct with a union field and fields typed by other packages", "")
		pid++
		addProg(witnessForeignUnion(pid), "struct with a field typed by a union of another package", "")
		items[len(items)-1].Also = []string{fmt.Sprintf("p%d/sub/sub.go", pid)}
		// SQL model files
		u, err := c08.LoadUniverse(c, res)
		if err != nil {
			return nil, err
		}
		nw := sqlprog.NamingWitness(7000)
		items = append(items, Item{ID: len(items) + 1, Label: "sql model file (tables and fields named like the templates' own identifiers)", Files: sqlprog.Render(nw), Source: sqlprog.Dir(nw.ID) + "/models.go", Pkg: synth.ModRoot + "/" + sqlprog.Dir(nw.ID)})
		rounds := 1
		if c.Thorough() {
			rounds = 6
		}
		for r := 0; r < rounds; r++ {
			for _, m := range sqlprog.Compose(u, rng, 2+rng.Intn(4), 1000+len(items)) {
				items = append(items, Item{ID: len(items) + 1, Label: "sql model file", Files: sqlprog.Render(m), Source: sqlprog.Dir(m.ID) + "/models.go", Pkg: synth.ModRoot + "/" + sqlprog.Dir(m.ID)})
			}
			// model files with comment directives (UNIQUE sets, select keys, custom queries) and nullable keys
			for _, m := range sqlprog.ComposeCrud(u, rng, 5000+len(items)) {
				items = append(items, Item{ID: len(items) + 1, Label: "sql model file (directives)", Files: sqlprog.Render(m), Source: sqlprog.Dir(m.ID) + "/models.go", Pkg: synth.ModRoot + "/" + sqlprog.Dir(m.ID)})
			}
			// the same without the column kinds sqlcrud documents as refused, so that every supported kind
			// reaches the CRUD generator in an accepted file
			for _, m := range sqlprog.Compose(u.Filter(sqlprog.CrudOK), rng, 2+rng.Intn(4), 3000+len(items)) {
				items = append(items, Item{ID: len(items) + 1, Label: "sql model file (supported column kinds)", Files: sqlprog.Render(m), Source: sqlprog.Dir(m.ID) + "/models.go", Pkg: synth.ModRoot + "/" + sqlprog.Dir(m.ID)})
			}
		}
	}
	var all []Obs
	const chunk = 40
	for i := 0; i < len(items); i += chunk {
		j := i + chunk
		if j > len(items) {
			j = len(items)
		}
		var out workOut
		log, err := c.RunSelfWorker("c01", workIn{Items: items[i:j]}, &out, 15*time.Minute)
		if err != nil {
			return nil, core.Inconcl("c01 worker: %v\n%s", err, core.Tail(log, 20))
		}
		if out.Note != "" {
			return nil, core.Inconcl("c01 worker: %s", out.Note)
		}
		all = append(all, out.Obs...)
	}
	var recs []any
	byCase := map[int]Obs{}
	byItem := map[int]Item{}
	for _, it := range items {
		byItem[it.ID] = it
	}
	accepted := 0
	for i := range all {
		all[i].Case = i + 1
		o := all[i]
		byCase[o.Case] = o
		slim := o
		slim.Text = ""
		recs = append(recs, slim)
		if o.Outcome == "accepted" {
			accepted++
		}
		if i%61 == 3 {
			res.Sample(map[string]any{"input": byItem[o.Item].Label, "generator": o.Gen, "outcome": o.Outcome, "defines": o.Defines, "errors": o.Errors})
		}
	}
	bad, err := c.JudgeTrace(res, "TraceGoIdents", recs)
	if err != nil {
		return nil, err
	}
	for _, v := range bad {
		o := byCase[core.Int(v, "case")]
		it := byItem[o.Item]
		why := core.Str(v, "why")
		key := o.Gen + ": " + normalise(why)
		if it.Known != "" && o.Gen == "go/unions" {
			key = it.Known
		}
		var src []string
		for _, k := range synth.SortedKeys(it.Files) {
			if !strings.Contains(k, "/sub/") && !strings.HasSuffix(k, "types.go") {
				src = append(src, "// "+k+"\n"+it.Files[k])
			}
		}
		res.Violations = append(res.Violations, core.Violation{Key: key, What: fmt.Sprintf("%s [%s, %s]\nerrors: %v\n%s", why, it.Label, o.Gen, o.Errors, strings.Join(src, "\n")), Replay: it})
	}
	res.Evaluations = len(all)
	res.TracesVsImpl = len(all)
	res.Nontrivial = accepted
	res.Rule = fmt.Sprintf("%d source packages (seeded random full-feature packages, %d single-field-kind packages, SQL model files covering the column universe of PgDDLModel, 2 witnesses of recorded findings) x {go/unions, go/randdata, go/sqlcrud, go/sqlcrud with generate-sets}; each accepted output goes through the import fixing pass and is type-checked inside its package; non-trivial = accepted outputs", len(items), len(absprog.MinimalKinds()))
	return res, nil
}

// normalise strips positions and concrete names that vary between inputs from a type error.
func normalise(why string) string {
	if i := strings.Index(why, ": "); i > 0 && strings.HasPrefix(why, "generated Go code does not type-check") {
		msg := why[i+2:]
		if j := strings.Index(msg, ": "); j > 0 && strings.Contains(msg[:j], ".go:") {
			msg = msg[j+2:]
		}
		f := strings.Fields(msg)
		if len(f) > 7 {
			f = f[:7]
		}
		return "does not type-check: " + strings.Join(f, " ")
	}
	if i := strings.Index(why, ": "); i > 0 {
		return why[:i]
	}
	return why
}
