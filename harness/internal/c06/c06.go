// Package c06 checks property C06 (Dart JSON routines and linking) — spec/DartSem.tla, TraceDart.tla.
package c06

import (
	"fmt"
	"go/constant"
	"go/types"
	"math/rand"
	"path/filepath"
	"reflect"
	"sort"
	"strconv"
	"strings"
	"time"

	"github.com/benoitkugler/gomacro/analysis"
	"github.com/benoitkugler/gomacro/generator"
	"github.com/benoitkugler/gomacro/generator/dart"

	"verif/harness/internal/absprog"
	"verif/harness/internal/core"
	"verif/harness/internal/proj"
	"verif/harness/internal/synth"
)

const bytesKey = "[]byte field: Dart reads a List<int> where Go writes a base64 string"

type AField struct {
	Goname   string   `json:"goname"`
	Exported bool     `json:"exported"`
	Emb      string   `json:"emb"`
	Tagname  string   `json:"tagname"`
	Tagopts  string   `json:"tagopts"`
	Hasjson  bool     `json:"hasjson"`
	Gomacro  string   `json:"gomacro"`
	Sub      []AField `json:"sub"`
	Nilable  bool     `json:"nilable"` // Go writes null for the zero value: slices (incl. []byte) and maps, named or not
	Keywire  string   `json:"keywire"` // map fields: how Go writes the keys: int (decimal string) | string | intenum | strenum | ""
}

type XStruct struct {
	Dart   string   `json:"dart"`
	Pkg    string   `json:"pkg"`
	Fields []AField `json:"fields"`
	Unions []string `json:"unions"`
}

type XMember struct {
	Tag     string `json:"tag"`
	Dart    string `json:"dart"`
	Routine string `json:"routine"`
}

type XUnion struct {
	Dart     string    `json:"dart"`
	Pkg      string    `json:"pkg"`
	Exported bool      `json:"exported"`
	Members  []XMember `json:"members"`
}

type XEnum struct {
	Dart   string   `json:"dart"`
	Pkg    string   `json:"pkg"`
	Ints   bool     `json:"ints"`
	Values []string `json:"values"`
}

type XNamed struct {
	Dart string `json:"dart"`
	Pkg  string `json:"pkg"`
}

type Case struct {
	Case    int               `json:"case"`
	Prog    absprog.Prog      `json:"prog"`
	Sources []string          `json:"sources"`
	Outcome string            `json:"outcome"`
	Syntax  string            `json:"syntax"`
	Files   []*proj.DartFile  `json:"files"`
	Structs []XStruct         `json:"structs"`
	Unions  []XUnion          `json:"unions"`
	Enums   []XEnum           `json:"enums"`
	Nameds  []XNamed          `json:"nameds"`
	Text    map[string]string `json:"text,omitempty"`
	Src     map[string]string `json:"src,omitempty"`
	Note    string            `json:"note,omitempty"`
}

type workIn struct {
	Cases []Case `json:"cases"`
}

const timeStruct = "struct{wall uint64; ext int64; loc *time.Location}"

// isEnumType: a named basic type of the analysed module with a typed constant in its package.
func isEnumType(n *types.Named) bool {
	if n.Obj().Pkg() == nil || !strings.HasPrefix(n.Obj().Pkg().Path(), synth.ModRoot) {
		return false
	}
	sc := n.Obj().Pkg().Scope()
	for _, name := range sc.Names() {
		if k, ok := sc.Lookup(name).(*types.Const); ok && k.Type() == n {
			return true
		}
	}
	return false
}

func fieldsOf(st *types.Struct, depth int) []AField {
	out := []AField{}
	for i := 0; i < st.NumFields(); i++ {
		f := st.Field(i)
		tag := reflect.StructTag(st.Tag(i))
		js, has := tag.Lookup("json")
		name, opts, found := strings.Cut(js, ",")
		if found {
			opts = "," + opts
		}
		af := AField{Goname: f.Name(), Exported: f.Exported(), Emb: "no", Tagname: name, Tagopts: opts, Hasjson: has, Gomacro: tag.Get("gomacro"), Sub: []AField{}}
		switch u := types.Unalias(f.Type()).Underlying().(type) {
		case *types.Slice:
			af.Nilable = true
		case *types.Map:
			af.Nilable = true
			if kb, ok := u.Key().Underlying().(*types.Basic); ok {
				isEnum := false
				if kn, isNamed := types.Unalias(u.Key()).(*types.Named); isNamed {
					isEnum = isEnumType(kn)
				}
				switch {
				case kb.Info()&types.IsInteger != 0 && isEnum:
					af.Keywire = "intenum"
				case kb.Info()&types.IsInteger != 0:
					af.Keywire = "int"
				case kb.Info()&types.IsString != 0 && isEnum:
					af.Keywire = "strenum"
				case kb.Info()&types.IsString != 0:
					af.Keywire = "string"
				}
			}
		}
		if f.Embedded() {
			if sub, ok := types.Unalias(f.Type()).Underlying().(*types.Struct); ok && f.Type().Underlying().String() != timeStruct && depth < 8 {
				af.Emb = "struct"
				af.Sub = fieldsOf(sub, depth+1)
			} else {
				af.Emb = "basic"
			}
		}
		out = append(out, af)
	}
	return out
}

func title(s string) string { return strings.Title(s) }
func lowerFirst(s string) string {
	if s == "" {
		return s
	}
	return strings.ToLower(s[:1]) + s[1:]
}

func implementers(itf *types.Named) []*types.Named {
	it, ok := itf.Underlying().(*types.Interface)
	if !ok {
		return nil
	}
	var out []*types.Named
	sc := itf.Obj().Pkg().Scope()
	for _, n := range sc.Names() {
		if tn, ok := sc.Lookup(n).(*types.TypeName); ok {
			if named, ok := tn.Type().(*types.Named); ok && named.TypeParams().Len() == 0 {
				if _, isItf := named.Underlying().(*types.Interface); !isItf && types.Implements(named, it) {
					out = append(out, named)
				}
			}
		}
	}
	return out
}

// expectations derives the Go side from go/types for every named type the analyses hold.
func expectations(c *Case, anas []*analysis.Analysis) {
	// named types reachable from the source declarations through the fields the outputs include
	// (exported, not json:"-", not gomacro:"ignore"), elements, keys, underlying types and union members
	seen := map[*types.Named]bool{}
	var nameds []*types.Named
	visited := map[types.Type]bool{}
	var reach func(t types.Type)
	reach = func(t types.Type) {
		t = types.Unalias(t)
		if visited[t] {
			return
		}
		visited[t] = true
		if n, ok := t.(*types.Named); ok {
			if n.Obj().Pkg() != nil && n.TypeArgs().Len() == 0 && !seen[n] {
				seen[n] = true
				nameds = append(nameds, n)
			}
			if n.Underlying().String() == timeStruct {
				return
			}
			if _, isItf := n.Underlying().(*types.Interface); isItf {
				for _, m := range implementers(n) {
					reach(m)
				}
				return
			}
		}
		switch u := t.Underlying().(type) {
		case *types.Struct:
			for i := 0; i < u.NumFields(); i++ {
				tag := reflect.StructTag(u.Tag(i))
				if !u.Field(i).Exported() && !u.Field(i).Embedded() {
					continue
				}
				if tag.Get("json") == "-" || tag.Get("gomacro") == "ignore" {
					continue
				}
				if strings.Contains(tag.Get("gomacro-opaque"), "dart") {
					continue
				}
				reach(u.Field(i).Type())
			}
		case *types.Slice:
			reach(u.Elem())
		case *types.Array:
			reach(u.Elem())
		case *types.Map:
			reach(u.Key())
			reach(u.Elem())
		case *types.Pointer:
			reach(u.Elem())
		}
	}
	for _, ana := range anas {
		for _, t := range ana.Source {
			reach(t)
		}
	}
	sort.Slice(nameds, func(i, j int) bool { return nameds[i].String() < nameds[j].String() })
	enumConsts := func(n *types.Named) []*types.Const {
		var out []*types.Const
		if !strings.HasPrefix(n.Obj().Pkg().Path(), synth.ModRoot) {
			return nil
		}
		sc := n.Obj().Pkg().Scope()
		for _, name := range sc.Names() {
			if k, ok := sc.Lookup(name).(*types.Const); ok && k.Type() == n {
				out = append(out, k)
			}
		}
		return out
	}
	for _, n := range nameds {
		pkg := n.Obj().Pkg().Path()
		d := title(n.Obj().Name())
		if n.Underlying().String() == timeStruct {
			if pkg != "time" {
				c.Nameds = append(c.Nameds, XNamed{Dart: d, Pkg: pkg})
			}
			continue
		}
		if ks := enumConsts(n); len(ks) > 0 {
			if b, ok := n.Underlying().(*types.Basic); ok {
				e := XEnum{Dart: d, Pkg: pkg, Ints: b.Info()&types.IsInteger != 0, Values: []string{}}
				for _, k := range ks {
					if k.Exported() {
						v := k.Val().ExactString()
						if k.Val().Kind() == constant.String {
							v = strconv.Quote(constant.StringVal(k.Val()))
						}
						e.Values = append(e.Values, v)
					}
				}
				c.Enums = append(c.Enums, e)
				continue
			}
		}
		if _, isItf := n.Underlying().(*types.Interface); isItf {
			ms := implementers(n)
			if len(ms) == 0 {
				continue
			}
			u := XUnion{Dart: d, Pkg: pkg, Exported: n.Obj().Exported(), Members: []XMember{}}
			for _, m := range ms {
				xm := XMember{Tag: m.Obj().Name(), Dart: title(m.Obj().Name())}
				switch m.Underlying().(type) {
				case *types.Struct, *types.Slice, *types.Array, *types.Map:
					xm.Routine = lowerFirst(xm.Dart)
				}
				if len(enumConsts(m)) > 0 {
					xm.Routine = lowerFirst(xm.Dart)
				}
				u.Members = append(u.Members, xm)
			}
			c.Unions = append(c.Unions, u)
			continue
		}
		if st, ok := n.Underlying().(*types.Struct); ok {
			xs := XStruct{Dart: d, Pkg: pkg, Fields: fieldsOf(st, 0), Unions: []string{}}
			// exported unions of its own package listing it, provided they are part of the result
			sc := n.Obj().Pkg().Scope()
			for _, name := range sc.Names() {
				if tn, ok := sc.Lookup(name).(*types.TypeName); ok && tn.Exported() {
					if itf, ok := tn.Type().(*types.Named); ok && seen[itf] {
						if it, ok := itf.Underlying().(*types.Interface); ok && types.Implements(n, it) {
							xs.Unions = append(xs.Unions, itf.Obj().Name())
						}
					}
				}
			}
			c.Structs = append(c.Structs, xs)
			continue
		}
		c.Nameds = append(c.Nameds, XNamed{Dart: d, Pkg: pkg})
	}
}

func Worker(args []string) {
	core.WorkerIO(args, func(in workIn, dir string) workIn {
		mod, err := synth.NewModule(dir)
		if err != nil {
			panic(err)
		}
		var rels []string
		for i := range in.Cases {
			c := &in.Cases[i]
			c.Src = absprog.Render(&c.Prog, synth.ModRoot)
			mod.Write(c.Src)
			rels = append(rels, c.Sources...)
		}
		pkgs, _, err := mod.Load(rels)
		k := 0
		for i := range in.Cases {
			c := &in.Cases[i]
			c.Files, c.Structs, c.Unions, c.Enums, c.Nameds = []*proj.DartFile{}, []XStruct{}, []XUnion{}, []XEnum{}, []XNamed{}
			n := len(c.Sources)
			if err != nil {
				c.Note = "load failed: " + err.Error()
				k += n
				continue
			}
			var anas []*analysis.Analysis
			c.Outcome = "ok"
			for j := 0; j < n; j++ {
				var ana *analysis.Analysis
				class, msg := synth.Guard(func() { ana = analysis.NewAnalysisFromFile(pkgs[k+j], mod.Abs(c.Sources[j])) })
				if class != synth.OutOK {
					c.Outcome = "analysis " + class + ": " + msg
					break
				}
				anas = append(anas, ana)
			}
			k += n
			if c.Outcome != "ok" {
				continue
			}
			// the common root as cmd/gomacro computes it: the real loader on this case's files
			// the common root of the source files (what cmd/gomacro gets from LoadSources; C17 checks that part)
			root := filepath.Dir(mod.Abs(c.Sources[0]))
			for _, s := range c.Sources[1:] {
				d := filepath.Dir(mod.Abs(s))
				for !strings.HasPrefix(d+"/", root+"/") {
					root = filepath.Dir(root)
				}
			}
			var outs []dart.Output
			class, msg := synth.Guard(func() { outs = dart.Generate(root, anas) })
			if class != synth.OutOK {
				c.Outcome = class + ": " + msg
				continue
			}
			c.Text = map[string]string{}
			for _, o := range outs {
				text := generator.WriteDeclarations(o.Content)
				c.Text[o.Filename] = text
				df, perr := proj.ParseDart(o.Filename, text)
				if perr != nil {
					c.Syntax = o.Filename + ": " + perr.Error()
					break
				}
				sort.Strings(df.Uses)
				c.Files = append(c.Files, df)
			}
			sort.Slice(c.Files, func(a, b int) bool { return c.Files[a].Name < c.Files[b].Name })
			expectations(c, anas)
		}
		return in
	})
}

func Run(c *core.Ctx, replay string) (*core.Result, error) {
	res := &core.Result{Level: "model_checking"}
	res.Assumptions = []string{
		"no Dart SDK is installed: the routines are interpreted abstractly from a declaration-level parse (keys read / written, dispatch tables, value tables, defined and used names); Dart name resolution is modelled as: defined exactly once in the file, or in exactly one imported generated file",
		"the expected side comes from go/types (struct tags, implementers, constants) and the rule of encoding/json of FieldsDef.tla",
	}
	var cases []Case
	if replay != "" {
		var cs Case
		if err := core.LoadReplay(replay, &cs); err != nil {
			return nil, err
		}
		cases = []Case{{Case: 1, Prog: cs.Prog, Sources: cs.Sources}}
	} else {
		rng := rand.New(rand.NewSource(c.Seed))
		n := 12
		if c.Thorough() {
			n = 900
		}
		id := 0
		add := func(p *absprog.Prog, multi bool) {
			srcs := []string{fmt.Sprintf("p%d/defs.go", p.ID)}
			if multi {
				srcs = append(srcs, fmt.Sprintf("p%d/sub/sub.go", p.ID))
			}
			cases = append(cases, Case{Case: len(cases) + 1, Prog: *p, Sources: srcs})
		}
		for k := 0; k < n; k++ {
			id++
			o := absprog.Full()
			o.UnexportedMembers = rng.Intn(2) == 0
			o.Generics = true
			o.OddEnumValues = true
			o.NStructs = 1 + rng.Intn(5)
			o.DashTags = true
			add(absprog.Random(id, rng, o), rng.Intn(3) == 0)
		}
		for _, te := range absprog.MinimalKinds() {
			if te.K == "ref" && te.Name == "Opt" {
				continue
			}
			id++
			add(absprog.MinimalBare(id, te), false)
		}
		id++
		// fields the Dart side passes through untouched (gomacro-opaque) still travel under the JSON key Go uses
		add(&absprog.Prog{ID: id, Decls: []absprog.Decl{
			{K: "struct", Name: "Inner", Fields: []absprog.Field{{Name: "A", Type: absprog.Basic("int")}}},
			{K: "struct", Name: "Envelope", Fields: []absprog.Field{
				{Name: "ID", Type: absprog.Basic("int"), Tag: `json:"id"`},
				{Name: "Payload", Type: absprog.Ref("", "Inner"), Tag: `json:"payload" gomacro-opaque:"dart"`},
				{Name: "Plain", Type: absprog.Ref("", "Inner"), Tag: `gomacro-opaque:"dart,typescript"`},
				{Name: "Note", Type: absprog.Basic("string"), Tag: `json:"note,omitempty"`}}}}}, false)
		id++
		add(&absprog.Prog{ID: id, Decls: []absprog.Decl{{K: "struct", Name: "Blob", Fields: []absprog.Field{{Name: "Raw", Type: absprog.Slice(absprog.Basic("byte"))}, {Name: "N", Type: absprog.Basic("int")}}}}}, false)
	}
	var out workIn
	const chunk = 40
	for i := 0; i < len(cases); i += chunk {
		j := i + chunk
		if j > len(cases) {
			j = len(cases)
		}
		var part workIn
		log, err := c.RunSelfWorker("c06", workIn{Cases: cases[i:j]}, &part, 15*time.Minute)
		if err != nil {
			return nil, core.Inconcl("c06 worker: %v\n%s", err, core.Tail(log, 20))
		}
		out.Cases = append(out.Cases, part.Cases...)
	}
	var recs []any
	byCase := map[int]Case{}
	types_ := 0
	for i, cs := range out.Cases {
		if cs.Note != "" {
			return nil, core.Inconcl("case %d: %s", cs.Case, cs.Note)
		}
		byCase[cs.Case] = cs
		slim := cs
		slim.Text, slim.Src = nil, nil
		slim.Prog = absprog.Prog{ID: cs.Prog.ID, Decls: []absprog.Decl{}}
		recs = append(recs, slim)
		types_ += len(cs.Structs) + len(cs.Unions) + len(cs.Enums) + len(cs.Nameds)
		if i%17 == 1 {
			names := []string{}
			for _, f := range cs.Files {
				names = append(names, fmt.Sprintf("%s imports %v defines %d names", f.Name, f.Imports, len(f.Defs)))
			}
			res.Sample(map[string]any{"sources": cs.Sources, "files": names, "structs": len(cs.Structs), "unions": cs.Unions, "enums": cs.Enums})
		}
	}
	bad, err := c.JudgeTrace(res, "TraceDart", recs)
	if err != nil {
		return nil, err
	}
	for _, v := range bad {
		cs := byCase[core.Int(v, "case")]
		why := core.Str(v, "why")
		key := normalise(why)
		var src []string
		for _, k := range synth.SortedKeys(cs.Src) {
			if strings.TrimSpace(cs.Src[k]) != "package sub" {
				src = append(src, "// "+k+"\n"+cs.Src[k])
			}
		}
		res.Violations = append(res.Violations, core.Violation{Key: key, What: fmt.Sprintf("%s\n%.1500s", why, strings.Join(src, "\n")), Replay: Case{Prog: cs.Prog, Sources: cs.Sources}})
	}
	res.Evaluations = types_
	res.TracesVsImpl = len(cases)
	res.Nontrivial = len(cases)
	res.Rule = "seeded random packages (types spread over the root package, two sub-packages with the same package name and the standard library; one or two source files analysed together) and one single-field-kind package per field kind; for each source set every generated Dart file is projected and judged; evaluations = named Go types judged; distinct = source sets"
	return res, nil
}

// normalise removes the concrete type / file names from a verdict so that it can serve as a class key.
func normalise(why string) string {
	for _, cut := range []string{" of union ", " of enum ", "enum ", "class ", "fromJson of ", "toJson of ", "constructor arguments of ", "file "} {
		if i := strings.Index(why, cut); i >= 0 {
			rest := why[i+len(cut):]
			if j := strings.Index(rest, " "); j > 0 {
				why = why[:i+len(cut)] + "X" + rest[j:]
			}
		}
	}
	if i := strings.Index(why, " uses "); i > 0 {
		rest := why[i+6:]
		if j := strings.Index(rest, " "); j > 0 {
			why = why[:i+6] + rest[:j] + rest[j:]
		}
	}
	return why
}
